//! Shared plumbing: argument parsing, summaries, panic capture, watchdog, PRNG.
use serde_json::{json, Map, Value};
use std::collections::BTreeMap;
use std::io::{BufRead, BufReader, Write};
use std::panic::{catch_unwind, AssertUnwindSafe};
use std::sync::atomic::{AtomicU64, Ordering};
use std::sync::Mutex;

pub struct Args {
    pub module: String,
    pub mode: String,
    pub out: String,
    pub cases: Option<String>,
    pub seed: u64,
    pub opts: BTreeMap<String, String>,
}

impl Args {
    pub fn parse() -> Args {
        let v: Vec<String> = std::env::args().skip(1).collect();
        if v.len() < 2 {
            eprintln!("usage: verif-harness <module> <mode> --out FILE [--cases FILE] [--seed N] [--key value]*");
            std::process::exit(2);
        }
        let mut a = Args {
            module: v[0].clone(),
            mode: v[1].clone(),
            out: String::new(),
            cases: None,
            seed: 1,
            opts: BTreeMap::new(),
        };
        let mut i = 2;
        while i < v.len() {
            let k = v[i].trim_start_matches("--").to_string();
            let val = v.get(i + 1).cloned().unwrap_or_default();
            match k.as_str() {
                "out" => a.out = val,
                "cases" => a.cases = Some(val),
                "seed" => a.seed = val.parse().unwrap_or(1),
                _ => {
                    a.opts.insert(k, val);
                }
            }
            i += 2;
        }
        if a.out.is_empty() {
            eprintln!("--out is required");
            std::process::exit(2);
        }
        a
    }
    pub fn opt(&self, k: &str) -> Option<&str> {
        self.opts.get(k).map(|s| s.as_str())
    }
    pub fn opt_usize(&self, k: &str, d: usize) -> usize {
        self.opt(k).and_then(|s| s.parse().ok()).unwrap_or(d)
    }
    /// Iterate over the ndjson cases file.
    pub fn for_each_case(&self, mut f: impl FnMut(usize, Value)) {
        let path = self.cases.as_ref().expect("--cases required");
        let rd = BufReader::new(std::fs::File::open(path).expect("open cases"));
        for (i, line) in rd.lines().enumerate() {
            let line = line.expect("read");
            if line.trim().is_empty() {
                continue;
            }
            let v: Value = serde_json::from_str(&line).expect("case json");
            f(i, v);
        }
    }
}

pub static HEARTBEAT: AtomicU64 = AtomicU64::new(0);
pub static CURRENT: Mutex<String> = Mutex::new(String::new());
static LAST_PANIC: Mutex<String> = Mutex::new(String::new());

pub struct Summary {
    pub cases: u64,
    pub checks: u64,
    pub nontrivial: u64,
    pub behaviours: u64,
    pub mismatch_count: u64,
    pub mismatches: Vec<Value>,
    pub sigs: BTreeMap<String, u64>,
    pub samples: Vec<Value>,
    pub extra: Map<String, Value>,
    pub out: String,
    distinct: std::collections::HashSet<u64>,
}

impl Summary {
    pub fn new(out: &str) -> Summary {
        Summary {
            cases: 0,
            checks: 0,
            nontrivial: 0,
            behaviours: 0,
            mismatch_count: 0,
            mismatches: vec![],
            sigs: BTreeMap::new(),
            samples: vec![],
            extra: Map::new(),
            out: out.to_string(),
            distinct: Default::default(),
        }
    }
    pub fn mismatch(&mut self, sig: &str, detail: Value) {
        self.mismatch_count += 1;
        let c = self.sigs.entry(sig.to_string()).or_insert(0);
        *c += 1;
        // keep the first 3 per signature, 40 in total
        if *c <= 3 && self.mismatches.len() < 40 {
            let mut d = detail;
            if let Value::Object(ref mut m) = d {
                m.insert("sig".into(), json!(sig));
            } else {
                d = json!({"sig": sig, "detail": d});
            }
            self.mismatches.push(d);
        }
    }
    pub fn sample(&mut self, v: Value) {
        if self.samples.len() < 3 {
            self.samples.push(v);
        }
    }
    /// Count a case as distinct + non-trivial (by a hash of its abstract content).
    pub fn nontrivial_key(&mut self, key: &str) {
        use std::hash::{Hash, Hasher};
        let mut h = std::collections::hash_map::DefaultHasher::new();
        key.hash(&mut h);
        if self.distinct.insert(h.finish()) {
            self.nontrivial += 1;
        }
    }
    pub fn to_json(&self) -> Value {
        json!({
            "cases": self.cases, "checks": self.checks, "nontrivial": self.nontrivial,
            "behaviours": if self.behaviours > 0 { self.behaviours } else { self.cases },
            "mismatch_count": self.mismatch_count, "mismatches": self.mismatches,
            "mismatch_sigs": self.sigs, "samples": self.samples, "extra": self.extra,
        })
    }
    pub fn write(&self) {
        let mut f = std::fs::File::create(&self.out).expect("create out");
        f.write_all(serde_json::to_string(&self.to_json()).unwrap().as_bytes()).unwrap();
    }
}

/// Run `f` under catch_unwind; a panic in the code under test is data.
pub fn guarded<T>(label: &str, f: impl FnOnce() -> T) -> Result<T, String> {
    {
        let mut c = CURRENT.lock().unwrap_or_else(|e| e.into_inner());
        c.clear();
        c.push_str(&label[..label.len().min(2000)]);
    }
    HEARTBEAT.fetch_add(1, Ordering::SeqCst);
    let r = catch_unwind(AssertUnwindSafe(f));
    HEARTBEAT.fetch_add(1, Ordering::SeqCst);
    r.map_err(|e| {
        let msg = if let Some(s) = e.downcast_ref::<&str>() {
            s.to_string()
        } else if let Some(s) = e.downcast_ref::<String>() {
            s.clone()
        } else {
            "panic".to_string()
        };
        let loc = LAST_PANIC.lock().unwrap_or_else(|e| e.into_inner()).clone();
        format!("{msg} @ {loc}")
    })
}

pub fn install_panic_hook() {
    std::panic::set_hook(Box::new(|info| {
        let loc = info.location().map(|l| format!("{}:{}", l.file(), l.line())).unwrap_or_default();
        *LAST_PANIC.lock().unwrap_or_else(|e| e.into_inner()) = loc;
    }));
}

/// Watchdog: if one guarded case runs longer than `secs`, write a summary with a
/// `hang` mismatch and exit (a hang in the code under test is data, not a tool error).
pub fn start_watchdog(out: String, secs: u64) {
    std::thread::spawn(move || {
        let mut last = HEARTBEAT.load(Ordering::SeqCst);
        let mut still = 0u64;
        loop {
            std::thread::sleep(std::time::Duration::from_secs(1));
            let now = HEARTBEAT.load(Ordering::SeqCst);
            // odd = inside a guarded section
            if now == last && now % 2 == 1 {
                still += 1;
            } else {
                still = 0;
            }
            last = now;
            if still >= secs {
                let cur = CURRENT.lock().unwrap_or_else(|e| e.into_inner()).clone();
                let mut s = Summary::new(&out);
                s.cases = 1;
                s.mismatch("hang", json!({"case": cur, "secs": secs}));
                s.write();
                std::process::exit(0);
            }
        }
    });
}

/// splitmix64 / xorshift PRNG (deterministic from VERIF_SEED)
pub struct Rng(pub u64);
impl Rng {
    pub fn new(seed: u64) -> Rng {
        Rng(seed.wrapping_mul(0x9E3779B97F4A7C15) ^ 0xD1B54A32D192ED03)
    }
    pub fn next(&mut self) -> u64 {
        self.0 = self.0.wrapping_add(0x9E3779B97F4A7C15);
        let mut z = self.0;
        z = (z ^ (z >> 30)).wrapping_mul(0xBF58476D1CE4E5B9);
        z = (z ^ (z >> 27)).wrapping_mul(0x94D049BB133111EB);
        z ^ (z >> 31)
    }
    pub fn below(&mut self, n: usize) -> usize {
        if n == 0 {
            0
        } else {
            (self.next() % n as u64) as usize
        }
    }
    pub fn chance(&mut self, num: u64, den: u64) -> bool {
        self.next() % den < num
    }
    pub fn pick<'a, T>(&mut self, v: &'a [T]) -> &'a T {
        &v[self.below(v.len())]
    }
}

pub fn geti(v: &Value, k: &str) -> i64 {
    v.get(k).and_then(|x| x.as_i64()).unwrap_or_else(|| panic!("missing int field {k} in {v}"))
}
pub fn getb(v: &Value, k: &str) -> bool {
    v.get(k).and_then(|x| x.as_bool()).unwrap_or_else(|| panic!("missing bool field {k} in {v}"))
}
pub fn gets<'a>(v: &'a Value, k: &str) -> &'a str {
    v.get(k).and_then(|x| x.as_str()).unwrap_or_else(|| panic!("missing str field {k} in {v}"))
}
pub fn geta<'a>(v: &'a Value, k: &str) -> &'a Vec<Value> {
    v.get(k).and_then(|x| x.as_array()).unwrap_or_else(|| panic!("missing array field {k} in {v}"))
}

/// f64 -> integer json if integral (exactly), else the float itself (which will
/// then simply not compare equal to the spec's integer).
pub fn num(x: f64) -> Value {
    if x.is_finite() && x == x.trunc() && x.abs() < 9.0e15 {
        json!(x as i64)
    } else if x.is_nan() {
        json!("NaN")
    } else if x.is_infinite() {
        json!(if x > 0.0 { "inf" } else { "-inf" })
    } else {
        json!(x)
    }
}

/// value in thousandths: 1.0 -> 1000.  Exact when x*1000 is within 1e-6 of an integer.
pub fn milli(x: f64) -> Value {
    let y = x * 1000.0;
    if y.is_finite() && (y - y.round()).abs() < 1e-6 {
        json!(y.round() as i64)
    } else {
        num(x)
    }
}

pub fn write_ndjson(path: &str, lines: &[Value]) {
    let mut f = std::io::BufWriter::new(std::fs::File::create(path).expect("create trace"));
    for l in lines {
        f.write_all(serde_json::to_string(l).unwrap().as_bytes()).unwrap();
        f.write_all(b"\n").unwrap();
    }
}
