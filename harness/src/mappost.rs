//! MapPost (C15): replay of TLC cases through HitObjects / Beatmap, and the shift relation on
//! bundled and generated maps.
use crate::cp::TimeMap;
use crate::framing::{bundled_files, text_of_bundled};
use crate::gen::{gen_map, GenOpts};
use crate::util::*;
use rosu_map::section::hit_objects::hit_samples::{HitSampleDefaultName, HitSampleInfo, HitSampleInfoName};
use rosu_map::section::hit_objects::{HitObject, HitObjectKind, HitObjects};
use rosu_map::Beatmap;
use serde_json::{json, Value};

struct Shifted(i64);
impl TimeMap for Shifted {
    fn real(&self, t: i64) -> f64 {
        (t / 2 + self.0) as f64
    }
    fn abs(&self, x: f64) -> Value {
        json!(((x as i64) - self.0) * 2)
    }
}

fn smp_json(s: &HitSampleInfo) -> Value {
    let name = match &s.name {
        HitSampleInfoName::Default(HitSampleDefaultName::Normal) => "normal",
        HitSampleInfoName::Default(HitSampleDefaultName::Whistle) => "whistle",
        HitSampleInfoName::Default(HitSampleDefaultName::Finish) => "finish",
        HitSampleInfoName::Default(HitSampleDefaultName::Clap) => "clap",
        HitSampleInfoName::File(_) => "file",
    };
    json!({"name": name, "bank": s.bank as i32, "spec": s.bank_specified, "vol": s.volume, "cu": s.custom_sample_bank,
           "suffix": s.suffix.map_or(0, |x| x.get()), "layered": s.is_layered})
}

fn smps_json(v: &[HitSampleInfo]) -> Value {
    Value::Array(v.iter().map(smp_json).collect())
}

pub fn proj(h: &mut HitObject) -> Value {
    let t = num(h.start_time);
    let smp = smps_json(&h.samples);
    match &mut h.kind {
        HitObjectKind::Circle(c) => json!({"id": (c.pos.x as i64) / 10, "k": "circle", "t": t, "nc": c.new_combo, "vel": 0, "dur": 0, "smp": smp, "nodes": []}),
        HitObjectKind::Slider(s) => {
            let vel = s.velocity * 1e6;
            let dur = s.duration();
            json!({"id": (s.pos.x as i64) / 10, "k": "slider", "t": t, "nc": s.new_combo,
                   "vel": if (vel - vel.round()).abs() < 1e-3 { json!(vel.round() as i64) } else { json!(vel) },
                   "dur": if (dur - dur.round()).abs() < 1e-6 { json!(dur.round() as i64) } else { json!(dur) },
                   "smp": smp, "nodes": s.node_samples.iter().map(|n| smps_json(n)).collect::<Vec<_>>()})
        }
        HitObjectKind::Spinner(s) => json!({"id": -1, "k": "spinner", "t": t, "nc": s.new_combo, "vel": 0, "dur": num(s.duration), "smp": smp, "nodes": []}),
        HitObjectKind::Hold(s) => json!({"id": (s.pos_x as i64) / 10, "k": "hold", "t": t, "nc": false, "vel": 0, "dur": num(s.duration), "smp": smp, "nodes": []}),
    }
}

fn build_file(inp: &Value, timing: &[Value], rng: &mut Rng, shift: i64) -> String {
    let mode = match gets(inp, "mode") {
        "mania" => 3,
        "catch" => 2,
        "taiko" => 1,
        _ => 0,
    };
    let sm = geti(inp, "sm") as f64 / 1000.0;
    let mut s = format!("osu file format v14\n\n[General]\nMode: {mode}\n\n[Difficulty]\nSliderMultiplier:{sm}\n\n[Events]\n");
    for b in geta(inp, "breaks") {
        s.push_str(&format!("2,{},{}\n", b[0].as_i64().unwrap() + shift, b[1].as_i64().unwrap() + shift));
    }
    s.push_str("\n[TimingPoints]\n");
    let tm = Shifted(shift);
    for l in timing {
        s.push_str(&crate::timing::spell_line(l, &tm, rng));
        s.push('\n');
    }
    s.push_str("\n[HitObjects]\n");
    for o in geta(inp, "objs") {
        s.push_str(&spell_obj(o, rng, shift));
        s.push('\n');
    }
    s
}

/// one hit-object line for an abstract object record (its id is carried by the x coordinate)
pub fn spell_obj(o: &Value, rng: &mut Rng, shift: i64) -> String {
        let id = geti(o, "id");
        let x = id * 10;
        let tn = geti(o, "t") + shift;
        // `-0` is a spelling of the time 0
        let t: String = if tn == 0 && rng.chance(1, 3) { "-0".into() } else { format!("{tn}") };
        let nc = if getb(o, "nc") { 4 } else { 0 };
        let (hs, bank, abank, vol, cu) = (geti(o, "hs"), geti(o, "bank"), geti(o, "abank"), geti(o, "vol"), geti(o, "cu"));
        let bi = format!("{bank}:{abank}:{cu}:{vol}:{}", if getb(o, "file") { "hit.wav" } else { "" });
        let line = match gets(o, "k") {
            "circle" => format!("{x},100,{t},{},{hs},{bi}", 1 + nc),
            "slider" => {
                let len = geti(o, "len");
                let spans = geti(o, "spans");
                // a straight line of the requested length; the slider's own bank info is banks only
                format!("{x},100,{t},{},{hs},L|{}:100,{spans},{len},,,{bank}:{abank}", 2 + nc, x + 300)
            }
            "spinner" => format!("256,192,{t},{},{hs},{},{bi}", 8 + nc, tn + geti(o, "dur")),
            _ => format!("{x},192,{t},128,{hs},{}:{bi}", tn + geti(o, "dur")),
        };
        line
}

fn decode_proj(text: &str) -> Result<(Vec<Value>, Vec<Value>), String> {
    let mut h = rosu_map::from_str::<HitObjects>(text).map_err(|e| e.to_string())?;
    let mut b = rosu_map::from_str::<Beatmap>(text).map_err(|e| e.to_string())?;
    Ok((h.hit_objects.iter_mut().map(proj).collect(), b.hit_objects.iter_mut().map(proj).collect()))
}

pub fn replay(args: &Args, s: &mut Summary) {
    let mut rng = Rng::new(args.seed);
    let mut table: Vec<Value> = vec![];
    let mut n = 0u64;
    args.for_each_case(|_, c| {
        if let Some(a) = c.get("alpha") {
            table = a.as_array().unwrap().clone();
            return;
        }
        s.cases += 1;
        n += 1;
        let inp = &c["inp"];
        let timing: Vec<Value> = table[geti(inp, "timing") as usize - 1].as_array().unwrap().clone();
        let mut want: Vec<Value> = geta(&c, "out").clone();
        // the code's reading where the statement's differs (MapPost!PostW: a hold note after a break)
        let mut want_w: Vec<Value> = c.get("outw").and_then(|x| x.as_array()).cloned().unwrap_or_else(|| want.clone());
        // spinners have a fixed position: their id is not observable
        for w in want.iter_mut().chain(want_w.iter_mut()) {
            if w["k"] == "spinner" {
                w["id"] = json!(-1);
            }
        }
        let hold_differs = want.iter().zip(want_w.iter()).any(|(a, b)| a != b && a["k"] == "hold");
        if want.iter().any(|w| w["k"] == "slider") || !geta(inp, "breaks").is_empty() {
            s.nontrivial_key(&inp.to_string());
        }
        // every case unshifted; every 16th case also shifted (the model has proven Post commutes with Shift)
        let shifts: Vec<i64> = if n % 16 == 0 { vec![0, *rng.pick(&[-1000000i64, -7, 1, 1000000])] } else { vec![0] };
        for k in shifts {
            let text = build_file(inp, &timing, &mut rng, k);
            let r = guarded(&format!("mappost {text:?}"), || decode_proj(&text));
            s.checks += 2;
            match r {
                Err(p) => s.mismatch("panic", json!({"text": text, "panic": p})),
                Ok(Err(e)) => s.mismatch("io-error", json!({"text": text, "err": e})),
                Ok(Ok((h, b))) => {
                    let shifted_want: Vec<Value> = want.iter().map(|w| {
                        let mut w = w.clone();
                        w["t"] = json!(geti(&w, "t") + k);
                        w
                    }).collect();
                    let shifted_want_w: Vec<Value> = want_w.iter().map(|w| {
                        let mut w = w.clone();
                        w["t"] = json!(geti(&w, "t") + k);
                        w
                    }).collect();
                    for (name, got) in [("HitObjects", &h), ("Beatmap", &b)] {
                        if *got != shifted_want && hold_differs && *got == shifted_want_w {
                            // exactly the code's reading: the listed finding, nothing else
                            s.mismatch("hold-after-break-starts-no-combo", json!({"via": name, "text": text}));
                            break;
                        }
                        if *got != shifted_want {
                            let idx = got.iter().zip(shifted_want.iter()).position(|(a, b)| a != b).unwrap_or(0);
                            let field = shifted_want.get(idx).and_then(|w| w.as_object()).and_then(|w| w.iter().find(|(kk, v)| got.get(idx).and_then(|g| g.get(*kk)) != Some(*v)).map(|(kk, _)| kk.clone())).unwrap_or_else(|| "count".into());
                            s.mismatch(&format!("map-post:{field}{}", if k != 0 { ":shifted" } else { "" }),
                                       json!({"via": name, "text": text, "shift": k, "got": got.get(idx), "want": shifted_want.get(idx)}));
                            break;
                        }
                    }
                }
            }
            if k == 0 {
                s.sample(json!({"text": text, "out": c["out"]}));
            }
        }
    });
}

// ---------------------------------------------------------------------------
// the shift relation on real files whose times are whole milliseconds

fn is_int(s: &str) -> bool {
    let t = s.trim();
    !t.is_empty() && t.trim_start_matches('-').chars().all(|c| c.is_ascii_digit()) && t.len() < 12
}

/// shift every time of a .osu text by k ms, or None if a time is not a plain integer
fn shift_text(text: &str, k: i64) -> Option<String> {
    let mut out = String::new();
    let mut sec = String::new();
    for line in text.split('\n') {
        let l = line.trim_end_matches('\r');
        let t = l.trim_end();
        if t.starts_with('[') && t.ends_with(']') {
            sec = t.to_string();
            out.push_str(l);
            out.push('\n');
            continue;
        }
        if t.is_empty() || t.trim_start().starts_with("//") {
            out.push_str(l);
            out.push('\n');
            continue;
        }
        let mut f: Vec<String> = t.split(',').map(|x| x.to_string()).collect();
        let mut sh = |f: &mut Vec<String>, i: usize| -> Option<()> {
            if i < f.len() {
                if !is_int(&f[i]) {
                    return None;
                }
                f[i] = format!("{}", f[i].trim().parse::<i64>().ok()? + k);
            }
            Some(())
        };
        match sec.as_str() {
            "[TimingPoints]" => {
                sh(&mut f, 0)?;
            }
            "[Events]" => {
                if f.first().map(|x| x.trim() == "2" || x.trim() == "Break").unwrap_or(false) {
                    sh(&mut f, 1)?;
                    sh(&mut f, 2)?;
                }
            }
            "[HitObjects]" => {
                sh(&mut f, 2)?;
                if let Some(ty) = f.get(3).and_then(|x| x.trim().parse::<i64>().ok()) {
                    if ty & 1 == 0 && ty & 2 == 0 && ty & 8 != 0 {
                        sh(&mut f, 5)?;
                    } else if ty & 1 == 0 && ty & 2 == 0 && ty & 8 == 0 && ty & 128 != 0 {
                        if let Some(x) = f.get(5).cloned() {
                            let mut parts: Vec<String> = x.split(':').map(|p| p.to_string()).collect();
                            if !parts[0].is_empty() {
                                if !is_int(&parts[0]) {
                                    return None;
                                }
                                parts[0] = format!("{}", parts[0].trim().parse::<i64>().ok()? + k);
                                f[5] = parts.join(":");
                            }
                        }
                    }
                }
            }
            _ => {}
        }
        out.push_str(&f.join(","));
        out.push('\n');
    }
    Some(out)
}

fn times_shifted_eq(a: &Beatmap, b: &Beatmap, k: f64) -> Option<String> {
    // b must be a with every time moved by k and nothing else changed
    let mut b2 = b.clone();
    for p in b2.control_points.timing_points.iter_mut() {
        p.time -= k;
    }
    for p in b2.control_points.difficulty_points.iter_mut() {
        p.time -= k;
    }
    for p in b2.control_points.effect_points.iter_mut() {
        p.time -= k;
    }
    for p in b2.control_points.sample_points.iter_mut() {
        p.time -= k;
    }
    for br in b2.breaks.iter_mut() {
        br.start_time -= k;
        br.end_time -= k;
    }
    for h in b2.hit_objects.iter_mut() {
        h.start_time -= k;
    }
    crate::framing::beatmap_diff(a, &b2)
}

pub fn relations(args: &Args, s: &mut Summary) {
    let thorough = args.opt("tier") == Some("thorough");
    let mut rng = Rng::new(args.seed);
    let mut files: Vec<(String, String)> = vec![];
    for (name, bytes) in bundled_files() {
        if let Some(t) = text_of_bundled(&bytes) {
            files.push((name, t));
        }
    }
    for i in 0..(if thorough { 400 } else { 60 }) {
        let mut o = GenOpts::c02();
        o.chronological = i % 2 == 0;
        o.mode = Some((i % 4) as u8);
        o.integer_times = true;
        let t = gen_map(&mut rng, &o);
        files.push((format!("gen-{i}"), t));
    }
    for (name, text) in &files {
        for k in [-1000000i64, -777, -1, 1, 3, 1000, 1000000] {
            let Some(shifted) = shift_text(text, k) else { continue };
            let r = guarded(&format!("shift {name} {k}"), || (rosu_map::from_str::<Beatmap>(text), rosu_map::from_str::<Beatmap>(&shifted)));
            s.checks += 1;
            match r {
                Err(p) => s.mismatch("panic", json!({"file": name, "shift": k, "panic": p})),
                Ok((Ok(a), Ok(b))) => {
                    if k == 1 {
                        s.cases += 1;
                        s.nontrivial_key(name);
                    }
                    if let Some(d) = times_shifted_eq(&a, &b, k as f64) {
                        s.mismatch("shift-changes-more-than-times", json!({"file": name, "shift": k, "diff": d}));
                    }
                }
                Ok(_) => s.mismatch("io-error", json!({"file": name})),
            }
        }
    }
    // MapPost!SortedStable at scale: many objects, few distinct times, shuffled file order
    for run in 0..(if thorough { 300 } else { 60 }) {
        let n = 25 + rng.below(70);
        let times: Vec<i64> = (0..(2 + rng.below(6))).map(|_| rng.below(5000) as i64 - 500).collect();
        let objs: Vec<(usize, i64)> = (0..n).map(|i| (i, *rng.pick(&times))).collect();
        let mut text = String::from("osu file format v14\n\n[HitObjects]\n");
        let signed_zero = run % 3 == 0;
        for (i, t0) in &objs {
            // a third of the runs spell the time 0 sometimes as `-0`: the same point in time
            let t: String = if signed_zero && *t0 % 2 == 0 && i % 2 == 0 { "-0".into() } else if signed_zero && *t0 % 2 == 0 { "0".into() } else { format!("{t0}") };
            match i % 3 {
                0 => text.push_str(&format!("{},100,{t},1,0,0:0:0:0:\n", i * 10)),
                1 => text.push_str(&format!("{},100,{t},2,0,L|{}:100,1,50\n", i * 10, i * 10 + 50)),
                _ => text.push_str(&format!("{},192,{t},128,0,{}:0:0:0:0:\n", i * 10, t0 + 100)),
            }
        }
        let r = guarded(&format!("stable order run {run}"), || rosu_map::from_str::<HitObjects>(&text));
        s.checks += 1;
        match r {
            Err(p) => s.mismatch("panic", json!({"text": text, "panic": p})),
            Ok(Err(_)) => s.mismatch("io-error", json!({"text": text})),
            Ok(Ok(mut h)) => {
                s.cases += 1;
                let got: Vec<(i64, i64)> = h.hit_objects.iter_mut().map(|o| {
                    let p = proj(o);
                    (geti(&p, "id"), geti(&p, "t"))
                }).collect();
                let sorted = got.windows(2).all(|w| w[0].1 <= w[1].1);
                let stable = got.windows(2).all(|w| w[0].1 != w[1].1 || w[0].0 < w[1].0);
                if got.len() != n || !sorted {
                    s.mismatch("objects-not-in-time-order", json!({"text": text}));
                } else if !stable {
                    s.mismatch(if signed_zero { "equal-times-not-in-file-order:signed-zero" } else { "equal-times-not-in-file-order" }, json!({"n": n, "text": text}));
                }
            }
        }
    }
    // "5 ms after each node" at FRACTIONAL node times: a sample point placed a little before / exactly at / a little after
    // node + 5 ms decides for exactly the nodes the statement says (the model's durations are whole milliseconds)
    for trial in 0..(if thorough { 4000 } else { 600 }) {
        let bl = *rng.pick(&["350", "400", "500", "333.333333333333", "275.5"]);
        let sm = *rng.pick(&["1", "1.4", "0.8", "2.25"]);
        let len = *rng.pick(&[15.0f64, 13.125, 77.7, 120.5, 33.3, 100.0]);
        let spans = 1 + rng.below(4);
        let start = *rng.pick(&[1000.0f64, 1000.5, 12345.25, 250.0]);
        let head = format!("osu file format v14\n\n[Difficulty]\nSliderMultiplier:{sm}\n\n[TimingPoints]\n0,{bl},4,1,0,100,1,0\n");
        let obj = format!("\n[HitObjects]\n100,100,{start},2,0,L|{}:100,{spans},{len}\n", 100.0 + len + 50.0);
        let Ok(Ok(m0)) = guarded("node boundary base", || rosu_map::from_str::<Beatmap>(&format!("{head}{obj}"))) else {
            s.mismatch("io-error", json!({"what": "node boundary base"}));
            continue;
        };
        let dur = match m0.hit_objects.first().map(|h| h.clone()) {
            Some(mut h) => match &mut h.kind {
                HitObjectKind::Slider(sl) => sl.duration(),
                _ => continue,
            },
            None => continue,
        };
        let node = rng.below(spans + 1);
        let delta = *rng.pick(&[-1.0f64, -0.5, -0.25, -0.001, 0.0, 0.001, 0.25, 0.5, 1.0]);
        let t_point = start + node as f64 * dur / spans as f64 + 5.0 + delta;
        let text = format!("{head}{t_point},-100,4,2,0,50,0,0\n{obj}");
        let r = guarded(&format!("node boundary {text:?}"), || rosu_map::from_str::<Beatmap>(&text));
        s.checks += 1;
        match r {
            Err(p) => s.mismatch("panic", json!({"text": text, "panic": p})),
            Ok(Err(e)) => s.mismatch("io-error", json!({"text": text, "err": e.to_string()})),
            Ok(Ok(m)) => {
                s.cases += 1;
                let Some(HitObjectKind::Slider(sl)) = m.hit_objects.first().map(|h| &h.kind) else { continue };
                let mut bad: Vec<String> = vec![];
                for (j, ns) in sl.node_samples.iter().enumerate() {
                    let look = start + j as f64 * dur / spans as f64 + 5.0;
                    let want = if t_point <= look { (2, 50) } else { (1, 100) };
                    if let Some(x) = ns.first() {
                        if (x.bank as i32, x.volume) != want {
                            bad.push(format!("node {j} (looked up at {look}) has bank {} volume {}, the point at {t_point} {} active there", x.bank as i32, x.volume,
                                             if want.0 == 2 { "is" } else { "is not" }));
                        }
                    }
                }
                let end_look = start + dur + 5.0;
                if let Some(x) = m.hit_objects[0].samples.first() {
                    let want = if t_point <= end_look { (2, 50) } else { (1, 100) };
                    if (x.bank as i32, x.volume) != want {
                        bad.push(format!("the slider's own sample (looked up at {end_look}) has bank {} volume {}", x.bank as i32, x.volume));
                    }
                }
                if !bad.is_empty() {
                    s.mismatch("node-sample-point-boundary", json!({"text": text, "trial": trial, "problems": bad}));
                }
            }
        }
    }
    s.sample(json!({"files": files.len(), "shifts": [-1000000, -777, -1, 1, 3, 1000, 1000000]}));
}
