//! Records (C11, and the key/value part of C06): spelling of abstract records,
//! projection of the decoded section structs, replay.
use crate::util::*;
use rosu_map::section::colors::Colors;
use rosu_map::section::difficulty::Difficulty;
use rosu_map::section::editor::Editor;
use rosu_map::section::events::Events;
use rosu_map::section::general::General;
use rosu_map::section::metadata::Metadata;
use rosu_map::{Beatmap, DecodeBeatmap, DecodeState};
use serde_json::{json, Value};

fn hundredths(h: i64) -> String {
    let neg = h < 0;
    let a = h.abs();
    let s = if a % 100 == 0 {
        // a float class must not be readable as an integer
        format!("{}.0", a / 100)
    } else if a % 10 == 0 {
        format!("{}.{}", a / 100, (a % 100) / 10)
    } else {
        format!("{}.{:02}", a / 100, a % 100)
    };
    if neg {
        format!("-{s}")
    } else {
        s
    }
}

pub fn spell_value(rec: &Value, rng: &mut Rng) -> String {
    let vi = geti(rec, "vi");
    // the value is the TRIMMED text: every Unicode white space counts (ideographic space, no-break space, vertical tab ...)
    let pad = |s: String, rng: &mut Rng| match rng.below(6) {
        0 => format!("  {s} "),
        1 => format!("{}{s}", rng.pick(&["\u{3000}", "\u{a0}", "\u{b}", "\t", "\u{2003} "])),
        _ => s,
    };
    match gets(rec, "vc") {
        "int" => pad(format!("{vi}"), rng),
        "float" => pad(hundredths(vi), rng),
        "max" => "2147483647".into(),
        "min" => "-2147483647".into(),
        "over" => "2147483648".into(),
        "under" => "-2147483648".into(),
        "big" => rng.pick(&["1e10", "99999999999"]).to_string(),
        "nan" => rng.pick(&["NaN", "nan"]).to_string(),
        "inf" => rng.pick(&["inf", "-inf", "infinity"]).to_string(),
        "empty" => rng.pick(&["", "   "]).to_string(),
        "garbage" => rng.pick(&["abc", "1x", "--1"]).to_string(),
        "cmt" => format!("{vi} // c"),
        "colon" => format!("{vi}:7"),
        "str" => pad(gets(rec, "vs").to_string(), rng),
        "bm" => ["1000,2000,3000", "5", "", "1, 2", "x,7,-3"][vi as usize - 1].to_string(),
        c => panic!("class {c}"),
    }
}

pub fn spell_kv(rec: &Value, rng: &mut Rng) -> String {
    let k = gets(rec, "k");
    if k == "#nocolon" {
        return "nocolonline".into();
    }
    let sep = *rng.pick(&[":", ": ", " : ", ":  ", "\u{a0}:\u{3000}", "\t:\t"]);
    format!("{k}{sep}{}", spell_value(rec, rng))
}

fn spell_event(e: &Value, rng: &mut Rng) -> String {
    let n = geti(e, "n") as usize;
    // a doubled backslash in an event file name is one separator
    let f0 = gets(e, "f");
    let f1 = if f0.contains('\\') && rng.chance(1, 2) { f0.replace('\\', "\\\\") } else { f0.to_string() };
    let f = f1.as_str();
    let quoted = if rng.chance(2, 3) { format!("\"{f}\"") } else { f.to_string() };
    let num = |c: &str, v: i64, rng: &mut Rng| match c {
        "num" => {
            if rng.chance(1, 3) {
                format!("{v}.0")
            } else {
                format!("{v}")
            }
        }
        _ => rng.pick(&["x", "", "NaN", "3e9"]).to_string(),
    };
    let mut fields: Vec<String> = match gets(e, "t") {
        "bg" => vec![rng.pick(&["0", "Background"]).to_string(), "0".into(), quoted, "0".into(), "0".into()],
        "video" => vec![rng.pick(&["1", "Video"]).to_string(), "0".into(), quoted, "0".into(), "0".into()],
        "sprite" => vec![rng.pick(&["4", "Sprite"]).to_string(), "Background".into(), "Centre".into(), quoted, "320".into(), "240".into()],
        "break" => vec![rng.pick(&["2", "Break"]).to_string(), num(gets(e, "ac"), geti(e, "a"), rng), num(gets(e, "bc"), geti(e, "b"), rng)],
        "other" => vec![rng.pick(&["3", "Colour", "5", "Sample", "6", "Animation"]).to_string(), "100".into(), "163".into(), "162".into(), "255".into()],
        _ => vec![rng.pick(&["7", "Foo", "", " 0"]).to_string(), "0".into(), "x".into(), "y".into()],
    };
    while fields.len() < n {
        fields.push("0".into());
    }
    fields.truncate(n);
    fields.join(",")
}

fn spell_color(c: &Value, rng: &mut Rng) -> String {
    let k = gets(c, "k");
    if k == "#nocolon" {
        return "nocolonline".into();
    }
    let n = geti(c, "n") as usize;
    let mut comps: Vec<String> = vec![format!("{}", geti(c, "r")), format!("{}", geti(c, "g")), format!("{}", geti(c, "b")), "128".into(), "9".into()];
    if gets(c, "cc") == "bad" {
        comps[rng.below(3)] = rng.pick(&["256", "-1", "x", "", "1.0"]).to_string();
    }
    comps.truncate(n);
    let sep = *rng.pick(&[",", ", ", " , "]);
    format!("{k}{}{}", rng.pick(&[" : ", ":", ": "]), comps.join(sep))
}

pub fn spell_record(sec: &str, rec: &Value, rng: &mut Rng) -> String {
    match sec {
        "Events" => spell_event(rec, rng),
        "Colours" => spell_color(rec, rng),
        _ => spell_kv(rec, rng),
    }
}

fn sc(x: f64) -> Value {
    let y = x * 100.0;
    if y.is_finite() && (y - y.round()).abs() < 1e-3 {
        json!(y.round() as i64)
    } else {
        num(x)
    }
}

pub fn proj_general(g: &General) -> Value {
    json!({"AudioFilename": g.audio_file, "AudioLeadIn": num(g.audio_lead_in), "PreviewTime": g.preview_time,
        "SampleSet": g.default_sample_bank as i32, "SampleVolume": g.default_sample_volume, "StackLeniency": sc(g.stack_leniency as f64),
        "Mode": g.mode as i32, "LetterboxInBreaks": g.letterbox_in_breaks as i32, "SpecialStyle": g.special_style as i32,
        "WidescreenStoryboard": g.widescreen_storyboard as i32, "EpilepsyWarning": g.epilepsy_warning as i32,
        "SamplesMatchPlaybackRate": g.samples_match_playback_rate as i32, "Countdown": g.countdown as i32,
        "CountdownOffset": g.countdown_offset})
}
pub fn proj_editor(e: &Editor) -> Value {
    json!({"Bookmarks": e.bookmarks, "DistanceSpacing": sc(e.distance_spacing), "BeatDivisor": e.beat_divisor, "GridSize": e.grid_size, "TimelineZoom": sc(e.timeline_zoom)})
}
pub fn proj_metadata(m: &Metadata) -> Value {
    json!({"Title": m.title, "TitleUnicode": m.title_unicode, "Artist": m.artist, "ArtistUnicode": m.artist_unicode,
        "Creator": m.creator, "Version": m.version, "Source": m.source, "Tags": m.tags, "BeatmapID": m.beatmap_id, "BeatmapSetID": m.beatmap_set_id})
}
pub fn proj_events(e: &Events) -> Value {
    json!({"bg": e.background_file, "breaks": e.breaks.iter().map(|b| json!([num(b.start_time), num(b.end_time)])).collect::<Vec<_>>()})
}
pub fn proj_colors(c: &Colors) -> Value {
    json!({"combo": c.custom_combo_colors.iter().map(|x| json!([x.red(), x.green(), x.blue()])).collect::<Vec<_>>(),
           "named": c.custom_colors.iter().map(|x| json!([x.name, x.color.red(), x.color.green(), x.color.blue()])).collect::<Vec<_>>()})
}

/// "#int" placeholders in predicted strings stand for the record's integer payload
fn resolve_strings(st: &Value, alpha: &[Value], hist: &[Value]) -> Value {
    let mut out = st.clone();
    if let Value::Object(m) = &mut out {
        for (k, v) in m.iter_mut() {
            if let Value::String(sv) = v {
                if sv.contains("#int") {
                    // the last record naming this key supplied the value
                    if let Some(rec) = hist.iter().rev().map(|i| &alpha[i.as_u64().unwrap() as usize - 1]).find(|r| r.get("k").and_then(|x| x.as_str()) == Some(k)) {
                        *sv = sv.replace("#int", &geti(rec, "vi").to_string());
                    }
                }
            }
        }
    }
    out
}

pub fn replay(args: &Args, s: &mut Summary) {
    let spellings = args.opt_usize("spellings", 2);
    let mut rng = Rng::new(args.seed);
    let mut alpha: Vec<Value> = vec![];
    args.for_each_case(|_, c| {
        if let Some(a) = c.get("alpha") {
            alpha = a.as_array().unwrap().clone();
            return;
        }
        s.cases += 1;
        let sec = gets(&c, "sec").to_string();
        let hist = geta(&c, "h");
        let recs: Vec<&Value> = hist.iter().map(|k| &alpha[k.as_u64().unwrap() as usize - 1]).collect();
        let acc: Vec<bool> = geta(&c, "acc").iter().map(|b| b.as_bool().unwrap()).collect();
        let want = resolve_strings(&c["st"], &alpha, hist);
        // the same history under the code's reading of the two limits (Records!ParseFW, ConvBmW); the sentinels
        // +-(2^31-1) in a single-precision field stand for +-2^31 (in hundredths)
        let mut want_w = resolve_strings(c.get("stw").unwrap_or(&c["st"]), &alpha, hist);
        if let Value::Object(m) = &mut want_w {
            for k in ["StackLeniency", "HPDrainRate", "CircleSize", "OverallDifficulty", "ApproachRate"] {
                match m.get(k).and_then(|v| v.as_i64()) {
                    Some(2147483647) => { m.insert(k.into(), json!(214748364800i64)); }
                    Some(-2147483647) => { m.insert(k.into(), json!(-214748364800i64)); }
                    _ => {}
                }
            }
            m.remove("hasAR");
        }
        let acc_w: Vec<bool> = c.get("accw").and_then(|a| a.as_array()).map(|a| a.iter().map(|b| b.as_bool().unwrap()).collect()).unwrap_or_default();
        // which of the two listed findings a history can show
        let has_f32_limit = recs.iter().any(|r| matches!(r.get("vc").and_then(|x| x.as_str()), Some("over") | Some("under"))
            && ["StackLeniency", "HPDrainRate", "CircleSize", "OverallDifficulty", "ApproachRate"].contains(&r.get("k").and_then(|x| x.as_str()).unwrap_or("")));
        let has_bm_under = recs.iter().any(|r| r.get("vc").and_then(|x| x.as_str()) == Some("under") && r.get("k").and_then(|x| x.as_str()) == Some("Bookmarks"));
        if !hist.is_empty() {
            s.nontrivial_key(&format!("{sec}|{}", c["h"]));
        }
        for sp in 0..spellings {
            let lines: Vec<String> = recs.iter().map(|r| spell_record(&sec, r, &mut rng)).collect();
            let mut text = format!("osu file format v14\n\n[{sec}]\n");
            for l in &lines {
                text.push_str(l);
                text.push('\n');
            }
            if args.opt("prop") == Some("C07") {
                let d = guarded("c07", || crate::framing::c07_diffs(text.as_bytes()));
                s.checks += 8;
                match d {
                    Err(p) => s.mismatch("panic", json!({"text": text, "panic": p})),
                    Ok(d) if !d.is_empty() => s.mismatch(&format!("c07:{}", d[0].split('.').next().unwrap_or("")), json!({"text": text, "diffs": d})),
                    Ok(_) => {}
                }
                continue;
            }
            if args.opt("prop") == Some("C06") {
                // the property itself: the file decodes as the file without the lines its parser rejects
                let r = guarded("c06 records", || {
                    let mut st = <Beatmap as DecodeBeatmap>::State::create(14);
                    let verdicts: Vec<bool> = lines.iter().map(|l| match sec.as_str() {
                        "General" => Beatmap::parse_general(&mut st, l).is_ok(),
                        "Editor" => Beatmap::parse_editor(&mut st, l).is_ok(),
                        "Metadata" => Beatmap::parse_metadata(&mut st, l).is_ok(),
                        "Difficulty" => Beatmap::parse_difficulty(&mut st, l).is_ok(),
                        "Events" => Beatmap::parse_events(&mut st, l).is_ok(),
                        _ => Beatmap::parse_colors(&mut st, l).is_ok(),
                    }).collect();
                    let mut kept = format!("osu file format v14\n\n[{sec}]\n");
                    for (l, ok) in lines.iter().zip(verdicts.iter()) {
                        if *ok {
                            kept.push_str(l);
                            kept.push('\n');
                        }
                    }
                    let a = rosu_map::from_str::<Beatmap>(&text).unwrap();
                    let b = rosu_map::from_str::<Beatmap>(&kept).unwrap();
                    (verdicts, crate::framing::beatmap_diff(&a, &b))
                });
                s.checks += 1;
                match r {
                    Err(p) => s.mismatch("panic", json!({"text": text, "panic": p})),
                    Ok((v, Some(d))) => s.mismatch(&format!("rejected-record-has-effect:{sec}"), json!({"text": text, "verdicts": v, "diff": d})),
                    Ok(_) => {}
                }
                continue;
            }
            let label = format!("records replay {text:?}");
            let r = guarded(&label, || {
                // per-line verdicts through the public parse function of the section's own decoder
                macro_rules! verdicts { ($T:ty, $f:ident) => {{
                    let mut st = <$T as DecodeBeatmap>::State::create(14);
                    lines.iter().map(|l| <$T>::$f(&mut st, l).is_ok()).collect::<Vec<bool>>()
                }} }
                let (got, verdicts, via_beatmap): (Value, Vec<bool>, Value) = match sec.as_str() {
                    "General" => {
                        let d = rosu_map::from_str::<General>(&text).unwrap();
                        let b = rosu_map::from_str::<Beatmap>(&text).unwrap();
                        let gb = General { audio_file: b.audio_file, audio_lead_in: b.audio_lead_in, preview_time: b.preview_time,
                            default_sample_bank: b.default_sample_bank, default_sample_volume: b.default_sample_volume,
                            stack_leniency: b.stack_leniency, mode: b.mode, letterbox_in_breaks: b.letterbox_in_breaks,
                            special_style: b.special_style, widescreen_storyboard: b.widescreen_storyboard,
                            epilepsy_warning: b.epilepsy_warning, samples_match_playback_rate: b.samples_match_playback_rate,
                            countdown: b.countdown, countdown_offset: b.countdown_offset };
                        (proj_general(&d), verdicts!(General, parse_general), proj_general(&gb))
                    }
                    "Editor" => {
                        let d = rosu_map::from_str::<Editor>(&text).unwrap();
                        let b = rosu_map::from_str::<Beatmap>(&text).unwrap();
                        let eb = Editor { bookmarks: b.bookmarks, distance_spacing: b.distance_spacing, beat_divisor: b.beat_divisor,
                            grid_size: b.grid_size, timeline_zoom: b.timeline_zoom };
                        (proj_editor(&d), verdicts!(Editor, parse_editor), proj_editor(&eb))
                    }
                    "Metadata" => {
                        let d = rosu_map::from_str::<Metadata>(&text).unwrap();
                        let b = rosu_map::from_str::<Beatmap>(&text).unwrap();
                        let mb = Metadata { title: b.title, title_unicode: b.title_unicode, artist: b.artist, artist_unicode: b.artist_unicode,
                            creator: b.creator, version: b.version, source: b.source, tags: b.tags, beatmap_id: b.beatmap_id,
                            beatmap_set_id: b.beatmap_set_id };
                        (proj_metadata(&d), verdicts!(Metadata, parse_metadata), proj_metadata(&mb))
                    }
                    "Difficulty" => {
                        let d = rosu_map::from_str::<Difficulty>(&text).unwrap();
                        let b = rosu_map::from_str::<Beatmap>(&text).unwrap();
                        let pj = |hp: f32, cs: f32, od: f32, ar: f32, sm: f64, tr: f64| json!({"HPDrainRate": sc(hp as f64), "CircleSize": sc(cs as f64),
                            "OverallDifficulty": sc(od as f64), "ApproachRate": sc(ar as f64), "SliderMultiplier": sc(sm), "SliderTickRate": sc(tr)});
                        (pj(d.hp_drain_rate, d.circle_size, d.overall_difficulty, d.approach_rate, d.slider_multiplier, d.slider_tick_rate),
                         verdicts!(Difficulty, parse_difficulty),
                         pj(b.hp_drain_rate, b.circle_size, b.overall_difficulty, b.approach_rate, b.slider_multiplier, b.slider_tick_rate))
                    }
                    "Events" => {
                        let d = rosu_map::from_str::<Events>(&text).unwrap();
                        let b = rosu_map::from_str::<Beatmap>(&text).unwrap();
                        (proj_events(&d), verdicts!(Events, parse_events), proj_events(&Events { background_file: b.background_file, breaks: b.breaks }))
                    }
                    _ => {
                        let d = rosu_map::from_str::<Colors>(&text).unwrap();
                        let b = rosu_map::from_str::<Beatmap>(&text).unwrap();
                        (proj_colors(&d), verdicts!(Colors, parse_colors),
                         proj_colors(&Colors { custom_combo_colors: b.custom_combo_colors, custom_colors: b.custom_colors }))
                    }
                };
                (got, verdicts, via_beatmap)
            });
            s.checks += 3;
            match r {
                Err(p) => s.mismatch("panic", json!({"text": text, "panic": p})),
                Ok((got, verdicts, via_beatmap)) => {
                    // the spec's state may carry bookkeeping the struct does not expose
                    let mut w = want.clone();
                    if let Value::Object(m) = &mut w {
                        m.remove("hasAR");
                    }
                    if (got != w || verdicts != acc) && (has_f32_limit || has_bm_under) && got == want_w && via_beatmap == want_w && verdicts == acc_w {
                        // exactly the code's reading of the limit: one of the two listed findings, nothing else
                        s.mismatch(if has_f32_limit { "limit:single-precision-field-accepts-2^31" } else { "limit:bookmark-minus-2^31-kept" },
                                   json!({"text": text, "got": got, "statement": w}));
                    } else if got != w {
                        // name the first differing field
                        let field = w.as_object().and_then(|m| m.iter().find(|(k, v)| got.get(*k) != Some(*v)).map(|(k, _)| k.clone())).unwrap_or_default();
                        s.mismatch(&format!("{sec}:{field}"), json!({"text": text, "got": got, "want": w}));
                    } else if via_beatmap != w {
                        s.mismatch(&format!("{sec}:via-Beatmap"), json!({"text": text, "got": via_beatmap, "want": w}));
                    } else if verdicts != acc && sec != "General" && sec != "Editor" && sec != "Metadata" && sec != "Difficulty" {
                        s.mismatch(&format!("{sec}:verdict"), json!({"text": text, "got": verdicts, "want": acc}));
                    } else if verdicts != acc {
                        s.mismatch(&format!("{sec}:verdict"), json!({"text": text, "got": verdicts, "want": acc}));
                    }
                }
            }
            if sp == 0 {
                s.sample(json!({"text": text, "state": want}));
            }
        }
    });
}

// ---------------------------------------------------------------------------
// impl -> spec: random long record sequences, one event per line (one trace per section)
fn keys_of(sec: &str) -> Vec<(&'static str, &'static str)> {
    // (key, type)
    match sec {
        "General" => vec![("AudioFilename", "path"), ("AudioLeadIn", "i32"), ("PreviewTime", "i32"), ("SampleSet", "bank"), ("SampleVolume", "i32"),
                          ("StackLeniency", "f"), ("Mode", "mode"), ("LetterboxInBreaks", "flag"), ("SpecialStyle", "flag"),
                          ("WidescreenStoryboard", "flag"), ("EpilepsyWarning", "flag"), ("SamplesMatchPlaybackRate", "flag"),
                          ("Countdown", "countdown"), ("CountdownOffset", "i32")],
        "Editor" => vec![("Bookmarks", "bookmarks"), ("DistanceSpacing", "f"), ("BeatDivisor", "i32"), ("GridSize", "i32"), ("TimelineZoom", "f")],
        "Metadata" => vec![("Title", "str"), ("TitleUnicode", "str"), ("Artist", "str"), ("ArtistUnicode", "str"), ("Creator", "str"),
                           ("Version", "str"), ("Source", "str"), ("Tags", "str"), ("BeatmapID", "i32"), ("BeatmapSetID", "i32")],
        _ => vec![("HPDrainRate", "f"), ("CircleSize", "f"), ("OverallDifficulty", "od"), ("ApproachRate", "ar"), ("SliderMultiplier", "sm"),
                  ("SliderTickRate", "tr")],
    }
}

fn random_record(sec: &str, rng: &mut Rng) -> Value {
    match sec {
        "Events" => {
            let t = *rng.pick(&["bg", "video", "sprite", "break", "break", "other", "bad"]);
            json!({"t": t, "f": *rng.pick(&["a.jpg", "b.png", "v.mp4", "V.AVI", "ab", "p\\q.jpg", ""]), "n": *rng.pick(&[2, 3, 3, 4, 5, 5]),
                   "ac": if rng.chance(1, 8) { "bad" } else { "num" }, "a": *rng.pick(&[100, 300, -50]),
                   "bc": if rng.chance(1, 8) { "bad" } else { "num" }, "b": *rng.pick(&[200, 50, 900])})
        }
        "Colours" => {
            let k = *rng.pick(&["Combo1", "Combo2", "Combo", "SliderBorder", "X", "SliderTrackOverride"]);
            json!({"k": k, "combo": k.starts_with("Combo"), "r": *rng.pick(&[0, 255, 17]), "g": *rng.pick(&[2, 200]), "b": *rng.pick(&[3, 99]),
                   "n": *rng.pick(&[2, 3, 3, 3, 4, 4, 5]), "cc": if rng.chance(1, 8) { "bad" } else { "ok" }})
        }
        _ => {
            if rng.chance(1, 12) {
                return json!({"k": *rng.pick(&["Foo", "", "mode", "#nocolon"]), "vc": "int", "vi": 1, "vs": ""});
            }
            let keys = keys_of(sec);
            let (k, ty) = *rng.pick(&keys);
            let (vc, vi, vs): (&str, i64, &str) = if ty == "str" || ty == "path" {
                if rng.chance(1, 6) { ("empty", 0, "") } else { ("str", 0, *rng.pick(&["a", "a b", "x:y", "p\\q", "Soft", "[General]", "osu file format v9"])) }
            } else if ty == "bookmarks" && rng.chance(2, 3) {
                ("bm", 1 + rng.below(5) as i64, "")
            } else if (ty == "bank" || ty == "countdown") && rng.chance(1, 3) {
                ("str", 0, *rng.pick(&["Soft", "Half speed", "Normal", "Drum", "None", "soft"]))
            } else {
                match rng.below(16) {
                    0 => ("nan", 0, ""),
                    1 => ("inf", 0, ""),
                    2 => ("empty", 0, ""),
                    3 => ("garbage", 0, ""),
                    4 => ("big", 0, ""),
                    5 => ("cmt", 2, ""),
                    6 => ("colon", 2, ""),
                    7 | 8 => ("float", *rng.pick(&[25, 950, 30, 1000, 45, 360, 395]), ""),
                    // (the entry -2^31 of a bookmark list is a listed finding of the replay; the recorded traces stay clear of it)
                    9 if ty == "bookmarks" => (*rng.pick(&["max", "min", "over"]), 0, ""),
                    9 if matches!(ty, "i32" | "flag" | "mode") => (*rng.pick(&["max", "min", "over", "under"]), 0, ""),
                    _ => ("int", *rng.pick(&[0, 1, 2, 3, 5, -1, 8, 9]), ""),
                }
            };
            json!({"k": k, "vc": vc, "vi": vi, "vs": vs})
        }
    }
}

pub fn record(args: &Args, s: &mut Summary) {
    let trace = args.opt("trace").expect("--trace");
    let sec = args.opt("section").expect("--section").to_string();
    let runs = args.opt_usize("runs", 10);
    let nlines = args.opt_usize("lines", 60);
    let mut rng = Rng::new(args.seed);
    let mut out: Vec<Value> = vec![];
    for run in 0..runs {
        out.push(json!({"ev": "Reset", "run": run}));
        let mut text = format!("osu file format v14\n\n[{sec}]\n");
        macro_rules! go { ($T:ty, $f:ident, $proj:expr) => {{
            let mut st = <$T as DecodeBeatmap>::State::create(14);
            for _ in 0..nlines {
                let rec = random_record(&sec, &mut rng);
                let line = spell_record(&sec, &rec, &mut rng);
                text.push_str(&line);
                text.push('\n');
                let r = guarded(&format!("records record {line:?}"), || {
                    let ok = <$T>::$f(&mut st, &line).is_ok();
                    let d = rosu_map::from_str::<$T>(&text).unwrap();
                    (ok, $proj(&d))
                });
                s.checks += 1;
                match r {
                    Err(p) => { s.mismatch("panic", json!({"line": line, "panic": p})); break; }
                    Ok((ok, stv)) => out.push(json!({"ev": "Rec", "r": rec, "ok": ok, "st": stv, "line": line})),
                }
            }
        }} }
        match sec.as_str() {
            "General" => go!(General, parse_general, proj_general),
            "Editor" => go!(Editor, parse_editor, proj_editor),
            "Metadata" => go!(Metadata, parse_metadata, proj_metadata),
            "Difficulty" => go!(Difficulty, parse_difficulty, |d: &Difficulty| json!({"HPDrainRate": sc(d.hp_drain_rate as f64), "CircleSize": sc(d.circle_size as f64),
                "OverallDifficulty": sc(d.overall_difficulty as f64), "ApproachRate": sc(d.approach_rate as f64),
                "SliderMultiplier": sc(d.slider_multiplier), "SliderTickRate": sc(d.slider_tick_rate)})),
            "Events" => go!(Events, parse_events, proj_events),
            _ => go!(Colors, parse_colors, proj_colors),
        }
        s.cases += 1;
        s.nontrivial_key(&format!("{sec}-{run}-{}", out.len()));
    }
    s.sample(json!({"section": sec, "first_events": out.iter().skip(1).take(3).cloned().collect::<Vec<_>>()}));
    s.extra.insert("events".into(), json!(out.len()));
    write_ndjson(trace, &out);
}
