//! PathCodec (C02 / C04 for slider paths): the spec predicts the encoder's output
//! tokens and what a second decode makes of them.
use crate::hitobj::{proj_cps, spell_token};
use crate::roundtrip::{c02_diffs, c04_counts, c04_problems, roundtrip};
use crate::util::*;
use rosu_map::section::hit_objects::HitObjectKind;
use rosu_map::Beatmap;
use serde_json::{json, Value};

fn tok_text(t: &str) -> String {
    match t {
        "O" => "10:10".into(),
        "A" => "50:30".into(),
        "Bc" => "90:50".into(),
        "Cn" => "100:0".into(),
        "G1" => "8203:4107".into(),
        "G2" => "16396:8204".into(),
        other => other.to_string(),
    }
}

/// the text the encoder is predicted to write for the path field (including the final ',')
fn expected_path_text(out: &[Value]) -> String {
    let mut s = String::new();
    for (i, t) in out.iter().enumerate() {
        let t = t.as_str().unwrap();
        s.push_str(&tok_text(t));
        if t.ends_with(',') {
            continue; // the letter was followed by ',' instead of '|'
        }
        s.push(if i + 1 == out.len() { ',' } else { '|' });
    }
    s
}

fn first_slider_cps(m: &Beatmap) -> Option<Value> {
    m.hit_objects.first().and_then(|h| match &h.kind {
        HitObjectKind::Slider(s) => Some(proj_cps(s.path.control_points(), s.pos.x, s.pos.y)),
        _ => None,
    })
}

pub fn path_replay(args: &Args, s: &mut Summary) {
    let prop = args.opt("prop").unwrap_or("C02").to_string();
    let mut rng = Rng::new(args.seed);
    args.for_each_case(|_, c| {
        s.cases += 1;
        let toks: Vec<String> = geta(&c, "s").iter().map(|t| spell_token(t.as_str().unwrap(), &mut rng)).collect();
        let gram = getb(&c, "gram");
        let shape = gets(&c, "shape").to_string();
        if prop == "C02" && !gram {
            return; // the C02 generator only writes grammatical path strings
        }
        s.nontrivial_key(&c["s"].to_string());
        let text = format!("osu file format v14\n\n[HitObjects]\n10,10,1000,2,0,{},1,100\n", toks.join("|"));
        let label = format!("path codec {text:?}");
        let r = guarded(&label, || roundtrip(&text));
        s.checks += 1;
        let (m1, enc, m2) = match r {
            Err(p) => {
                s.mismatch("panic", json!({"text": text, "panic": p}));
                return;
            }
            Ok(Err(e)) => {
                s.mismatch("io-error", json!({"text": text, "err": e}));
                return;
            }
            Ok(Ok(x)) => x,
        };
        // the first decode is C14's business, but the rest of the comparison depends on it
        if first_slider_cps(&m1).as_ref() != Some(&c["cps"]) {
            s.mismatch("harness:first-decode-differs-from-PathString", json!({"text": text, "got": first_slider_cps(&m1), "want": c["cps"]}));
            return;
        }
        // (1) the encoder writes exactly the predicted tokens
        let want_prefix = format!("10,10,1000,6,0,{}", expected_path_text(geta(&c, "out")));
        let obj_line = enc.split('\n').skip_while(|l| *l != "[HitObjects]").nth(1).unwrap_or("");
        s.checks += 1;
        // (C04 is about acceptance of whatever the encoder writes; the exact tokens are C02's business)
        if prop == "C02" && !obj_line.starts_with(&want_prefix) {
            s.mismatch("encoder-output-differs-from-PathString.EncPath", json!({"text": text, "encoded": obj_line, "want_prefix": want_prefix}));
            return;
        }
        if prop == "C04" {
            // (2) every line the encoder wrote is accepted and nothing is dropped
            let mut probs = c04_problems(&enc);
            probs.extend(c04_counts(&m1, &m2));
            s.checks += 1;
            if !probs.is_empty() {
                let sig = if obj_line.contains(",L,") || obj_line.contains("|L,") || obj_line.contains("|B,") || obj_line.contains("|P,") || obj_line.contains("|C,") {
                    "rejects-own-output:typed-last-point"
                } else {
                    "rejects-own-output"
                };
                s.mismatch(sig, json!({"text": text, "encoded": obj_line, "problems": probs}));
            }
            if getb(&c, "ok") != (m2.hit_objects.len() == 1) {
                s.mismatch("second-decode-verdict-differs-from-PathString", json!({"text": text, "encoded": obj_line, "model_ok": c["ok"]}));
            }
        } else {
            // (3) the second decode gives what the spec predicts, and the map is the same outside the listed shapes
            let got2 = first_slider_cps(&m2);
            s.checks += 2;
            if getb(&c, "ok") && got2.as_ref() != Some(&c["re"]) {
                s.mismatch("second-decode-differs-from-PathString", json!({"text": text, "encoded": obj_line, "got": got2, "want": c["re"]}));
                return;
            }
            let d = c02_diffs(&m1, &m2);
            if !d.is_empty() && shape == "catmull-join" {
                // consecutive explicit Catmull segments: excluded by the statement itself
            } else if !d.is_empty() {
                s.mismatch(&format!("path-roundtrip:{shape}"), json!({"text": text, "encoded": obj_line, "diffs": d, "cps": c["cps"]}));
            } else if !getb(&c, "same") {
                s.mismatch("harness:model-predicts-a-difference-the-code-does-not-show", json!({"text": text, "encoded": obj_line}));
            }
        }
        s.sample(json!({"path": toks.join("|"), "encoded": obj_line, "same": c["same"], "shape": shape}));
    });
}

// ---------------------------------------------------------------------------
// TimingEncode (C02 / C04 for [TimingPoints])

fn parse_encoded_timing_line(l: &str) -> Option<Value> {
    use crate::cp::TimeMap;
    let f: Vec<&str> = l.split(',').collect();
    if f.len() != 8 {
        return None;
    }
    let t: f64 = f[0].parse().ok()?;
    let bl: f64 = f[1].parse().ok()?;
    Some(json!({"tau": crate::timing::Tau.abs(t), "bl": bl, "sig": f[2].parse::<i64>().ok()?, "bank": f[3].parse::<i64>().ok()?,
                "custom": f[4].parse::<i64>().ok()?, "vol": f[5].parse::<i64>().ok()?, "unin": f[6] == "1", "flags": f[7].parse::<i64>().ok()?}))
}

pub fn timing_replay(args: &Args, s: &mut Summary) {
    let prop = args.opt("prop").unwrap_or("C02").to_string();
    let mut rng = Rng::new(args.seed);
    let mut alpha: Vec<Value> = vec![];
    let tm = crate::timing::Tau;
    args.for_each_case(|_, c| {
        if let Some(a) = c.get("alpha") {
            alpha = a.as_array().unwrap().clone();
            return;
        }
        let chrono = getb(&c, "chrono");
        let subeps = getb(&c, "subeps");
        if prop == "C02" && (!chrono || subeps) {
            // outside the C02 domain (non-chronological) / the listed sub-EPSILON shape is reported separately below
            if !chrono {
                return;
            }
        }
        s.cases += 1;
        let g = &c["g"];
        let lines: Vec<&Value> = geta(&c, "h").iter().map(|k| &alpha[k.as_u64().unwrap() as usize - 1]).collect();
        let mut text = crate::timing::header(g, &mut rng);
        for l in &lines {
            text.push_str(&crate::timing::spell_line(l, &tm, &mut rng));
            text.push('\n');
        }
        if !lines.is_empty() {
            s.nontrivial_key(&format!("{}|{}", g, c["h"]));
        }
        let r = guarded(&format!("timing codec {text:?}"), || roundtrip(&text));
        s.checks += 1;
        let (m1, enc, m2) = match r {
            Err(p) => {
                s.mismatch("panic", json!({"text": text, "panic": p}));
                return;
            }
            Ok(Err(e)) => {
                s.mismatch("io-error", json!({"text": text, "err": e}));
                return;
            }
            Ok(Ok(x)) => x,
        };
        // (1) the encoder's [TimingPoints] block equals the model's prediction, line by line
        let block: Vec<&str> = enc.split('\n').skip_while(|l| *l != "[TimingPoints]").skip(1).take_while(|l| !l.is_empty()).collect();
        let want = geta(&c, "enc");
        let mut ok = block.len() == want.len();
        if ok {
            for (l, w) in block.iter().zip(want.iter()) {
                match parse_encoded_timing_line(l) {
                    None => ok = false,
                    Some(got) => {
                        let same = got["tau"] == w["tau"] && got["unin"] == w["unin"] && got["sig"] == w["sig"] && got["bank"] == w["bank"]
                            && got["custom"] == w["custom"] && got["vol"] == w["vol"] && got["flags"] == w["flags"]
                            && (got["bl"].as_f64().unwrap() - geti(w, "bl") as f64).abs() <= 1e-9 * (geti(w, "bl") as f64).abs().max(1.0);
                        if !same {
                            ok = false;
                        }
                    }
                }
            }
        }
        s.checks += 1;
        if !ok && prop == "C02" {
            let scrolling = matches!(gets(g, "mode"), "taiko" | "mania");
            s.mismatch(if scrolling { "timing-encoder-differs:scrolling-mode" } else { "timing-encoder-differs" },
                       json!({"text": text, "encoded": block, "want": want.iter().map(|w| json!([w["tau"], w["bl"], w["sig"], w["bank"], w["custom"], w["vol"], w["unin"], w["flags"]])).collect::<Vec<_>>()}));
            return;
        }
        if prop == "C04" {
            let mut probs = c04_problems(&enc);
            probs.extend(c04_counts(&m1, &m2));
            if !probs.is_empty() {
                // two timing points at different times closer than f64::EPSILON are written as two lines, which the decoder
                // merges into one group: the known shape of C02, here seen as a lost timing point
                let tp = &m1.control_points.timing_points;
                let sub_eps = tp.windows(2).filter(|w| (w[1].time - w[0].time).abs() < f64::EPSILON).count();
                let only_count = probs.iter().all(|p| p.starts_with("timing points "));
                let sig = if only_count && sub_eps > 0 && m2.control_points.timing_points.len() + sub_eps == tp.len() { "timing-points-merged:sub-epsilon-times" } else { "rejects-own-output:timing" };
                s.mismatch(sig, json!({"text": text, "problems": probs}));
            }
        } else {
            let d = c02_diffs(&m1, &m2);
            s.checks += 1;
            if !d.is_empty() {
                let sig = if subeps { "timing-roundtrip:sub-epsilon-times".to_string() } else { format!("timing-roundtrip:{}", d[0].split(' ').next().unwrap_or("")) };
                s.mismatch(&sig, json!({"text": text, "encoded": block, "diffs": d}));
            } else if !getb(&c, "same") && !subeps {
                s.mismatch("harness:model-predicts-a-timing-difference-the-code-does-not-show", json!({"text": text, "encoded": block}));
            }
        }
        s.sample(json!({"text": text, "encoded_timing_points": block}));
    });
}

// ---------------------------------------------------------------------------
// SampleCodec: the hit-sound byte and bank info the encoder writes for an object, and what a second
// decode makes of them (names and banks), for every bank info x hit-sound byte x sample point x mania.
pub fn sample_replay(args: &Args, s: &mut Summary) {
    use rosu_map::section::hit_objects::hit_samples::{HitSampleDefaultName, HitSampleInfo, HitSampleInfoName};
    let mut rng = Rng::new(args.seed);
    fn nb(v: &[HitSampleInfo]) -> Value {
        Value::Array(v.iter().map(|x| {
            let (n, f) = match &x.name {
                HitSampleInfoName::Default(HitSampleDefaultName::Normal) => ("normal", String::new()),
                HitSampleInfoName::Default(HitSampleDefaultName::Whistle) => ("whistle", String::new()),
                HitSampleInfoName::Default(HitSampleDefaultName::Finish) => ("finish", String::new()),
                HitSampleInfoName::Default(HitSampleDefaultName::Clap) => ("clap", String::new()),
                HitSampleInfoName::File(f) => ("file", f.clone()),
            };
            json!([n, x.bank as i32, f])
        }).collect())
    }
    args.for_each_case(|_, c| {
        s.cases += 1;
        let bi = crate::hitobj::spell_bi(&c["bi"], &mut Rng::new(0)).replace(' ', "");
        let sp = &c["sp"];
        let mania = getb(&c, "mania");
        let sound = geti(&c, "sound");
        let text = format!("osu file format v14\n\n[General]\nMode: {}\n\n[TimingPoints]\n0,500,4,{},{},{},1,0\n\n[HitObjects]\n{},192,1000,1,{sound},{bi}\n",
                           if mania { 3 } else { *rng.pick(&[0, 1, 2]) }, geti(sp, "bank"), geti(sp, "custom"), geti(sp, "vol"), if mania { 256 } else { 100 });
        if sound != 0 || geti(&c["bi"], "n") > 0 {
            s.nontrivial_key(&format!("{}|{}|{}", c["bi"], sound, mania));
        }
        let r = guarded(&format!("samplecodec {text:?}"), || roundtrip(&text));
        s.checks += 3;
        match r {
            Err(p) => s.mismatch("panic", json!({"text": text, "panic": p})),
            Ok(Err(e)) => s.mismatch("roundtrip-step-failed", json!({"text": text, "err": e})),
            Ok(Ok((m1, enc, m2))) => {
                let (Some(o1), Some(o2)) = (m1.hit_objects.first(), m2.hit_objects.first()) else {
                    s.mismatch("object-lost", json!({"text": text, "encoded": enc}));
                    return;
                };
                let line = enc.lines().skip_while(|l| *l != "[HitObjects]").nth(1).unwrap_or("").to_string();
                let f: Vec<&str> = line.splitn(6, ',').collect();
                let e = &c["einfo"];
                let want_info = format!("{}:{}:{}:{}:{}", geti(e, "b1"), geti(e, "b2"), geti(e, "cu"), geti(e, "vo"), gets(e, "fn"));
                if nb(&o1.samples) != c["m1"] {
                    // decoding itself is C14's / C15's subject: nothing to say about the codec then
                } else if f.len() < 6 || f[4] != geti(&c, "esnd").to_string() || f[5] != want_info {
                    s.mismatch("sample-encoder-differs", json!({"text": text, "line": line, "want_sound": c["esnd"], "want_info": want_info}));
                } else if nb(&o2.samples) != c["m2"] {
                    s.mismatch("sample-redecode-differs", json!({"text": text, "line": line, "got": nb(&o2.samples), "want": c["m2"]}));
                } else if nb(&o2.samples) != nb(&o1.samples) {
                    s.mismatch("sample-names-banks-lost", json!({"text": text, "line": line, "before": nb(&o1.samples), "after": nb(&o2.samples)}));
                }
                if s.samples.len() < 3 {
                    s.sample(json!({"text": text, "line": line}));
                }
            }
        }
    });
}
