//! C02 / C04 oracles shared by every replay: decode -> encode -> decode comparison on the
//! statement's field list, and line-by-line validation of the encoder's output.
use crate::framing::SECTIONS;
use rosu_map::section::general::GameMode;
use rosu_map::section::hit_objects::hit_samples::HitSampleInfo;
use rosu_map::section::hit_objects::{HitObject, HitObjectKind};
use rosu_map::{Beatmap, DecodeBeatmap, DecodeState};

fn samples_nb(v: &[HitSampleInfo]) -> Vec<(String, i32)> {
    v.iter().map(|s| (format!("{:?}", s.name), s.bank as i32)).collect()
}

fn obj_diff(i: usize, a: &mut HitObject, b: &mut HitObject, out: &mut Vec<String>) {
    let tag = |f: &str| format!("hit_objects[{i}].{f}");
    if a.start_time != b.start_time {
        out.push(tag("start_time"));
    }
    if samples_nb(&a.samples) != samples_nb(&b.samples) {
        out.push(tag("samples(names,banks)"));
    }
    match (&mut a.kind, &mut b.kind) {
        (HitObjectKind::Circle(x), HitObjectKind::Circle(y)) => {
            if x.pos != y.pos {
                out.push(tag("pos"));
            }
            if x.new_combo != y.new_combo || x.combo_offset != y.combo_offset {
                out.push(tag("combo"));
            }
        }
        (HitObjectKind::Slider(x), HitObjectKind::Slider(y)) => {
            if x.pos != y.pos {
                out.push(tag("pos"));
            }
            if x.new_combo != y.new_combo || x.combo_offset != y.combo_offset {
                out.push(tag("combo"));
            }
            if x.path.control_points() != y.path.control_points() {
                out.push(tag("control_points"));
            }
            if x.repeat_count != y.repeat_count {
                out.push(tag("repeat_count"));
            }
            if (x.velocity - y.velocity).abs() > 1e-9 * x.velocity.abs().max(1.0) {
                out.push(tag("velocity"));
            }
            if x.node_samples.len() != y.node_samples.len() {
                out.push(tag("node count"));
            } else if x.node_samples.iter().zip(y.node_samples.iter()).any(|(p, q)| samples_nb(p) != samples_nb(q)) {
                out.push(tag("node samples(names,banks)"));
            }
            // computed curves (the requested length may be re-written as the computed distance)
            let (cx, cy) = (x.path.curve().clone(), y.path.curve().clone());
            if cx.path().len() != cy.path().len()
                || cx.path().iter().zip(cy.path().iter()).any(|(p, q)| (p.x - q.x).abs() > 1e-3 + 1e-6 * p.x.abs() || (p.y - q.y).abs() > 1e-3 + 1e-6 * p.y.abs())
                || (cx.dist() - cy.dist()).abs() > 1e-6 * cx.dist().abs().max(1.0)
            {
                out.push(tag("curve"));
            }
        }
        (HitObjectKind::Spinner(x), HitObjectKind::Spinner(y)) => {
            if x.new_combo != y.new_combo {
                out.push(tag("combo"));
            }
            if (x.duration - y.duration).abs() > 1e-9 * x.duration.abs().max(1.0) {
                out.push(tag("duration"));
            }
        }
        (HitObjectKind::Hold(x), HitObjectKind::Hold(y)) => {
            if x.pos_x != y.pos_x {
                out.push(tag("pos_x"));
            }
            if (x.duration - y.duration).abs() > 1e-9 * x.duration.abs().max(1.0) {
                out.push(tag("duration"));
            }
        }
        _ => out.push(tag("kind")),
    }
}

/// The fields the C02 statement lists, with its exclusions.
pub fn c02_diffs(m1: &Beatmap, m2: &Beatmap) -> Vec<String> {
    let mut out: Vec<String> = vec![];
    macro_rules! eq { ($($f:ident),*) => { $( if m1.$f != m2.$f { out.push(stringify!($f).to_string()); } )* } }
    eq!(format_version, audio_file, audio_lead_in, preview_time, stack_leniency, mode, letterbox_in_breaks, widescreen_storyboard,
        epilepsy_warning, samples_match_playback_rate, countdown);
    if m1.mode == GameMode::Mania && m1.special_style != m2.special_style {
        out.push("special_style".into());
    }
    if m1.countdown_offset > 0 && m1.countdown_offset != m2.countdown_offset {
        out.push("countdown_offset".into());
    }
    eq!(bookmarks, distance_spacing, beat_divisor, grid_size, timeline_zoom);
    eq!(title, title_unicode, artist, artist_unicode, creator, version, source, tags);
    if m1.beatmap_id > 0 && m1.beatmap_id != m2.beatmap_id {
        out.push("beatmap_id".into());
    }
    if m1.beatmap_set_id > 0 && m1.beatmap_set_id != m2.beatmap_set_id {
        out.push("beatmap_set_id".into());
    }
    eq!(hp_drain_rate, circle_size, overall_difficulty, approach_rate, slider_multiplier, slider_tick_rate);
    eq!(background_file, breaks, custom_combo_colors, custom_colors);
    // timing points, and the effective timelines of velocity / kiai / scroll speed
    if m1.control_points.timing_points != m2.control_points.timing_points {
        out.push("timing_points".into());
    }
    let mut times: Vec<f64> = vec![];
    for cp in [&m1.control_points, &m2.control_points] {
        times.extend(cp.timing_points.iter().map(|p| p.time));
        times.extend(cp.difficulty_points.iter().map(|p| p.time));
        times.extend(cp.effect_points.iter().map(|p| p.time));
    }
    for t in times {
        let sv = |m: &Beatmap| m.control_points.difficulty_point_at(t).map_or(1.0, |p| p.slider_velocity);
        let kiai = |m: &Beatmap| m.control_points.effect_point_at(t).map_or(false, |p| p.kiai);
        let scroll = |m: &Beatmap| m.control_points.effect_point_at(t).map_or(1.0, |p| p.scroll_speed);
        if (sv(m1) - sv(m2)).abs() > 1e-9 * sv(m1).abs().max(1.0) {
            out.push(format!("slider velocity timeline at {t}: {} -> {}", sv(m1), sv(m2)));
            break;
        }
        if kiai(m1) != kiai(m2) {
            out.push(format!("kiai timeline at {t}"));
            break;
        }
        if (scroll(m1) - scroll(m2)).abs() > 1e-9 * scroll(m1).abs().max(1.0) {
            out.push(format!("scroll speed timeline at {t}: {} -> {}", scroll(m1), scroll(m2)));
            break;
        }
    }
    if m1.hit_objects.len() != m2.hit_objects.len() {
        out.push(format!("hit object count {} -> {}", m1.hit_objects.len(), m2.hit_objects.len()));
    } else {
        let mut a = m1.hit_objects.clone();
        let mut b = m2.hit_objects.clone();
        for (i, (x, y)) in a.iter_mut().zip(b.iter_mut()).enumerate() {
            obj_diff(i, x, y, &mut out);
            if out.len() > 6 {
                break;
            }
        }
    }
    out
}

/// decode(text) -> encode -> decode; Err(reason) when one of the steps fails.
pub fn roundtrip(text: &str) -> Result<(Beatmap, String, Beatmap), String> {
    let m1 = rosu_map::from_str::<Beatmap>(text).map_err(|e| format!("first decode: {e}"))?;
    let mut m = m1.clone();
    let enc = m.encode_to_string().map_err(|e| format!("encode: {e}"))?;
    let m2 = rosu_map::from_str::<Beatmap>(&enc).map_err(|e| format!("second decode: {e}"))?;
    Ok((m1, enc, m2))
}

/// C04: the encoded text starts with a version line, has each header once in canonical
/// order, and every record line is accepted by its section's public parse function.
pub fn c04_problems(enc: &str) -> Vec<String> {
    let mut out = vec![];
    let canonical = ["General", "Editor", "Metadata", "Difficulty", "Events", "TimingPoints", "Colours", "HitObjects"];
    let mut lines = enc.split('\n');
    match lines.next() {
        Some(l) if l.starts_with("osu file format v") && l["osu file format v".len()..].parse::<i32>().is_ok() => {}
        other => out.push(format!("first line is not a version line: {other:?}")),
    }
    let mut seen: Vec<&str> = vec![];
    let mut st = <Beatmap as DecodeBeatmap>::State::create(14);
    let mut section: Option<&str> = None;
    for (n, raw) in lines.enumerate() {
        let line = raw.trim_end();
        if line.is_empty() {
            continue;
        }
        if line.starts_with('[') && line.ends_with(']') && SECTIONS.contains(&&line[1..line.len() - 1]) {
            let name = &line[1..line.len() - 1];
            if seen.contains(&name) {
                out.push(format!("header [{name}] written twice (line {})", n + 2));
            }
            seen.push(name);
            section = Some(name);
            continue;
        }
        let Some(sec) = section else {
            out.push(format!("record before the first header: {line:?}"));
            continue;
        };
        if line.trim_start().starts_with("//") {
            out.push(format!("[{sec}] the encoder wrote a line that reads as a comment: {line:?}"));
            continue;
        }
        let res = match sec {
            "General" => Beatmap::parse_general(&mut st, line).map_err(|e| e.to_string()),
            "Editor" => Beatmap::parse_editor(&mut st, line).map_err(|e| e.to_string()),
            "Metadata" => Beatmap::parse_metadata(&mut st, line).map_err(|e| e.to_string()),
            "Difficulty" => Beatmap::parse_difficulty(&mut st, line).map_err(|e| e.to_string()),
            "Events" => Beatmap::parse_events(&mut st, line).map_err(|e| e.to_string()),
            "TimingPoints" => Beatmap::parse_timing_points(&mut st, line).map_err(|e| e.to_string()),
            "Colours" => Beatmap::parse_colors(&mut st, line).map_err(|e| e.to_string()),
            "HitObjects" => Beatmap::parse_hit_objects(&mut st, line).map_err(|e| e.to_string()),
            _ => Ok(()),
        };
        if let Err(e) = res {
            out.push(format!("[{sec}] rejects its own encoder's line {line:?}: {e}"));
        }
    }
    if seen != canonical {
        out.push(format!("headers {seen:?} are not the canonical list"));
    }
    out
}

/// "never dropped or misread": the re-decoded map has as many objects / timing points
pub fn c04_counts(m1: &Beatmap, m2: &Beatmap) -> Vec<String> {
    let mut out = vec![];
    if m1.hit_objects.len() != m2.hit_objects.len() {
        out.push(format!("hit objects {} -> {}", m1.hit_objects.len(), m2.hit_objects.len()));
    }
    if m1.control_points.timing_points.len() != m2.control_points.timing_points.len() {
        out.push(format!("timing points {} -> {}", m1.control_points.timing_points.len(), m2.control_points.timing_points.len()));
    }
    if m1.breaks.len() != m2.breaks.len() {
        out.push(format!("breaks {} -> {}", m1.breaks.len(), m2.breaks.len()));
    }
    if m1.custom_combo_colors.len() != m2.custom_combo_colors.len() || m1.custom_colors.len() != m2.custom_colors.len() {
        out.push("colour count".into());
    }
    if m1.background_file.is_empty() != m2.background_file.is_empty() {
        out.push(format!("background event dropped ({:?} -> {:?})", m1.background_file, m2.background_file));
    }
    out
}
