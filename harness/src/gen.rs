//! Structured generator of .osu texts for the model-free relations (C01, C02, C03, C04, C15):
//! every section, four modes, versions 3..128, all object kinds, multi-segment paths of
//! every type, same-time timing groups, hostile-but-accepted numerics.
use crate::util::Rng;

pub struct GenOpts {
    pub chronological: bool,
    pub hostile: bool,
    pub mode: Option<u8>,
    pub objects: usize,
    pub timing_lines: usize,
    pub integer_times: bool,
    /// also produce the two shapes recorded as known findings (a `//` inside a file name; a slider without a requested
    /// length whose natural length exceeds the decoder's limit)
    pub known_shapes: bool,
}

impl GenOpts {
    pub fn c02() -> Self {
        GenOpts { chronological: true, hostile: false, mode: None, objects: 12, timing_lines: 8, integer_times: false, known_shapes: false }
    }
    pub fn hostile() -> Self {
        GenOpts { chronological: false, hostile: true, mode: None, objects: 12, timing_lines: 8, integer_times: false, known_shapes: false }
    }
}

fn num(rng: &mut Rng, hostile: bool, normal: &[&str]) -> String {
    if hostile && rng.chance(1, 4) {
        rng.pick(&["2147483647", "-2147483647", "2147483648", "1e10", "NaN", "inf", "-0", "0.0000001", "1e-320", "131072", "-131072",
                   "131073", "", "x", "9000", "9001", "99999999999", "1e400", "0x10", "+5", " 7 "])
            .to_string()
    } else {
        rng.pick(normal).to_string()
    }
}

fn text_value(rng: &mut Rng, hostile: bool) -> String {
    let pool: &[&str] = if hostile {
        &["Re:Zero", "a // b", "[HitObjects]", "osu file format v3", "x,y", "\"q\"", "é東", "  padded  ", "", "a:b:c", "//c", "tab\there", "Combo1"]
    } else {
        &["Song", "The Title", "Re:Zero", "Artist Name", "é東 title", "a-b_c", "v1.0", "x y z", "T:1:2"]
    };
    rng.pick(pool).to_string()
}

pub fn path_string(rng: &mut Rng, hostile: bool, x: i32, y: i32) -> String {
    // absolute coordinates around the object; types of every kind; duplicates for implicit segments
    let mut toks: Vec<String> = vec![rng.pick(&["B", "L", "P", "C", "B"]).to_string()];
    let n = 1 + rng.below(6);
    let mut last = (x, y);
    for i in 0..n {
        if i > 0 && rng.chance(1, 5) {
            toks.push(rng.pick(&["B", "L", "P", "C"]).to_string());
        }
        let p = if rng.chance(1, 6) { last } else { (x + rng.below(300) as i32 - 100, y + rng.below(200) as i32 - 80) };
        toks.push(format!("{}:{}", p.0, p.1));
        if rng.chance(1, 8) {
            toks.push(format!("{}:{}", p.0, p.1)); // a repeated point: implicit segment
        }
        last = p;
    }
    if hostile && rng.chance(1, 6) {
        let at = rng.below(toks.len() + 1);
        toks.insert(at, rng.pick(&["", "x", "1:", "B", "L", "1e9:5", "P", "Q", "B0", "B00", "B-1", "B2147483648", "B+0", "B1", "B99"]).to_string());
    }
    toks.join("|")
}

fn bank_info(rng: &mut Rng, hostile: bool) -> String {
    let b = |rng: &mut Rng| rng.pick(&["0", "1", "2", "3"]).to_string();
    match rng.below(if hostile { 7 } else { 4 }) {
        0 => "0:0:0:0:".to_string(),
        1 => format!("{}:{}:0:0:", b(rng), b(rng)),
        2 => format!("{}:{}:{}:{}:", b(rng), b(rng), rng.pick(&["0", "1", "2", "5", "-1"]), rng.pick(&["0", "30", "100", "101", "150"])),
        3 => format!("{}:{}:0:50:{}", b(rng), b(rng), rng.pick(&["hit.wav", "", "a b.ogg", "sfx\\hit.wav"])),
        4 => "7:-1:2147483647:0:".to_string(),
        5 => "1".to_string(),
        _ => "x:y".to_string(),
    }
}

pub fn gen_map(rng: &mut Rng, o: &GenOpts) -> String {
    let h = o.hostile;
    let mode = o.mode.unwrap_or_else(|| rng.below(4) as u8);
    let mut s = String::new();
    let version = *rng.pick(&[14, 14, 14, 3, 5, 7, 8, 9, 10, 12, 128]);
    s.push_str(&format!("osu file format v{version}\n\n[General]\n"));
    if o.known_shapes && rng.chance(1, 12) {
        s.push_str("AudioFilename: dir\\\\song.mp3\n");
    } else {
        s.push_str(&format!("AudioFilename: {}\n", rng.pick(&["audio.mp3", "a b.ogg", "dir\\file.mp3", "x.mp3"])));
    }
    s.push_str(&format!("AudioLeadIn: {}\n", num(rng, h, &["0", "500", "2000"])));
    s.push_str(&format!("PreviewTime: {}\n", num(rng, h, &["-1", "1234", "60000"])));
    s.push_str(&format!("Countdown: {}\n", rng.pick(&["0", "1", "2", "3"])));
    s.push_str(&format!("SampleSet: {}\n", rng.pick(&["Normal", "Soft", "Drum", "None"])));
    s.push_str(&format!("StackLeniency: {}\n", num(rng, h, &["0.7", "0.5", "1", "0.3"])));
    s.push_str(&format!("Mode: {mode}\n"));
    s.push_str(&format!("LetterboxInBreaks: {}\n", rng.below(2)));
    if rng.chance(1, 2) {
        s.push_str(&format!("SpecialStyle: {}\n", rng.below(2)));
    }
    s.push_str(&format!("WidescreenStoryboard: {}\n", rng.below(2)));
    if rng.chance(1, 3) {
        s.push_str("EpilepsyWarning: 1\n");
    }
    if rng.chance(1, 3) {
        s.push_str("SamplesMatchPlaybackRate: 1\n");
    }
    if rng.chance(1, 3) {
        s.push_str(&format!("CountdownOffset: {}\n", rng.pick(&["0", "2", "-1"])));
    }
    if rng.chance(1, 3) {
        s.push_str(&format!("SampleVolume: {}\n", rng.pick(&["100", "60", "0"])));
    }
    s.push_str("\n[Editor]\n");
    if rng.chance(2, 3) {
        s.push_str(&format!("Bookmarks: {}\n", rng.pick(&["1000,2000,3000", "5", "-7,8", ""])));
    }
    s.push_str(&format!("DistanceSpacing: {}\nBeatDivisor: {}\nGridSize: {}\nTimelineZoom: {}\n",
        num(rng, h, &["1", "1.2", "0.8"]), num(rng, h, &["4", "8", "3"]), num(rng, h, &["4", "16", "32"]), num(rng, h, &["1", "2.5", "0.7"])));
    s.push_str("\n[Metadata]\n");
    for k in ["Title", "TitleUnicode", "Artist", "ArtistUnicode", "Creator", "Version", "Source", "Tags"] {
        if rng.chance(4, 5) {
            s.push_str(&format!("{k}:{}\n", text_value(rng, h)));
        }
    }
    s.push_str(&format!("BeatmapID:{}\nBeatmapSetID:{}\n", rng.pick(&["0", "123456", "-1", "7"]), rng.pick(&["0", "654", "-1", "99"])));
    s.push_str("\n[Difficulty]\n");
    let order_ar_first = rng.chance(1, 2);
    s.push_str(&format!("HPDrainRate:{}\nCircleSize:{}\n", num(rng, h, &["5", "6.5", "0", "10"]), num(rng, h, &["4", "3.2", "7", "20", "-3", "18", "0", "11.5"])));
    if order_ar_first && rng.chance(2, 3) {
        s.push_str(&format!("ApproachRate:{}\n", num(rng, h, &["9", "9.3", "8"])));
    }
    s.push_str(&format!("OverallDifficulty:{}\n", num(rng, h, &["8", "7.5", "5"])));
    if !order_ar_first && rng.chance(2, 3) {
        s.push_str(&format!("ApproachRate:{}\n", num(rng, h, &["9", "9.3", "8"])));
    }
    let sm = *rng.pick(&["1.4", "2", "1", "0.5", "3.6", "0.1", "5", "1.7999999523162842"]);
    s.push_str(&format!("SliderMultiplier:{sm}\nSliderTickRate:{}\n", rng.pick(&["1", "2", "0.5", "4", "9", "0.1"])));
    s.push_str("\n[Events]\n//Background and Video events\n");
    if rng.chance(2, 3) {
        if o.known_shapes && rng.chance(1, 12) {
            s.push_str("0,0,\"a\\/b.jpg\",0,0\n");
        } else {
            s.push_str(&format!("0,0,\"{}\",0,0\n", rng.pick(&["bg.jpg", "b g.png", "dir\\bg.jpg", "a.JPG", "intro.avi", "clip.MP4", "my \"best\" bg.jpg", "tab\tname.png", "x\u{200b}y.jpg", "it's.png"])));
        }
    }
    if rng.chance(1, 3) {
        s.push_str(&format!("Video,0,\"{}\"\n", rng.pick(&["v.mp4", "img.png", "V.AVI"])));
    }
    let nbreaks = rng.below(3);
    let mut bt = 5000 + rng.below(3000) as i64;
    for _ in 0..nbreaks {
        let len = 700 + rng.below(3000) as i64;
        s.push_str(&format!("2,{},{}\n", bt, if h && rng.chance(1, 4) { bt - 50 } else { bt + len }));
        bt += len + 4000 + rng.below(5000) as i64;
    }
    if h {
        s.push_str("4,Background,Centre,\"sp.png\",320,240\n9,9,9\nBreak,x,y\n");
    }
    s.push_str("\n[TimingPoints]\n");
    let mut t: f64 = if rng.chance(1, 3) { -500.0 } else { 0.0 };
    let mut tl: Vec<String> = vec![];
    for i in 0..o.timing_lines {
        let unin = i == 0 || rng.chance(1, 3);
        let bl = if unin {
            rng.pick(&["500", "333.333333333333", "250", "600", "1000", "375.5"]).to_string()
        } else if h && rng.chance(1, 5) {
            rng.pick(&["-100000", "NaN", "-1", "-0.5", "0", "-0.002", "-1e-300", "-1e300", "1e-300", "-0"]).to_string()
        } else {
            // (the last four: velocities that differ from a neighbour's by about 1e-7 - different values, not repeats)
            rng.pick(&["-100", "-50", "-200", "-133.333333333333", "-80", "-66.6666666666667", "-125", "-100", "-50",
                       "-99.99999", "-100.00001", "-50.000004", "-100.0000003"]).to_string()
        };
        let full = rng.chance(5, 6);
        let mut l = format!("{t},{bl}");
        if full {
            l.push_str(&format!(",{},{},{},{},{},{}", rng.pick(&["4", "3", "7", "0"]), rng.pick(&["1", "2", "3", "0"]), rng.pick(&["0", "0", "1", "2"]),
                                 rng.pick(&["100", "60", "35", "0"]), if unin { 1 } else { 0 }, rng.pick(&["0", "1", "8", "9", "0"])));
        }
        tl.push(l);
        if rng.chance(3, 4) {
            t += (rng.below(8) as f64) * if o.integer_times { 333.0 } else { 333.25 };
        }
    }
    if !o.chronological {
        for _ in 0..tl.len() {
            let (a, b) = (rng.below(tl.len()), rng.below(tl.len()));
            tl.swap(a, b);
        }
    }
    for l in tl {
        s.push_str(&l);
        s.push('\n');
    }
    s.push_str("\n[Colours]\n");
    for i in 1..=*rng.pick(&[0usize, 1, 2, 3, 3, 8, 9, 13]) {
        s.push_str(&format!("Combo{i} : {},{},{}\n", rng.below(256), rng.below(256), rng.below(256)));
    }
    if rng.chance(1, 2) {
        s.push_str(&format!("SliderBorder : {},{},{},{}\n", rng.below(256), rng.below(256), rng.below(256), rng.below(256)));
    }
    if rng.chance(1, 3) {
        s.push_str("SliderTrackOverride : 1,2,3\n");
    }
    s.push_str("\n[HitObjects]\n");
    let mut ot: f64 = 1000.0;
    let mut ol: Vec<String> = vec![];
    for _ in 0..o.objects {
        let x = rng.below(512) as i32;
        let y = rng.below(384) as i32;
        let nc = if rng.chance(1, 4) { 4 + 16 * rng.below(4) as i32 } else { 0 };
        let snd = if rng.chance(1, 2) { *rng.pick(&[0, 2, 4, 8, 6, 14, 1]) } else { rng.below(16) as i32 };
        let line = match rng.below(if mode == 3 { 5 } else { 4 }) {
            // (the type field is an integer of which only the low byte matters)
            0 | 1 => format!("{x},{y},{ot},{},{snd},{}", 1 + nc + if rng.chance(1, 12) { 256 * (1 + rng.below(300) as i32) } else { 0 }, bank_info(rng, h)),
            2 => {
                let rep = *rng.pick(&[1, 1, 2, 3]);
                let len = num(rng, h, &["100", "140.5", "35", "250.75", "0", "60.0000009536743"]);
                let mut l = if o.known_shapes && rng.chance(1, 30) {
                    format!("{x},{y},{ot},{},{snd},L|{}:{},{rep},0", 2 + nc, *rng.pick(&[131072, -131072, 100000]), *rng.pick(&[131072, 90000]))
                } else {
                    format!("{x},{y},{ot},{},{snd},{},{rep},{len}", 2 + nc, path_string(rng, h, x, y))
                };
                if rng.chance(1, 2) {
                    let ns: Vec<String> = (0..=rep).map(|_| rng.pick(&["0", "2", "4", "8", "10"]).to_string()).collect();
                    // (known shape: an edge set with all five components may name a sample FILE for one node)
                    let nb: Vec<String> = (0..=rep).map(|_| if o.known_shapes && rng.chance(1, 25) { "1:2:0:0:n.wav".to_string() } else { format!("{}:{}", rng.below(4), rng.below(4)) }).collect();
                    l.push_str(&format!(",{},{},{}", ns.join("|"), nb.join("|"), bank_info(rng, h)));
                }
                l
            }
            3 => format!("256,192,{ot},{},{snd},{},{}", 8 + (nc & 4), ot + (rng.below(3000) as f64), bank_info(rng, h)),
            _ => format!("{x},192,{ot},128,{snd},{}:{}", ot + (rng.below(2000) as f64), bank_info(rng, h)),
        };
        ol.push(line);
        if rng.chance(5, 6) {
            ot += (rng.below(12) as f64) * if o.integer_times { 125.0 } else { 125.5 };
        }
    }
    if o.known_shapes && o.chronological && rng.chance(1, 15) {
        // known shape: a slider that starts just below the largest time the decoder accepts and ends beyond it
        // (and a louder circle in between, so that the encoder has a sample change to write at the slider's end)
        ol.push("100,100,2147483000,2,0,L|200:100,1,1000".to_string());
        ol.push("256,192,2147483500,1,0,0:0:0:70:".to_string());
    }
    if !o.chronological {
        for _ in 0..ol.len() / 2 {
            let (a, b) = (rng.below(ol.len()), rng.below(ol.len()));
            ol.swap(a, b);
        }
    }
    for l in ol {
        s.push_str(&l);
        s.push('\n');
    }
    s
}
