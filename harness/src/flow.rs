//! SectionFlow: files whose sections come in any order and more than once; the model predicts what each
//! decoder returns (control points, [General] values, objects).  `--prop` selects the oracle:
//!   C07  the decoders agree on what they share (no model involved)
//!   C12  control points = model     C15  objects = model     (default: everything)
use crate::cp::proj_cp;
use crate::mappost::{proj, spell_obj};
use crate::timing::{spell_line, Tau};
use crate::util::*;
use rosu_map::section::hit_objects::HitObjects;
use rosu_map::section::timing_points::TimingPoints;
use rosu_map::Beatmap;
use serde_json::{json, Value};

fn section_of(kind: &str) -> &'static str {
    match kind {
        "mode" | "bank" | "vol" => "General",
        "sm" => "Difficulty",
        "brk" => "Events",
        "tl" => "TimingPoints",
        _ => "HitObjects",
    }
}

pub fn replay(args: &Args, s: &mut Summary) {
    let prop = args.opt("prop").unwrap_or("all").to_string();
    let mut rng = Rng::new(args.seed);
    let (mut items, mut lines, mut objs): (Vec<Value>, Vec<Value>, Vec<Value>) = (vec![], vec![], vec![]);
    args.for_each_case(|_, c| {
        if let Some(a) = c.get("alpha") {
            items = geta(a, "items").clone();
            lines = geta(a, "lines").clone();
            objs = geta(a, "objs").clone();
            return;
        }
        s.cases += 1;
        let h: Vec<usize> = geta(&c, "h").iter().map(|k| k.as_u64().unwrap() as usize - 1).collect();
        let want = &c["out"];
        let mut text = String::from("osu file format v14\n\n[Difficulty]\nSliderMultiplier:1\n");
        let mut cur = "Difficulty";
        let mut nobj = 0;
        for k in &h {
            let it = &items[*k];
            let kind = gets(it, "kind");
            let sec = section_of(kind);
            if sec != cur || rng.chance(1, 6) {
                text.push_str(&format!("\n[{sec}]\n"));
                cur = sec;
            }
            let line = match kind {
                "mode" => format!("Mode: {}", match it["v"].as_str().unwrap() { "taiko" => 1, "catch" => 2, "mania" => 3, _ => 0 }),
                "bank" => format!("SampleSet: {}", ["None", "Normal", "Soft", "Drum"][it["v"].as_u64().unwrap() as usize]),
                "vol" => format!("SampleVolume: {}", it["v"]),
                "sm" => format!("SliderMultiplier:{}", it["v"].as_f64().unwrap() / 1000.0),
                "brk" => format!("2,{},{}", it["v"][0], it["v"][1]),
                "tl" => spell_line(&lines[it["v"].as_u64().unwrap() as usize - 1], &Tau, &mut rng),
                _ => {
                    nobj += 1;
                    let mut o = objs[it["v"].as_u64().unwrap() as usize - 1].clone();
                    o["id"] = json!(nobj);
                    spell_obj(&o, &mut rng, 0)
                }
            };
            text.push_str(&line);
            text.push('\n');
        }
        if h.iter().any(|k| gets(&items[*k], "kind") == "tl") && h.iter().any(|k| section_of(gets(&items[*k], "kind")) == "General") {
            s.nontrivial_key(&c["h"].to_string());
        }
        if prop == "C02" {
            // decode -> encode -> decode on files whose sections come in any order (timing lines and objects chronological)
            let taus: Vec<i64> = h.iter().filter(|k| gets(&items[**k], "kind") == "tl").map(|k| geti(&lines[items[*k]["v"].as_u64().unwrap() as usize - 1], "tau")).collect();
            let ots: Vec<i64> = h.iter().filter(|k| gets(&items[**k], "kind") == "obj").map(|k| geti(&objs[items[*k]["v"].as_u64().unwrap() as usize - 1], "t")).collect();
            if taus.windows(2).any(|w| w[1] < w[0]) || ots.windows(2).any(|w| w[1] < w[0]) {
                return;
            }
            // a [General] Mode record read AFTER a timing line: the line was read with the mode known then, the encoder
            // writes with the final one
            let first_tl = h.iter().position(|k| gets(&items[*k], "kind") == "tl");
            let mode_after_tl = first_tl.map_or(false, |p| h[p..].iter().any(|k| gets(&items[*k], "kind") == "mode"));
            s.checks += 1;
            match guarded(&format!("flow roundtrip {text:?}"), || crate::roundtrip::roundtrip(&text)) {
                Err(p) => s.mismatch("panic", json!({"text": text, "panic": p})),
                Ok(Err(e)) => s.mismatch("roundtrip-step-failed", json!({"text": text, "err": e})),
                Ok(Ok((m1, _, m2))) => {
                    let d = crate::roundtrip::c02_diffs(&m1, &m2);
                    if !d.is_empty() {
                        let timeline_only = d.iter().all(|x| x.starts_with("slider velocity timeline") || x.starts_with("scroll speed timeline") || x.ends_with(".velocity") || x.ends_with(".curve"));
                        s.mismatch(if mode_after_tl && timeline_only { "timeline:mode-read-after-timing-lines" } else { "flow-roundtrip" }, json!({"text": text, "diffs": d}));
                    }
                }
            }
            return;
        }
        let r = guarded(&format!("flow {text:?}"), || {
            let mut b = rosu_map::from_str::<Beatmap>(&text).map_err(|e| e.to_string())?;
            let mut ho = rosu_map::from_str::<HitObjects>(&text).map_err(|e| e.to_string())?;
            let tp = rosu_map::from_str::<TimingPoints>(&text).map_err(|e| e.to_string())?;
            let general = |mode: rosu_map::section::general::GameMode, bank: rosu_map::section::hit_objects::hit_samples::SampleBank, vol: i32| {
                json!({"mode": format!("{mode:?}").to_lowercase(), "bank": bank as i32, "vol": vol})
            };
            let via = json!({
                "Beatmap": {"g": general(b.mode, b.default_sample_bank, b.default_sample_volume), "sm": milli(b.slider_multiplier),
                            "breaks": b.breaks.iter().map(|x| json!([num(x.start_time), num(x.end_time)])).collect::<Vec<_>>(),
                            "cp": proj_cp(&b.control_points, &Tau), "objs": b.hit_objects.iter_mut().map(proj).collect::<Vec<_>>()},
                "HitObjects": {"g": general(ho.mode, ho.default_sample_bank, ho.default_sample_volume), "sm": milli(ho.slider_multiplier),
                            "breaks": ho.breaks.iter().map(|x| json!([num(x.start_time), num(x.end_time)])).collect::<Vec<_>>(),
                            "cp": proj_cp(&ho.control_points, &Tau), "objs": ho.hit_objects.iter_mut().map(proj).collect::<Vec<_>>()},
                "TimingPoints": {"g": general(tp.mode, tp.default_sample_bank, tp.default_sample_volume), "cp": proj_cp(&tp.control_points, &Tau)},
            });
            Ok::<Value, String>(via)
        });
        s.checks += 3;
        match r {
            Err(p) => s.mismatch("panic", json!({"text": text, "panic": p})),
            Ok(Err(e)) => s.mismatch("io-error", json!({"text": text, "err": e})),
            Ok(Ok(via)) => {
                let (b, ho, tp) = (&via["Beatmap"], &via["HitObjects"], &via["TimingPoints"]);
                // C07: the decoders agree on what they share
                if prop == "C07" || prop == "all" {
                    if ho != b {
                        let f = ["g", "sm", "breaks", "cp", "objs"].iter().find(|f| ho[**f] != b[**f]).unwrap();
                        s.mismatch(&format!("c07:HitObjects.{f}"), json!({"text": text, "HitObjects": ho[*f], "Beatmap": b[*f]}));
                    } else if tp["g"] != b["g"] || tp["cp"] != b["cp"] {
                        s.mismatch("c07:TimingPoints", json!({"text": text, "TimingPoints": tp, "Beatmap": {"g": b["g"], "cp": b["cp"]}}));
                    }
                }
                let want_g = json!({"mode": want["mode"], "bank": want["bank"], "vol": want["vol"]});
                let mut want_objs = geta(want, "objs").clone();
                for w in want_objs.iter_mut() {
                    if w["k"] == "spinner" {
                        w["id"] = json!(-1);
                    }
                }
                if (prop == "C12" || prop == "all") && b["cp"] != want["cp"] {
                    let list = ["tim", "dif", "eff", "smp"].iter().find(|l| b["cp"][**l] != want["cp"][**l]).unwrap();
                    s.mismatch(&format!("flow:control-points:{list}"), json!({"text": text, "got": b["cp"][*list], "want": want["cp"][*list]}));
                } else if (prop == "C15" || prop == "all") && b["cp"] == want["cp"] && b["objs"] != Value::Array(want_objs.clone()) {
                    s.mismatch("flow:objects", json!({"text": text, "got": b["objs"], "want": want_objs}));
                } else if prop == "all" && (b["g"] != want_g || b["sm"] != want["sm"] || b["breaks"] != want["breaks"]) {
                    s.mismatch("flow:general", json!({"text": text, "got": {"g": b["g"], "sm": b["sm"], "breaks": b["breaks"]}, "want": {"g": want_g, "sm": want["sm"], "breaks": want["breaks"]}}));
                }
                if s.samples.len() < 3 {
                    s.sample(json!({"text": text, "out": want}));
                }
            }
        }
    });
}
