//! ControlPoints (C13): spec->impl transition replay and impl->spec recording.
use crate::util::*;
use rosu_map::section::hit_objects::hit_samples::SampleBank;
use rosu_map::section::timing_points::{
    ControlPoints, DifficultyPoint, EffectPoint, SamplePoint, TimeSignature, TimingPoint,
};
use serde_json::{json, Value};

/// Maps abstract integer times to real f64 times and back.
pub trait TimeMap {
    fn real(&self, t: i64) -> f64;
    fn abs(&self, x: f64) -> Value;
}
pub struct Ident;
impl TimeMap for Ident {
    fn real(&self, t: i64) -> f64 {
        t as f64
    }
    fn abs(&self, x: f64) -> Value {
        num(x)
    }
}
/// rank <-> member of a sorted pool of distinct f64
pub struct Pool(pub Vec<f64>);
impl TimeMap for Pool {
    fn real(&self, t: i64) -> f64 {
        self.0[t as usize]
    }
    fn abs(&self, x: f64) -> Value {
        match self.0.iter().position(|y| y.to_bits() == x.to_bits()) {
            Some(i) => json!(i as i64),
            None => json!(format!("not-in-pool:{x}")),
        }
    }
}

pub fn bank_of(i: i64) -> SampleBank {
    match i {
        0 => SampleBank::None,
        1 => SampleBank::Normal,
        2 => SampleBank::Soft,
        _ => SampleBank::Drum,
    }
}

pub fn mk_tim(p: &Value, tm: &dyn TimeMap) -> TimingPoint {
    TimingPoint {
        time: tm.real(geti(p, "t")),
        beat_len: geti(p, "bl") as f64,
        omit_first_bar_line: getb(p, "omit"),
        time_signature: TimeSignature::new(geti(p, "sig") as i32).expect("sig"),
    }
}
/// thousandths -> f64; negative abstract values stand for non-finite ones (-1 NaN, -2 infinity)
fn unmilli(v: i64) -> f64 {
    match v {
        -1 => f64::NAN,
        -2 => f64::INFINITY,
        _ => v as f64 / 1000.0,
    }
}
fn milli_nf(x: f64) -> Value {
    if x.is_nan() {
        json!(-1)
    } else if x == f64::INFINITY {
        json!(-2)
    } else {
        milli(x)
    }
}

pub fn mk_dif(p: &Value, tm: &dyn TimeMap) -> DifficultyPoint {
    DifficultyPoint {
        time: tm.real(geti(p, "t")),
        slider_velocity: unmilli(geti(p, "sv")),
        generate_ticks: getb(p, "ticks"),
    }
}
pub fn mk_eff(p: &Value, tm: &dyn TimeMap) -> EffectPoint {
    EffectPoint {
        time: tm.real(geti(p, "t")),
        kiai: getb(p, "kiai"),
        scroll_speed: unmilli(geti(p, "scroll")),
    }
}
pub fn mk_smp(p: &Value, tm: &dyn TimeMap) -> SamplePoint {
    SamplePoint {
        time: tm.real(geti(p, "t")),
        sample_bank: bank_of(geti(p, "bank")),
        sample_volume: geti(p, "vol") as i32,
        custom_sample_bank: geti(p, "custom") as i32,
    }
}

pub fn mk_cp(v: &Value, tm: &dyn TimeMap) -> ControlPoints {
    ControlPoints {
        timing_points: geta(v, "tim").iter().map(|p| mk_tim(p, tm)).collect(),
        difficulty_points: geta(v, "dif").iter().map(|p| mk_dif(p, tm)).collect(),
        effect_points: geta(v, "eff").iter().map(|p| mk_eff(p, tm)).collect(),
        sample_points: geta(v, "smp").iter().map(|p| mk_smp(p, tm)).collect(),
    }
}

pub fn proj_tim(p: &TimingPoint, tm: &dyn TimeMap) -> Value {
    json!({"t": tm.abs(p.time), "bl": num(p.beat_len), "omit": p.omit_first_bar_line,
           "sig": p.time_signature.numerator.get()})
}
pub fn proj_dif(p: &DifficultyPoint, tm: &dyn TimeMap) -> Value {
    json!({"t": tm.abs(p.time), "sv": milli_nf(p.slider_velocity), "ticks": p.generate_ticks})
}
pub fn proj_eff(p: &EffectPoint, tm: &dyn TimeMap) -> Value {
    json!({"t": tm.abs(p.time), "kiai": p.kiai, "scroll": milli_nf(p.scroll_speed)})
}
pub fn proj_smp(p: &SamplePoint, tm: &dyn TimeMap) -> Value {
    json!({"t": tm.abs(p.time), "bank": p.sample_bank as i32, "vol": p.sample_volume,
           "custom": p.custom_sample_bank})
}
pub fn proj_cp(cp: &ControlPoints, tm: &dyn TimeMap) -> Value {
    json!({
        "tim": cp.timing_points.iter().map(|p| proj_tim(p, tm)).collect::<Vec<_>>(),
        "dif": cp.difficulty_points.iter().map(|p| proj_dif(p, tm)).collect::<Vec<_>>(),
        "eff": cp.effect_points.iter().map(|p| proj_eff(p, tm)).collect::<Vec<_>>(),
        "smp": cp.sample_points.iter().map(|p| proj_smp(p, tm)).collect::<Vec<_>>(),
    })
}

pub fn add_point(cp: &mut ControlPoints, k: &str, p: &Value, tm: &dyn TimeMap) {
    match k {
        "tim" => cp.add(mk_tim(p, tm)),
        "dif" => cp.add(mk_dif(p, tm)),
        "eff" => cp.add(mk_eff(p, tm)),
        "smp" => cp.add(mk_smp(p, tm)),
        _ => panic!("kind {k}"),
    }
}

/// index (1-based, 0 = none) of the element a lookup returned
pub fn lookup_idx(cp: &ControlPoints, k: &str, t: f64) -> i64 {
    fn pos<T>(l: &[T], r: Option<&T>) -> i64 {
        match r {
            None => 0,
            Some(x) => {
                let base = l.as_ptr() as usize;
                let off = x as *const T as usize;
                ((off - base) / std::mem::size_of::<T>()) as i64 + 1
            }
        }
    }
    match k {
        "tim" => pos(&cp.timing_points, cp.timing_point_at(t)),
        "dif" => pos(&cp.difficulty_points, cp.difficulty_point_at(t)),
        "eff" => pos(&cp.effect_points, cp.effect_point_at(t)),
        "smp" => pos(&cp.sample_points, cp.sample_point_at(t)),
        _ => panic!("kind {k}"),
    }
}

const KINDS: [&str; 4] = ["tim", "dif", "eff", "smp"];

pub fn replay(args: &Args, s: &mut Summary) {
    let tm = Ident;
    args.for_each_case(|_, c| {
        s.cases += 1;
        let k = gets(&c, "k").to_string();
        let label = format!("cp replay {}", c);
        let r = guarded(&label, || {
            let mut cp = mk_cp(&c["pre"], &tm);
            add_point(&mut cp, &k, &c["p"], &tm);
            let post = proj_cp(&cp, &tm);
            let mut look = serde_json::Map::new();
            let probe0 = geti(&c, "probe0");
            for kk in KINDS {
                let n = geta(&c["look"], kk).len() as i64;
                let v: Vec<Value> = (0..n).map(|i| json!(lookup_idx(&cp, kk, (probe0 + i) as f64))).collect();
                look.insert(kk.to_string(), Value::Array(v));
            }
            (post, Value::Object(look))
        });
        match r {
            Err(p) => s.mismatch("panic", json!({"case": c, "panic": p})),
            Ok((post, look)) => {
                s.checks += 2;
                let infinite = ["sv", "scroll"].iter().any(|f| c["p"].get(*f).and_then(|x| x.as_i64()) == Some(-2));
                if post != c["post"] && infinite && c.get("postw") == Some(&post) {
                    // exactly the code's reading of a repeat (ControlPointOps!DifRedW / EffRedW): the listed finding, nothing else
                    s.mismatch("repeat-of-infinite-velocity-stored", json!({"case": c, "actual_post": post}));
                } else if post != c["post"] {
                    s.mismatch(&format!("add:{k}"), json!({"case": c, "actual_post": post}));
                } else if look != c["look"] {
                    s.mismatch(&format!("lookup:{k}"), json!({"case": c, "actual_look": look}));
                }
                if c["pre"] != c["post"] || getb(&c, "red") {
                    s.nontrivial_key(&format!("{}|{}|{}", c["pre"], k, c["p"]));
                }
                s.sample(json!({"pre": c["pre"], "add": [k, c["p"]], "post": c["post"]}));
            }
        }
    });
}

/// The two zeros are ONE time (they compare equal): a point added at -0.0 over one at 0.0 replaces it, and a lookup
/// at -0.0 sees a point stored at 0.0.  Fixed histories per kind; the only deviation that is a listed finding is the
/// one of a total order on the bit patterns (two entries [-0.0, 0.0]; nothing found at -0.0).
pub fn negzero(_args: &Args, s: &mut Summary) {
    let tm = Ident;
    let pts: [(&str, Value, Value); 4] = [
        ("tim", json!({"t": 0, "bl": 500, "omit": false, "sig": 4}), json!({"t": 0, "bl": 250, "omit": false, "sig": 4})),
        ("dif", json!({"t": 0, "sv": 2000, "ticks": true}), json!({"t": 0, "sv": 500, "ticks": true})),
        ("eff", json!({"t": 0, "kiai": true, "scroll": 1000}), json!({"t": 0, "kiai": true, "scroll": 2000})),
        ("smp", json!({"t": 0, "bank": 2, "vol": 50, "custom": 0}), json!({"t": 0, "bank": 3, "vol": 60, "custom": 0})),
    ];
    for (k, a, b) in pts.iter() {
        for first_neg in [false, true] {
            s.cases += 1;
            s.nontrivial_key(&format!("negzero|{k}|{first_neg}"));
            let r = guarded(&format!("cp negzero {k}"), || {
                let mut cp = ControlPoints::default();
                // the first point at one zero, the second at the other
                let set_time = |cp: &mut ControlPoints, p: &Value, t: f64| match *k {
                    "tim" => { let mut x = mk_tim(p, &tm); x.time = t; cp.add(x) }
                    "dif" => { let mut x = mk_dif(p, &tm); x.time = t; cp.add(x) }
                    "eff" => { let mut x = mk_eff(p, &tm); x.time = t; cp.add(x) }
                    _ => { let mut x = mk_smp(p, &tm); x.time = t; cp.add(x) }
                };
                let (t1, t2) = if first_neg { (-0.0, 0.0) } else { (0.0, -0.0) };
                set_time(&mut cp, a, t1);
                let seen_other_zero = lookup_idx(&cp, k, t2);
                set_time(&mut cp, b, t2);
                let times: Vec<f64> = match *k {
                    "tim" => cp.timing_points.iter().map(|p| p.time).collect(),
                    "dif" => cp.difficulty_points.iter().map(|p| p.time).collect(),
                    "eff" => cp.effect_points.iter().map(|p| p.time).collect(),
                    _ => cp.sample_points.iter().map(|p| p.time).collect(),
                };
                (proj_cp(&cp, &tm)[*k].clone(), times, seen_other_zero)
            });
            s.checks += 2;
            match r {
                Err(p) => s.mismatch("panic", json!({"kind": k, "panic": p})),
                Ok((list, times, seen)) => {
                    let want = json!([b]);
                    let bits: Vec<bool> = times.iter().map(|t| t.is_sign_negative()).collect();
                    if list != want {
                        // two entries, -0.0 before 0.0, each with its own values: the total order on bit patterns
                        let mut both = if first_neg { vec![a.clone(), b.clone()] } else { vec![b.clone(), a.clone()] };
                        if list == Value::Array(std::mem::take(&mut both)) && bits == [true, false] {
                            s.mismatch("negative-zero-is-a-second-time", json!({"kind": k, "list": list}));
                        } else {
                            s.mismatch(&format!("add:{k}:zeros"), json!({"kind": k, "list": list, "want": want}));
                        }
                    } else if seen != 1 {
                        s.mismatch(&format!("lookup:{k}:zeros"), json!({"kind": k, "seen": seen}));
                    }
                    // (a lookup at the other zero before the second add: statement = the stored point; under the total
                    //  order a difficulty / effect lookup at -0.0 finds nothing - part of the same finding)
                    s.sample(json!({"kind": k, "first_negative": first_neg, "list": list, "times_negative": bits}));
                }
            }
        }
    }
}

/// Random long histories through the public API -> ndjson trace.
pub fn record(args: &Args, s: &mut Summary) {
    let trace = args.opt("trace").expect("--trace");
    let runs = args.opt_usize("runs", 20);
    let ops = args.opt_usize("ops", 60);
    let mut rng = Rng::new(args.seed);
    let mut lines: Vec<Value> = vec![];
    for run in 0..runs {
        // a pool of distinct times: negative, fractional, large, close together
        let mut pool: Vec<f64> = vec![];
        let n = 6 + rng.below(9);
        while pool.len() < n {
            let x = match rng.below(6) {
                0 => -(rng.below(100000) as f64) / 8.0,
                1 => rng.below(1000) as f64 + 0.5,
                2 => (rng.below(2000) as f64) / 1000.0 - 1.0,
                3 => rng.below(2_000_000) as f64 * 1.25,
                4 => rng.below(50) as f64,
                _ => -(rng.below(50) as f64) - 0.001,
            };
            if x != 0.0 && !pool.iter().any(|y| *y == x) {
                pool.push(x);
                // the adjacent floats are different times: a lookup one ulp before a point must not see it
                if rng.chance(1, 3) {
                    let nb = f64::from_bits(if rng.chance(1, 2) { x.to_bits() + 1 } else { x.to_bits() - 1 });
                    if nb != 0.0 && nb.is_finite() && !pool.iter().any(|y| *y == nb) {
                        pool.push(nb);
                    }
                }
            }
        }
        let n = pool.len();
        pool.sort_by(|a, b| a.total_cmp(b));
        let tm = Pool(pool.clone());
        let mut cp = ControlPoints::default();
        lines.push(json!({"ev": "Reset", "run": run}));
        for _ in 0..ops {
            let k = KINDS[rng.below(4)];
            let t = rng.below(n) as i64;
            if rng.chance(2, 3) {
                let p = match k {
                    "tim" => json!({"t": t, "bl": *rng.pick(&[500, 250, 6, 60000]), "omit": rng.chance(1, 3),
                                     "sig": *rng.pick(&[4, 3, 7])}),
                    // (a repeated INFINITE velocity is a listed finding of the replay; the recorded histories use NaN only)
                    "dif" => json!({"t": t, "sv": *rng.pick(&[1000, 2000, 500, 1000, 50, 20000, -1, -1, 1000]), "ticks": rng.chance(4, 5)}),
                    "eff" => json!({"t": t, "kiai": rng.chance(1, 2), "scroll": *rng.pick(&[1000, 1000, 250, 5, 20000, -1, -1])}),
                    _ => json!({"t": t, "bank": *rng.pick(&[1, 2, 3, 0, 1]), "vol": *rng.pick(&[100, 50, 0, 100, 150, 0, -20]),
                                 "custom": *rng.pick(&[0, 0, 2])}),
                };
                let r = guarded("cp record add", || {
                    add_point(&mut cp, k, &p, &tm);
                    proj_cp(&cp, &tm)
                });
                match r {
                    Ok(post) => lines.push(json!({"ev": "Add", "k": k, "p": p, "post": post})),
                    Err(e) => {
                        s.mismatch("panic", json!({"op": "add", "k": k, "p": p, "panic": e}));
                        break;
                    }
                }
            } else {
                let r = guarded("cp record lookup", || lookup_idx(&cp, k, tm.real(t)));
                match r {
                    Ok(i) => lines.push(json!({"ev": "Look", "k": k, "t": t, "i": i})),
                    Err(e) => {
                        s.mismatch("panic", json!({"op": "lookup", "k": k, "t": t, "panic": e}));
                        break;
                    }
                }
            }
            s.checks += 1;
        }
        s.cases += 1;
        s.nontrivial_key(&format!("{:?}", pool));
        if run == 0 {
            s.sample(json!({"pool": pool, "first_events": lines.iter().take(4).cloned().collect::<Vec<_>>()}));
        }
    }
    s.extra.insert("events".into(), json!(lines.len()));
    write_ndjson(trace, &lines);
}
