//! HitObjectLine / PathString / Samples (C14, C06): spelling of abstract lines,
//! projection of real hit objects, step-by-step replay on the public state.
use crate::util::*;
use rosu_map::section::hit_objects::hit_samples::{HitSampleDefaultName, HitSampleInfo, HitSampleInfoName};
use rosu_map::section::hit_objects::{
    HitObject, HitObjectKind, HitObjects, HitObjectsState, PathControlPoint, PathType, SplineType,
};
use rosu_map::{DecodeBeatmap, DecodeState};
use serde_json::{json, Value};

// ---------------------------------------------------------------------------
// spelling

fn spell_coord(class: &str, v: i64, rng: &mut Rng) -> String {
    match class {
        "int" => match rng.below(3) {
            0 => format!("{v}.0"),
            1 => format!(" {v} "),
            _ => format!("{v}"),
        },
        "frac" => {
            // magnitude grows, truncation toward zero brings it back to v
            let frac = *rng.pick(&["7", "999", "25", "5"]);
            if v < 0 {
                format!("{v}.{frac}")
            } else if v == 0 {
                (*rng.pick(&["0.7", "-0.7", "0.999"])).to_string()
            } else {
                format!("{v}.{frac}")
            }
        }
        // the position is read in SINGLE precision before it is range-checked and truncated: a text just below v
        // (or just above the limit) is v
        "f32up" => {
            if v == 131072 {
                "131072.001".to_string()
            } else if v == -131072 {
                "-131072.001".to_string()
            } else if v > 0 {
                format!("{}.999999999", v - 1)
            } else {
                format!("{}.999999999", v + 1)
            }
        }
        _ => rng.pick(&["x", "", "NaN", "131073", "-131073", "1e10", "inf", "1e400", "--5"]).to_string(),
    }
}

pub fn spell_bi(bi: &Value, rng: &mut Rng) -> String {
    let n = geti(bi, "n");
    let comp = |class: &str, v: i64, rng: &mut Rng| -> String {
        match class {
            "num" => {
                if rng.chance(1, 5) {
                    format!(" {v}")
                } else {
                    format!("{v}")
                }
            }
            "empty" => String::new(),
            _ => rng.pick(&["x", "1.5", "99999999999", "0x1"]).to_string(),
        }
    };
    let mut c: Vec<String> = vec![];
    if n >= 1 {
        c.push(comp(gets(bi, "b1c"), geti(bi, "b1"), rng));
    }
    if n >= 2 {
        c.push(comp(gets(bi, "b2c"), geti(bi, "b2"), rng));
    }
    if n >= 3 {
        c.push(comp(gets(bi, "cuc"), geti(bi, "cu"), rng));
    }
    if n >= 4 {
        c.push(comp(gets(bi, "voc"), geti(bi, "vo"), rng));
    }
    if n >= 5 {
        c.push(gets(bi, "fn").to_string());
    }
    c.join(":")
}

pub fn spell_token(t: &str, rng: &mut Rng) -> String {
    match t {
        "B" | "L" | "P" | "C" => {
            if rng.chance(1, 4) {
                // only the first character counts ("Bezier", "Linear", ...), but B<digits> is a degree
                match t {
                    "B" => "Bez".into(),
                    "L" => "Lx".into(),
                    "P" => "P1".into(),
                    _ => "Catmull".into(),
                }
            } else {
                t.to_string()
            }
        }
        "X" => rng.pick(&["X", "Q", "b", "l", "p", "z9"]).to_string(),
        "B3" => "B3".to_string(),
        "B0" => rng.pick(&["B0", "B00", "B-0", "B+0", "B-1", "B-2147483648"]).to_string(),
        "O" => rng.pick(&["10:10", "10.9:10.2", "10:10:7"]).to_string(),
        "A" => rng.pick(&["50:30", " 50 : 30 "]).to_string(),
        "A2" => rng.pick(&["50.9:30.2", "50.999:30.5"]).to_string(),
        "Bc" => "90:50".to_string(),
        "G1" => "8203:4107".to_string(),
        "G2" => "16396:8204".to_string(),
        "Cn" => rng.pick(&["100:0", "100:0.4", "100:-0.9"]).to_string(),
        "bad" => rng.pick(&["1:", "5", "1e9:0", ":5", "7:x", "-x:5", "131073:0", "0:-131073"]).to_string(),
        "empty" => String::new(),
        _ => panic!("token {t}"),
    }
}

fn kind_of(ty: i64) -> &'static str {
    if ty & 1 != 0 {
        "circle"
    } else if ty & 2 != 0 {
        "slider"
    } else if ty & 8 != 0 {
        "spinner"
    } else if ty & 128 != 0 {
        "hold"
    } else {
        "unknown"
    }
}

pub fn spell_line(ln: &Value, rng: &mut Rng) -> String {
    let nf = geti(ln, "nf") as usize;
    let mut f: Vec<String> = vec![];
    f.push(spell_coord(gets(ln, "xc"), geti(ln, "x"), rng));
    f.push(spell_coord(gets(ln, "yc"), geti(ln, "y"), rng));
    f.push(match gets(ln, "tc") {
        "ok" => {
            let t = geti(ln, "t");
            if rng.chance(1, 3) {
                format!("{t}.0")
            } else {
                format!("{t}")
            }
        }
        _ => rng.pick(&["x", "", "NaN", "3e9", "-3e9", "inf"]).to_string(),
    });
    let ty = geti(ln, "ty");
    f.push(match gets(ln, "tyc") {
        "num" => {
            if ty >= 0 && rng.chance(1, 6) {
                format!("+{ty}")
            } else {
                format!("{ty}")
            }
        }
        _ => rng.pick(&["x", "", " 1", "1.0", "99999999999"]).to_string(),
    });
    f.push(match gets(ln, "sc") {
        "num" => format!("{}", geti(ln, "snd")),
        _ => rng.pick(&["x", "", " 2", "2.0", "99999999999"]).to_string(),
    });
    let bi = spell_bi(&ln["bi"], rng);
    let end = match gets(ln, "endc") {
        "num" => {
            let e = geti(ln, "end");
            if rng.chance(1, 3) {
                format!("{e}.0")
            } else {
                format!("{e}")
            }
        }
        "empty" => String::new(),
        _ => rng.pick(&["x", "NaN", "3e9"]).to_string(),
    };
    let kind = if gets(ln, "tyc") == "num" { kind_of(ty) } else { "circle" };
    let mut extras: Vec<String> = vec![];
    match kind {
        "slider" => {
            let toks: Vec<String> = geta(ln, "path").iter().map(|t| spell_token(t.as_str().unwrap(), rng)).collect();
            extras.push(toks.join("|"));
            extras.push(match gets(ln, "repc") {
                "num" => format!("{}", geti(ln, "rep")),
                _ => rng.pick(&["x", "", "1.5", "99999999999"]).to_string(),
            });
            extras.push(match gets(ln, "lenc") {
                "num" => {
                    let l = geti(ln, "len");
                    if rng.chance(1, 3) {
                        format!("{l}.0")
                    } else {
                        format!("{l}")
                    }
                }
                "tiny" => rng.pick(&["1e-20", "0.00000000000000000001", "1e-300", "1e-16"]).to_string(),
                _ => rng.pick(&["x", "", "NaN", "131073", "1e400"]).to_string(),
            });
            let ns: Vec<String> = geta(ln, "nsnd")
                .iter()
                .map(|v| {
                    let v = v.as_i64().unwrap();
                    if v < 0 {
                        rng.pick(&["x", "", "2.0"]).to_string()
                    } else {
                        format!("{v}")
                    }
                })
                .collect();
            // an EMPTY field is an absent list, not a list with one unparsable entry
            let joined = ns.join("|");
            extras.push(if joined.is_empty() && !ns.is_empty() { "x".to_string() } else { joined });
            let nb: Vec<String> = geta(ln, "nbank").iter().map(|b| spell_bi(b, rng)).collect();
            extras.push(nb.join("|"));
            extras.push(bi);
        }
        "spinner" => {
            extras.push(end);
            extras.push(bi);
        }
        "hold" => {
            if gets(ln, "endc") == "empty" {
                extras.push(String::new());
            } else if bi.is_empty() && geti(&ln["bi"], "n") == 0 {
                extras.push(end);
            } else {
                extras.push(format!("{end}:{bi}"));
            }
        }
        _ => {
            extras.push(bi);
        }
    }
    for e in extras {
        f.push(e);
    }
    while f.len() < nf {
        f.push(rng.pick(&["", "junk", "0"]).to_string());
    }
    f.truncate(nf);
    let mut s = f.join(",");
    if rng.chance(1, 10) && !s.ends_with(',') {
        s.push_str(" // c");
    }
    s
}

// ---------------------------------------------------------------------------
// projection of the real objects

fn point_name(x: f32, y: f32) -> String {
    match (x as i64, y as i64, x.fract() == 0.0 && y.fract() == 0.0) {
        (10, 10, true) => "O".into(),
        (50, 30, true) => "A".into(),
        (90, 50, true) => "Bc".into(),
        (100, 0, true) => "Cn".into(),
        (8203, 4107, true) => "G1".into(),
        (16396, 8204, true) => "G2".into(),
        _ => format!("?{x}:{y}"),
    }
}

pub fn type_name(pt: Option<PathType>) -> String {
    match pt {
        None => "none".into(),
        Some(p) => match (p.kind, p.degree) {
            (SplineType::BSpline, None) => "B".into(),
            (SplineType::BSpline, Some(d)) => format!("B{d}"),
            (SplineType::Linear, _) => "L".into(),
            (SplineType::PerfectCurve, _) => "P".into(),
            (SplineType::Catmull, _) => "C".into(),
        },
    }
}

pub fn proj_cps(cps: &[PathControlPoint], ox: f32, oy: f32) -> Value {
    Value::Array(cps.iter().map(|c| json!({"p": point_name(c.pos.x + ox, c.pos.y + oy), "ty": type_name(c.path_type)})).collect())
}

pub fn proj_sample(s: &HitSampleInfo) -> Value {
    let (n, fname) = match &s.name {
        HitSampleInfoName::Default(HitSampleDefaultName::Normal) => ("normal", String::new()),
        HitSampleInfoName::Default(HitSampleDefaultName::Whistle) => ("whistle", String::new()),
        HitSampleInfoName::Default(HitSampleDefaultName::Finish) => ("finish", String::new()),
        HitSampleInfoName::Default(HitSampleDefaultName::Clap) => ("clap", String::new()),
        HitSampleInfoName::File(f) => ("file", f.clone()),
    };
    // the suffix is a function of the custom bank index
    let want_suffix = if s.custom_sample_bank >= 2 && n != "file" { Some(s.custom_sample_bank as u32) } else { None };
    let suffix_ok = s.suffix.map(|x| x.get()) == want_suffix;
    let mut v = json!({"n": n, "bank": s.bank as i32, "spec": s.bank_specified, "cu": s.custom_sample_bank,
                       "vo": s.volume, "lay": s.is_layered, "fn": fname});
    if !suffix_ok {
        v["suffix_inconsistent"] = json!(format!("{:?}", s.suffix));
    }
    v
}

pub fn proj_samples(v: &[HitSampleInfo]) -> Value {
    Value::Array(v.iter().map(proj_sample).collect())
}

pub fn proj_obj(h: &HitObject) -> Value {
    let smp = proj_samples(&h.samples);
    let t = num(h.start_time);
    match &h.kind {
        HitObjectKind::Circle(c) => json!({"k": "circle", "x": num(c.pos.x as f64), "y": num(c.pos.y as f64), "t": t,
            "nc": c.new_combo, "co": c.combo_offset, "smp": smp, "cps": [], "rep": 0, "len": -1, "nodes": [], "dur": 0}),
        HitObjectKind::Slider(s) => json!({"k": "slider", "x": num(s.pos.x as f64), "y": num(s.pos.y as f64), "t": t,
            "nc": s.new_combo, "co": s.combo_offset, "smp": smp,
            "cps": proj_cps(s.path.control_points(), s.pos.x, s.pos.y), "rep": s.repeat_count,
            // (a requested length below 1e-15 is the model's class "tiny", shown as 0)
            "len": s.path.expected_dist().map(|l| if l > 0.0 && l < 1e-15 { json!(0) } else { num(l) }).unwrap_or(json!(-1)),
            "nodes": s.node_samples.iter().map(|n| proj_samples(n)).collect::<Vec<_>>(), "dur": 0}),
        HitObjectKind::Spinner(s) => json!({"k": "spinner", "x": num(s.pos.x as f64), "y": num(s.pos.y as f64), "t": t,
            "nc": s.new_combo, "co": 0, "smp": smp, "cps": [], "rep": 0, "len": -1, "nodes": [], "dur": num(s.duration)}),
        HitObjectKind::Hold(s) => json!({"k": "hold", "x": num(s.pos_x as f64), "y": 0, "t": t,
            "nc": false, "co": 0, "smp": smp, "cps": [], "rep": 0, "len": -1, "nodes": [], "dur": num(s.duration)}),
    }
}

fn last_kind(st: &HitObjectsState) -> &'static str {
    match st.hit_objects.last() {
        None => "none",
        Some(h) => match h.kind {
            HitObjectKind::Circle(_) => "circle",
            HitObjectKind::Slider(_) => "slider",
            HitObjectKind::Spinner(_) => "spinner",
            HitObjectKind::Hold(_) => "hold",
        },
    }
}

// ---------------------------------------------------------------------------
pub fn replay(args: &Args, s: &mut Summary) {
    let prop = args.opt("prop").unwrap_or("C14").to_string();
    let spellings = args.opt_usize("spellings", 2);
    let mut rng = Rng::new(args.seed);
    let mut alpha: Vec<Value> = vec![];
    args.for_each_case(|_, c| {
        if let Some(a) = c.get("alpha") {
            alpha = a.as_array().unwrap().clone();
            return;
        }
        s.cases += 1;
        let lines: Vec<&Value> = geta(&c, "h").iter().map(|k| &alpha[k.as_u64().unwrap() as usize - 1]).collect();
        let acc: Vec<bool> = geta(&c, "acc").iter().map(|b| b.as_bool().unwrap()).collect();
        let want_objs = geta(&c, "objs");
        if prop == "C06" {
            if acc.iter().any(|b| !*b) {
                s.nontrivial_key(&c["h"].to_string());
            }
        } else if !want_objs.is_empty() {
            s.nontrivial_key(&c["h"].to_string());
        }
        for sp in 0..spellings {
            let texts: Vec<String> = lines.iter().map(|l| spell_line(l, &mut rng)).collect();
            let label = format!("hitobj replay {texts:?}");
            // (1) step by step on the public state
            let r = guarded(&label, || {
                let mut st = HitObjectsState::create(14);
                let mut steps = vec![];
                for t in &texts {
                    let ok = HitObjects::parse_hit_objects(&mut st, t).is_ok();
                    steps.push((ok, st.hit_objects.len(), st.hit_objects.last().map(proj_obj), st.curve_points.len(),
                                last_kind(&st)));
                }
                let all: Vec<Value> = st.hit_objects.iter().map(proj_obj).collect();
                (steps, all)
            });
            s.checks += 1;
            match r {
                Err(p) => {
                    s.mismatch("panic", json!({"texts": texts, "panic": p, "case": c["h"]}));
                    continue;
                }
                Ok((steps, all)) => {
                    let mut n_acc = 0usize;
                    let mut bad = false;
                    for (i, (ok, n, lastobj, residue_len, _lk)) in steps.iter().enumerate() {
                        if *ok != acc[i] {
                            s.mismatch("accept-verdict", json!({"texts": texts, "line": i + 1, "got": ok, "want": acc[i], "abstract": lines[i]}));
                            bad = true;
                            break;
                        }
                        if *ok {
                            n_acc += 1;
                            // C14 compares the newest object with the model; C06 only needs verdicts and the relations below
                            if prop != "C06" && (*n != n_acc || lastobj.as_ref() != want_objs.get(n_acc - 1)) {
                                s.mismatch(&format!("object:{}", want_objs.get(n_acc - 1).map(|o| gets(o, "k")).unwrap_or("?")),
                                           json!({"texts": texts, "line": i + 1, "got": lastobj, "want": want_objs.get(n_acc - 1)}));
                                bad = true;
                                break;
                            }
                        } else if *n != n_acc {
                            s.mismatch("rejected-line-added-object", json!({"texts": texts, "line": i + 1}));
                            bad = true;
                            break;
                        }
                        // (the scratch list itself is not part of the result: a leak is
                        // visible as a wrong object on a LATER line)
                        let _ = residue_len;
                    }
                    if !bad && prop != "C06" && Value::Array(all.clone()) != c["objs"] {
                        s.mismatch("objects-final", json!({"texts": texts, "want": c["objs"]}));
                    }
                    if !bad && prop == "C06" {
                        // the same lines without the rejected ones, on a fresh state, must give the same objects
                        let only: Vec<Value> = {
                            let mut st = HitObjectsState::create(14);
                            for (i, t) in texts.iter().enumerate() {
                                if acc[i] {
                                    let _ = HitObjects::parse_hit_objects(&mut st, t);
                                }
                            }
                            st.hit_objects.iter().map(proj_obj).collect()
                        };
                        if only != all {
                            s.mismatch("rejected-line-changes-later-objects", json!({"texts": texts, "with_rejected": all, "without": only}));
                        }
                    }
                }
            }
            // (2) model-free C06 relation through the decoder: file == file minus rejected lines
            if sp == 0 {
                let mk = |keep: &dyn Fn(usize) -> bool| {
                    let mut f = String::from("osu file format v14\n\n[HitObjects]\n");
                    for (i, t) in texts.iter().enumerate() {
                        if keep(i) {
                            f.push_str(t);
                            f.push('\n');
                        }
                    }
                    f
                };
                let full = mk(&|_| true);
                let only_acc = mk(&|i| acc[i]);
                let r = guarded(&label, || (rosu_map::from_str::<HitObjects>(&full), rosu_map::from_str::<HitObjects>(&only_acc)));
                s.checks += 1;
                match r {
                    Err(p) => s.mismatch("panic", json!({"file": full, "panic": p})),
                    Ok((Ok(a), Ok(b))) => {
                        let pa: Vec<Value> = a.hit_objects.iter().map(proj_obj).collect();
                        let pb: Vec<Value> = b.hit_objects.iter().map(proj_obj).collect();
                        if a != b || pa != pb {
                            s.mismatch("decode(file)!=decode(file-minus-rejected)", json!({"file": full, "without_rejected": only_acc}));
                        }
                    }
                    Ok(_) => s.mismatch("io-error", json!({"file": full})),
                }
                s.sample(json!({"lines": texts, "acc": acc, "objs": c["objs"]}));
            }
        }
    });
}

// ---------------------------------------------------------------------------
// impl -> spec: random long sequences, one event per line
fn random_bi(rng: &mut Rng) -> Value {
    let cls = |rng: &mut Rng| if rng.chance(1, 25) { "bad" } else if rng.chance(1, 30) { "empty" } else { "num" };
    json!({"n": *rng.pick(&[0, 0, 2, 3, 4, 5, 5, 1]), "b1c": cls(rng), "b1": *rng.pick(&[0, 1, 2, 3, 7]), "b2c": cls(rng), "b2": *rng.pick(&[0, 1, 2, 3, -1]),
           "cuc": cls(rng), "cu": *rng.pick(&[0, 0, 1, 2, 5]), "voc": cls(rng), "vo": *rng.pick(&[0, 0, 40, 100, -9]),
           "fn": *rng.pick(&["", "", "f.wav", "a b.ogg"])})
}

fn random_line(rng: &mut Rng) -> Value {
    let coordc = |rng: &mut Rng| if rng.chance(1, 30) { "bad" } else if rng.chance(1, 6) { "frac" } else { "int" };
    let ty = match rng.below(8) {
        0 => 1,
        1 => 2,
        2 => 8,
        3 => 128,
        4 => *rng.pick(&[5, 6, 12, 21, 38, 9, 10, 132, 0, 4, 64, 255]),
        _ => *rng.pick(&[1, 1, 2, 2, 5, 6]),
    };
    let is_slider = ty & 1 == 0 && ty & 2 != 0;
    // sliders sit at (10,10) so that the four named path points can be recognised
    let (x, y, xc, yc) = if is_slider { (10, 10, "int", "int") } else { (*rng.pick(&[0, 256, 511, -5, 131072, 77]), *rng.pick(&[0, 192, 383, -131072, 12]), coordc(rng), coordc(rng)) };
    let toks = ["B", "L", "P", "C", "O", "A", "Bc", "Cn", "A2", "X", "B3", "B0", "bad", "empty"];
    let npath = 1 + rng.below(6);
    let mut path: Vec<&str> = vec![*rng.pick(&["B", "L", "P", "C", "B", "L", "X", "B3", "A"])];
    for _ in 1..npath {
        path.push(if rng.chance(1, 20) { *rng.pick(&["bad", "empty"]) } else { *rng.pick(&toks[..11]) });
    }
    let t = *rng.pick(&[0, 1000, 1000, 2500, -300, 99999]);
    let nn = rng.below(5);
    json!({"xc": if (xc == "frac") && (x == 131072 || x == -131072) { "int" } else { xc }, "x": x,
           "yc": if (yc == "frac") && (y == 131072 || y == -131072) { "int" } else { yc }, "y": y,
           "tc": if rng.chance(1, 40) { "bad" } else { "ok" }, "t": t,
           "tyc": if rng.chance(1, 40) { "bad" } else { "num" }, "ty": ty,
           "sc": if rng.chance(1, 40) { "bad" } else { "num" }, "snd": *rng.pick(&[0, 0, 2, 4, 8, 14, 1, 258, 255]),
           "nf": *rng.pick(&[4, 5, 6, 6, 7, 8, 8, 9, 10, 11, 11, 12]), "bi": random_bi(rng),
           "path": path, "repc": if rng.chance(1, 30) { "bad" } else { "num" }, "rep": *rng.pick(&[1, 1, 2, 3, 0, -2, 9000, 9001]),
           "lenc": if rng.chance(1, 30) { "bad" } else { "num" }, "len": *rng.pick(&[100, 35, 0, -4, 131072, 250]),
           "nsnd": (0..nn).map(|_| *rng.pick(&[0, 2, 4, 8, 10, -1])).collect::<Vec<_>>(),
           "nbank": (0..rng.below(4)).map(|_| random_bi(rng)).collect::<Vec<_>>(),
           "endc": *rng.pick(&["num", "num", "num", "num", "bad", "empty"]), "end": t + *rng.pick(&[0, 500, -200, 3000])})
}

pub fn record(args: &Args, s: &mut Summary) {
    let trace = args.opt("trace").expect("--trace");
    let runs = args.opt_usize("runs", 10);
    let nlines = args.opt_usize("lines", 100);
    let mut rng = Rng::new(args.seed);
    let mut out: Vec<Value> = vec![];
    for run in 0..runs {
        out.push(json!({"ev": "Reset", "run": run}));
        let mut st = HitObjectsState::create(14);
        for _ in 0..nlines {
            let mut ln = random_line(&mut rng);
            // a huge repeat count makes thousands of node sample lists: keep the trace readable
            if geti(&ln, "rep") == 9000 {
                ln["rep"] = json!(4);
            }
            let text = spell_line(&ln, &mut rng);
            let r = guarded(&format!("hitobj record {text:?}"), || {
                let before = st.hit_objects.len();
                let ok = HitObjects::parse_hit_objects(&mut st, &text).is_ok();
                let obj = if st.hit_objects.len() > before { st.hit_objects.last().map(proj_obj) } else { None };
                (ok, obj, st.hit_objects.len() - before)
            });
            s.checks += 1;
            match r {
                Err(p) => {
                    s.mismatch("panic", json!({"text": text, "panic": p}));
                    break;
                }
                Ok((ok, obj, added)) => {
                    if (ok && added != 1) || (!ok && added != 0) {
                        s.mismatch("verdict-and-object-count-disagree", json!({"text": text, "ok": ok, "added": added}));
                        break;
                    }
                    out.push(json!({"ev": "Line", "ln": ln, "ok": ok, "obj": obj.unwrap_or(json!({"k": "none"})), "text": text}));
                }
            }
        }
        s.cases += 1;
        s.nontrivial_key(&format!("run{run}:{}", out.len()));
    }
    s.sample(json!({"first_events": out.iter().skip(1).take(3).cloned().collect::<Vec<_>>()}));
    s.extra.insert("events".into(), json!(out.len()));
    write_ndjson(trace, &out);
}

/// C06 on long random sequences: the objects of (all lines) == the objects of (only the accepted lines),
/// on the public state and through the decoder.
pub fn c06_relation(args: &Args, s: &mut Summary) {
    let runs = args.opt_usize("runs", 40);
    let nlines = args.opt_usize("lines", 120);
    let mut rng = Rng::new(args.seed);
    for run in 0..runs {
        let lines: Vec<String> = (0..nlines)
            .map(|_| {
                let mut ln = random_line(&mut rng);
                if geti(&ln, "rep") == 9000 {
                    ln["rep"] = json!(3);
                }
                // rejections should be frequent here
                if rng.chance(1, 4) {
                    let k = *rng.pick(&["tc", "tyc", "sc", "repc", "lenc"]);
                    ln[k] = json!("bad");
                }
                spell_line(&ln, &mut rng)
            })
            .collect();
        // a third of the runs are BYTE files: some lines carry bytes that are not valid UTF-8 (inside a number: rejected;
        // inside a file name: accepted); what the parser sees is the lossy conversion of each line
        let bytes_run = run % 3 == 2;
        let blines: Vec<Vec<u8>> = lines.iter().map(|t| {
            let mut b = t.clone().into_bytes();
            if bytes_run && rng.chance(1, 4) {
                let at = rng.below(b.len() + 1);
                b.insert(at, *rng.pick(&[0xE9u8, 0xFF, 0xC3, 0x80]));
            }
            b
        }).collect();
        let lines: Vec<String> = blines.iter().map(|b| String::from_utf8_lossy(b).to_string()).collect();
        let r = guarded(&format!("hitobj c06 run {run}"), || {
            let mut st = HitObjectsState::create(14);
            let verdicts: Vec<bool> = lines.iter().map(|t| HitObjects::parse_hit_objects(&mut st, t).is_ok()).collect();
            let with: Vec<Value> = st.hit_objects.iter().map(proj_obj).collect();
            let mut st2 = HitObjectsState::create(14);
            for (t, ok) in lines.iter().zip(verdicts.iter()) {
                if *ok {
                    let _ = HitObjects::parse_hit_objects(&mut st2, t);
                }
            }
            let without: Vec<Value> = st2.hit_objects.iter().map(proj_obj).collect();
            let file = |keep: &dyn Fn(usize) -> bool| {
                let mut f: Vec<u8> = b"osu file format v14\n\n[HitObjects]\n".to_vec();
                for (i, t) in blines.iter().enumerate() {
                    if keep(i) {
                        f.extend_from_slice(t);
                        f.push(b'\n');
                    }
                }
                f
            };
            let a = rosu_map::from_bytes::<HitObjects>(&file(&|_| true));
            let b = rosu_map::from_bytes::<HitObjects>(&file(&|i| verdicts[i]));
            let same_decode = matches!((&a, &b), (Ok(x), Ok(y)) if x == y);
            (verdicts, with == without, same_decode)
        });
        s.cases += 1;
        s.checks += 2;
        match r {
            Err(p) => s.mismatch("panic", json!({"run": run, "panic": p})),
            Ok((verdicts, same_state, same_decode)) => {
                if verdicts.iter().any(|v| !*v) {
                    s.nontrivial_key(&format!("run{run}"));
                }
                if !same_state {
                    s.mismatch("rejected-line-changes-later-objects", json!({"lines": lines, "verdicts": verdicts}));
                } else if !same_decode {
                    s.mismatch("decode(file)!=decode(file-minus-rejected)", json!({"lines": lines, "verdicts": verdicts}));
                }
            }
        }
    }
    s.sample(json!({"runs": runs, "lines_per_run": nlines}));
}

// ---------------------------------------------------------------------------
// HitObjectLine!EncOf: what the encoder writes for each decoded object of a file (type byte, hit-sound byte,
// position, end, span count, node sounds and node banks, bank info), compared with the model field by field.
pub fn codec(args: &Args, s: &mut Summary) {
    let mut rng = Rng::new(args.seed);
    let mut alpha: Vec<Value> = vec![];
    args.for_each_case(|_, c| {
        if let Some(a) = c.get("alpha") {
            alpha = a.as_array().unwrap().clone();
            return;
        }
        let lines: Vec<&Value> = geta(&c, "h").iter().map(|k| &alpha[k.as_u64().unwrap() as usize - 1]).collect();
        let want = geta(&c, "enc");
        let objs = geta(&c, "objs");
        // the encoder writes objects in time order: only files whose accepted lines are already in that order
        let times: Vec<i64> = objs.iter().map(|o| geti(o, "t")).collect();
        if want.is_empty() || times.windows(2).any(|w| w[1] < w[0]) {
            return;
        }
        s.cases += 1;
        s.nontrivial_key(&c["h"].to_string());
        let texts: Vec<String> = lines.iter().map(|l| spell_line(l, &mut rng)).collect();
        let file = format!("osu file format v14\n\n[HitObjects]\n{}\n", texts.join("\n"));
        let r = guarded(&format!("hitobj codec {texts:?}"), || {
            let mut m = rosu_map::from_str::<rosu_map::Beatmap>(&file).map_err(|e| e.to_string())?;
            m.encode_to_string().map_err(|e| e.to_string())
        });
        s.checks += 1;
        let enc = match r {
            Err(p) => {
                s.mismatch("panic", json!({"texts": texts, "panic": p}));
                return;
            }
            Ok(Err(e)) => {
                s.mismatch("io-error", json!({"texts": texts, "err": e}));
                return;
            }
            Ok(Ok(t)) => t,
        };
        let out: Vec<&str> = enc.lines().skip_while(|l| *l != "[HitObjects]").skip(1).filter(|l| !l.trim().is_empty()).collect();
        if out.len() != want.len() {
            s.mismatch("line-codec:count", json!({"texts": texts, "encoded": out, "want": want.len()}));
            return;
        }
        for (j, (line, w)) in out.iter().zip(want.iter()).enumerate() {
            let f: Vec<&str> = line.split(',').collect();
            let numeq = |a: &str, b: i64| a.trim().parse::<f64>().map_or(false, |x| x == b as f64);
            let kind = gets(&objs[j], "k");
            let bi_text = |b: &Value| format!("{}:{}:{}:{}:{}", geti(b, "b1"), geti(b, "b2"), geti(b, "cu"), geti(b, "vo"), gets(b, "fn"));
            let mut bad: Vec<String> = vec![];
            if f.len() < 5 {
                bad.push("fields".into());
            } else {
                if !numeq(f[0], geti(w, "x")) || !numeq(f[1], geti(w, "y")) {
                    bad.push("position".into());
                }
                if !numeq(f[2], geti(w, "t")) {
                    bad.push("time".into());
                }
                if f[3] != geti(w, "ty").to_string() {
                    bad.push(format!("type byte {} (model {})", f[3], geti(w, "ty")));
                }
                if f[4] != geti(w, "snd").to_string() {
                    bad.push(format!("hit-sound byte {} (model {})", f[4], geti(w, "snd")));
                }
                match kind {
                    "circle" => {
                        if f.get(5).copied() != Some(bi_text(&w["bi"]).as_str()) {
                            bad.push(format!("bank info {:?} (model {})", f.get(5), bi_text(&w["bi"])));
                        }
                    }
                    "spinner" => {
                        if !f.get(5).map_or(false, |x| numeq(x, geti(w, "end"))) || f.get(6).copied() != Some(bi_text(&w["bi"]).as_str()) {
                            bad.push(format!("spinner end / bank info {:?} (model {} / {})", &f[5..], geti(w, "end"), bi_text(&w["bi"])));
                        }
                    }
                    "hold" => {
                        let rest = f[5..].join(",");
                        let (e, b) = rest.split_once(':').unwrap_or((&rest, ""));
                        if !numeq(e, geti(w, "end")) || b != bi_text(&w["bi"]) {
                            bad.push(format!("hold end / bank info {rest:?} (model {}:{})", geti(w, "end"), bi_text(&w["bi"])));
                        }
                    }
                    _ => {
                        // x,y,t,ty,snd,PATH,spans,len,nsnd,nbank,bi
                        if f.len() != 11 {
                            bad.push(format!("{} fields in a slider line", f.len()));
                        } else {
                            if f[6] != geti(w, "spans").to_string() {
                                bad.push(format!("span count {} (model {})", f[6], geti(w, "spans")));
                            }
                            let ns: Vec<String> = geta(w, "nsnd").iter().map(|x| x.to_string()).collect();
                            if f[8] != ns.join("|") {
                                bad.push(format!("node sounds {} (model {})", f[8], ns.join("|")));
                            }
                            let nb: Vec<String> = geta(w, "nbank").iter().map(|b| format!("{}:{}", geti(b, "b1"), geti(b, "b2"))).collect();
                            if f[9] != nb.join("|") {
                                bad.push(format!("node banks {} (model {})", f[9], nb.join("|")));
                            }
                            if f[10] != bi_text(&w["bi"]) {
                                bad.push(format!("bank info {} (model {})", f[10], bi_text(&w["bi"])));
                            }
                        }
                    }
                }
            }
            if !bad.is_empty() {
                s.mismatch(&format!("line-codec:{kind}"), json!({"texts": texts, "object": j + 1, "encoded": line, "differs": bad}));
                break;
            }
        }
        if s.samples.len() < 3 {
            s.sample(json!({"texts": texts, "encoded": out}));
        }
    });
}
