//! TimingLines (C12, timing part of C06): spelling of abstract lines, replay, recording.
use crate::cp::{proj_cp, TimeMap};
use crate::util::*;
use rosu_map::section::hit_objects::HitObjects;
use rosu_map::section::timing_points::{TimingPoints, TimingPointsState};
use rosu_map::{Beatmap, DecodeBeatmap, DecodeState};
use serde_json::{json, Value};

/// tau <-> f64:  tau div 2 = milliseconds, tau odd = +1e-17 (only next to 0)
pub struct Tau;
impl TimeMap for Tau {
    fn real(&self, t: i64) -> f64 {
        if t.rem_euclid(2) == 1 {
            assert!(t.div_euclid(2) == 0, "0+ exists only next to zero");
            1e-17
        } else {
            (t / 2) as f64
        }
    }
    fn abs(&self, x: f64) -> Value {
        if x == 1e-17 {
            json!(1)
        } else if x == x.trunc() && x.abs() < 1e9 && !(x == 0.0 && x.is_sign_negative()) {
            json!((x as i64) * 2)
        } else {
            json!(format!("unmapped-time:{x:?}"))
        }
    }
}

/// rank pool with an optional (0, 1e-17) pair
pub struct TauPool(pub Vec<f64>, pub Vec<i64>);
impl TimeMap for TauPool {
    fn real(&self, t: i64) -> f64 {
        self.0[self.1.iter().position(|x| *x == t).expect("tau in pool")]
    }
    fn abs(&self, x: f64) -> Value {
        match self.0.iter().position(|y| y.to_bits() == x.to_bits()) {
            Some(i) => json!(self.1[i]),
            None => json!(format!("unmapped-time:{x:?}")),
        }
    }
}

fn fmt_time(x: f64, rng: &mut Rng) -> String {
    if x == 1e-17 {
        return rng.pick(&["1e-17", "0.00000000000000001"]).to_string();
    }
    if x == 0.0 && rng.chance(1, 4) {
        // the sign of zero is a spelling matter: `-0` is the same point in time as `0`
        return rng.pick(&["-0", "-0.0", "0e0"]).to_string();
    }
    if x == x.trunc() {
        match rng.below(4) {
            0 => format!("{}.0", x as i64),
            1 => format!(" {} ", x as i64),
            _ => format!("{}", x as i64),
        }
    } else {
        format!("{x}")
    }
}

pub fn spell_line(ln: &Value, tm: &dyn TimeMap, rng: &mut Rng) -> String {
    let nf = geti(ln, "nf");
    let mut f: Vec<String> = vec![];
    f.push(match gets(ln, "tc") {
        "ok" => fmt_time(tm.real(geti(ln, "tau")), rng),
        _ => rng.pick(&["abc", "", "NaN", "1e400", "3e9", "-3e9", "inf"]).to_string(),
    });
    f.push(match gets(ln, "blc") {
        "num" => {
            let b = geti(ln, "bl");
            if rng.chance(1, 3) {
                format!("{b}.0")
            } else {
                format!("{b}")
            }
        }
        "nan" => rng.pick(&["NaN", "nan", " NaN "]).to_string(),
        _ => rng.pick(&["x", "3e9", "-3e9", "1e400", "", "inf", "-inf"]).to_string(),
    });
    if nf >= 3 {
        f.push(match gets(ln, "sigc") {
            "zero" => rng.pick(&["0", "04", "0x", "0.5"]).to_string(),
            "num" => format!("{}", geti(ln, "sig")),
            _ => rng.pick(&["x", "", "1.5", "99999999999"]).to_string(),
        });
    }
    let numf = |class: &str, val: i64, rng: &mut Rng| -> String {
        match class {
            "num" => {
                if rng.chance(1, 4) {
                    format!(" {val} ")
                } else {
                    format!("{val}")
                }
            }
            _ => rng.pick(&["x", "", "1.5", "99999999999", "-99999999999"]).to_string(),
        }
    };
    if nf >= 4 {
        f.push(numf(gets(ln, "bankc"), geti(ln, "bank"), rng));
    }
    if nf >= 5 {
        f.push(numf(gets(ln, "custc"), geti(ln, "custom"), rng));
    }
    if nf >= 6 {
        f.push(numf(gets(ln, "volc"), geti(ln, "vol"), rng));
    }
    if nf >= 7 {
        f.push(if getb(ln, "unin") {
            rng.pick(&["1", "1", "1abc", "10"]).to_string()
        } else {
            rng.pick(&["0", "0", "", "2", "x", " 1", "01"]).to_string()
        });
    }
    if nf >= 8 {
        f.push(match gets(ln, "flagc") {
            "num" => {
                let v = geti(ln, "flags");
                if rng.chance(1, 5) {
                    format!("+{v}")
                } else {
                    format!("{v}")
                }
            }
            _ => rng.pick(&["x", "", " 1", "1.0", "99999999999"]).to_string(),
        });
        if rng.chance(1, 6) {
            f.push("extra".into());
        }
    }
    let mut s = f.join(",");
    if rng.chance(1, 8) {
        s.push_str(" // c");
    }
    s
}

pub fn header(g: &Value, rng: &mut Rng) -> String {
    let mode = match gets(g, "mode") {
        "osu" => 0,
        "taiko" => 1,
        "catch" => 2,
        _ => 3,
    };
    let mut s = String::from("osu file format v14\n\n[General]\n");
    if mode != 0 || rng.chance(1, 2) {
        s.push_str(&format!("Mode: {mode}\n"));
    }
    match geti(g, "bank") {
        0 => {
            if rng.chance(1, 2) {
                s.push_str("SampleSet: None\n");
            }
        }
        1 => s.push_str("SampleSet: Normal\n"),
        2 => s.push_str(*rng.pick(&["SampleSet: Soft\n", "SampleSet: 2\n"])),
        _ => s.push_str("SampleSet: Drum\n"),
    }
    let v = geti(g, "vol");
    if v != 100 || rng.chance(1, 2) {
        s.push_str(&format!("SampleVolume: {v}\n"));
    }
    s.push_str("\n[TimingPoints]\n");
    s
}

fn general_lines(g: &Value) -> Vec<String> {
    let mode = match gets(g, "mode") {
        "osu" => 0,
        "taiko" => 1,
        "catch" => 2,
        _ => 3,
    };
    let bank = ["None", "Normal", "Soft", "Drum"][geti(g, "bank") as usize];
    vec![format!("Mode: {mode}"), format!("SampleSet: {bank}"), format!("SampleVolume: {}", geti(g, "vol"))]
}

pub fn replay(args: &Args, s: &mut Summary) {
    let prop = args.opt("prop").unwrap_or("C12").to_string();
    let spellings = args.opt_usize("spellings", 2);
    let mut rng = Rng::new(args.seed);
    let mut alpha: Vec<Value> = vec![];
    let tm = Tau;
    args.for_each_case(|_, c| {
        if let Some(a) = c.get("alpha") {
            alpha = a.as_array().unwrap().clone();
            return;
        }
        s.cases += 1;
        let g = &c["g"];
        let lines: Vec<&Value> = geta(&c, "h").iter().map(|k| &alpha[k.as_u64().unwrap() as usize - 1]).collect();
        let acc: Vec<bool> = geta(&c, "acc").iter().map(|b| b.as_bool().unwrap()).collect();
        if acc.iter().any(|b| *b) {
            s.nontrivial_key(&format!("{}|{}", g, c["h"]));
        }
        for sp in 0..spellings {
            let texts: Vec<String> = lines.iter().map(|l| spell_line(l, &tm, &mut rng)).collect();
            let mut text = header(g, &mut rng);
            for t in &texts {
                text.push_str(t);
                text.push_str(if rng.chance(1, 4) { "\r\n" } else { "\n" });
            }
            if prop == "C07" {
                let d = guarded("c07", || crate::framing::c07_diffs(text.as_bytes()));
                s.checks += 8;
                match d {
                    Err(p) => s.mismatch("panic", json!({"text": text, "panic": p})),
                    Ok(d) if !d.is_empty() => s.mismatch(&format!("c07:{}", d[0].split('.').next().unwrap_or("")), json!({"text": text, "diffs": d})),
                    Ok(_) => {}
                }
                continue;
            }
            let label = format!("timing replay {text:?}");
            let r = guarded(&label, || {
                let tp = rosu_map::from_str::<TimingPoints>(&text).map(|t| proj_cp(&t.control_points, &tm));
                let mut per_line = vec![];
                let mut other = vec![];
                if sp == 0 {
                    let mut st = TimingPointsState::create(14);
                    for gl in general_lines(g) {
                        let _ = TimingPoints::parse_general(&mut st, &gl);
                    }
                    for t in &texts {
                        per_line.push(TimingPoints::parse_timing_points(&mut st, t).is_ok());
                    }
                    let fin: TimingPoints = st.into();
                    other.push(("state-api", proj_cp(&fin.control_points, &tm)));
                    if let Ok(h) = rosu_map::from_str::<HitObjects>(&text) {
                        other.push(("HitObjects", proj_cp(&h.control_points, &tm)));
                    }
                    if let Ok(b) = rosu_map::from_str::<Beatmap>(&text) {
                        other.push(("Beatmap", proj_cp(&b.control_points, &tm)));
                    }
                }
                (tp, per_line, other)
            });
            s.checks += 1;
            match r {
                Err(p) => s.mismatch("panic", json!({"case": c, "text": text, "panic": p})),
                Ok((Err(e), _, _)) => s.mismatch("io-error", json!({"case": c, "text": text, "err": e.to_string()})),
                Ok((Ok(cp), per_line, _)) if prop == "C06" => {
                    // C06: the verdicts, and decode(file) == decode(file minus rejected lines)
                    if sp == 0 && per_line != acc {
                        s.mismatch("accept-verdict", json!({"case": c, "text": text, "got": per_line}));
                    } else {
                        let mut only = header(g, &mut Rng::new(1));
                        for (i, t) in texts.iter().enumerate() {
                            if acc[i] {
                                only.push_str(t);
                                only.push('\n');
                            }
                        }
                        match rosu_map::from_str::<TimingPoints>(&only) {
                            Ok(o) if proj_cp(&o.control_points, &tm) == cp => {}
                            _ => s.mismatch("decode(file)!=decode(file-minus-rejected)", json!({"file": text, "without_rejected": only})),
                        }
                    }
                }
                Ok((Ok(cp), per_line, other)) => {
                    if cp != c["cp"] {
                        s.mismatch("control-points", json!({"case": c, "text": text, "got": cp,
                            "lines": lines}));
                    } else if sp == 0 {
                        if per_line != acc {
                            s.mismatch("accept-verdict", json!({"case": c, "text": text, "got": per_line}));
                        }
                        for (name, v) in other {
                            s.checks += 1;
                            if v != c["cp"] {
                                s.mismatch(&format!("control-points-via-{name}"), json!({"case": c, "text": text, "got": v}));
                            }
                        }
                    }
                }
            }
            if sp == 0 {
                s.sample(json!({"text": text, "cp": c["cp"]}));
            }
        }
    });
}

/// impl -> spec: long random unsorted sequences, flushed view after every line.
pub fn record(args: &Args, s: &mut Summary) {
    let trace = args.opt("trace").expect("--trace");
    let runs = args.opt_usize("runs", 6);
    let nlines = args.opt_usize("lines", 120);
    let mut rng = Rng::new(args.seed);
    let mut out: Vec<Value> = vec![];
    for run in 0..runs {
        // pool of times: multiples of 1/8 (distinct values differ by >= EPSILON), plus 0 and 0+
        let mut reals: Vec<f64> = vec![0.0, 1e-17];
        while reals.len() < 10 + rng.below(8) {
            let x = (rng.below(400000) as f64 - 100000.0) / 8.0;
            if x.abs() > 0.5 && !reals.contains(&x) {
                reals.push(x);
            }
        }
        reals.sort_by(|a, b| a.total_cmp(b));
        let zero = reals.iter().position(|x| *x == 0.0).unwrap() as i64;
        // tau: 2*(rank - rank(0)) for ordinary values, 1 for 0+; ranks above 0+ shift down by one
        let taus: Vec<i64> = reals
            .iter()
            .enumerate()
            .map(|(i, x)| {
                let i = i as i64;
                if *x == 1e-17 {
                    1
                } else if i > zero {
                    2 * (i - 1 - zero)
                } else {
                    2 * (i - zero)
                }
            })
            .collect();
        let tm = TauPool(reals.clone(), taus.clone());
        let g = json!({"mode": *rng.pick(&["osu", "taiko", "catch", "mania"]), "bank": *rng.pick(&[0, 1, 2, 3]),
                        "vol": *rng.pick(&[100, 60, 0])});
        out.push(json!({"ev": "Reset", "g": g, "run": run}));
        let head = header(&g, &mut rng);
        let mut body = String::new();
        let mut st = TimingPointsState::create(14);
        for gl in general_lines(&g) {
            let _ = TimingPoints::parse_general(&mut st, &gl);
        }
        // a few "hot" times so that groups and replacements actually happen
        let hot: Vec<i64> = (0..4).map(|_| *rng.pick(&taus)).collect();
        for _ in 0..nlines {
            let tau = if rng.chance(2, 3) { *rng.pick(&hot) } else { *rng.pick(&taus) };
            let unin = rng.chance(1, 2);
            let cls = |rng: &mut Rng, p: u64| if rng.chance(p, 100) { "bad" } else { "num" };
            let ln = json!({
                "tc": if rng.chance(3, 100) { "bad" } else { "ok" }, "tau": tau,
                "blc": if rng.chance(6, 100) { "nan" } else if rng.chance(3, 100) { "bad" } else { "num" },
                "bl": if unin { *rng.pick(&[500, 250, 1000, 6, 1, 60000, 100000, 0]) } else { *rng.pick(&[-100, -50, -200, -25, -400, -1000, -10, -5, -1, -100000, 500]) },
                "nf": *rng.pick(&[8, 8, 8, 8, 7, 6, 5, 4, 3, 2]),
                "sigc": if rng.chance(1, 10) { "zero" } else { cls(&mut rng, 2) }, "sig": *rng.pick(&[4, 4, 3, 7, -1]),
                "bankc": cls(&mut rng, 2), "bank": *rng.pick(&[0, 1, 2, 3, 7, -1]),
                "custc": cls(&mut rng, 2), "custom": *rng.pick(&[0, 0, 1, 2, 5]),
                "volc": cls(&mut rng, 2), "vol": *rng.pick(&[100, 50, 0, 150, -5, 30]),
                "unin": unin,
                "flagc": cls(&mut rng, 2), "flags": *rng.pick(&[0, 1, 8, 9, 2, 3]),
            });
            let text = spell_line(&ln, &tm, &mut rng);
            body.push_str(&text);
            body.push('\n');
            let full = format!("{head}{body}");
            let r = guarded(&format!("timing record {full:?}"), || {
                let ok = TimingPoints::parse_timing_points(&mut st, &text).is_ok();
                let flushed = rosu_map::from_str::<TimingPoints>(&full).map(|t| proj_cp(&t.control_points, &tm));
                (ok, flushed)
            });
            s.checks += 1;
            match r {
                Err(p) => {
                    s.mismatch("panic", json!({"text": full, "panic": p}));
                    break;
                }
                Ok((_, Err(e))) => {
                    s.mismatch("io-error", json!({"text": full, "err": e.to_string()}));
                    break;
                }
                Ok((ok, Ok(flushed))) => out.push(json!({"ev": "Line", "ln": ln, "ok": ok, "flushed": flushed, "text": text})),
            }
        }
        s.cases += 1;
        s.nontrivial_key(&body);
        if run == 0 {
            s.sample(json!({"general": g, "first_lines": body.lines().take(6).collect::<Vec<_>>()}));
        }
    }
    s.extra.insert("events".into(), json!(out.len()));
    write_ndjson(trace, &out);
}

/// C06 on long random timing sections: decode(file) == decode(file minus the rejected lines)
pub fn c06_relation(args: &Args, s: &mut Summary) {
    let runs = args.opt_usize("runs", 60);
    let nlines = args.opt_usize("lines", 60);
    let mut rng = Rng::new(args.seed);
    let tm = Tau;
    for run in 0..runs {
        let g = json!({"mode": *rng.pick(&["osu", "taiko", "catch", "mania"]), "bank": *rng.pick(&[0, 2]), "vol": *rng.pick(&[100, 60])});
        let taus = [0i64, 0, 20, 20, 40, 200, -10, 1];
        let texts: Vec<String> = (0..nlines)
            .map(|_| {
                let unin = rng.chance(1, 2);
                let bad = |rng: &mut Rng, p: u64| if rng.chance(p, 100) { "bad" } else { "num" };
                let ln = json!({
                    "tc": if rng.chance(5, 100) { "bad" } else { "ok" }, "tau": *rng.pick(&taus),
                    "blc": if rng.chance(8, 100) { "nan" } else if rng.chance(6, 100) { "bad" } else { "num" },
                    "bl": if unin { *rng.pick(&[500, 250, 400]) } else { *rng.pick(&[-100, -50, -200, 500]) },
                    "nf": *rng.pick(&[8, 8, 8, 7, 6, 4, 2]),
                    "sigc": bad(&mut rng, 8), "sig": *rng.pick(&[4, 3, -1]),
                    "bankc": bad(&mut rng, 8), "bank": *rng.pick(&[1, 2, 3]),
                    "custc": bad(&mut rng, 8), "custom": *rng.pick(&[0, 2]),
                    "volc": bad(&mut rng, 8), "vol": *rng.pick(&[100, 50]),
                    "unin": unin, "flagc": bad(&mut rng, 8), "flags": *rng.pick(&[0, 1, 8]),
                });
                spell_line(&ln, &tm, &mut rng)
            })
            .collect();
        let head = header(&g, &mut rng);
        let r = guarded(&format!("timing c06 run {run}"), || {
            let mut st = TimingPointsState::create(14);
            for gl in general_lines(&g) {
                let _ = TimingPoints::parse_general(&mut st, &gl);
            }
            let verdicts: Vec<bool> = texts.iter().map(|t| TimingPoints::parse_timing_points(&mut st, t).is_ok()).collect();
            let file = |keep: &dyn Fn(usize) -> bool| {
                let mut f = head.clone();
                for (i, t) in texts.iter().enumerate() {
                    if keep(i) {
                        f.push_str(t);
                        f.push('\n');
                    }
                }
                f
            };
            let a = rosu_map::from_str::<TimingPoints>(&file(&|_| true));
            let b = rosu_map::from_str::<TimingPoints>(&file(&|i| verdicts[i]));
            (verdicts, matches!((&a, &b), (Ok(x), Ok(y)) if x == y), file(&|_| true))
        });
        s.cases += 1;
        s.checks += 1;
        match r {
            Err(p) => s.mismatch("panic", json!({"run": run, "panic": p})),
            Ok((verdicts, same, file)) => {
                if verdicts.iter().any(|v| !*v) {
                    s.nontrivial_key(&format!("run{run}"));
                }
                if !same {
                    s.mismatch("decode(file)!=decode(file-minus-rejected)", json!({"file": file, "verdicts": verdicts}));
                }
            }
        }
    }
    s.sample(json!({"runs": runs, "lines_per_run": nlines}));
}


/// SectionOrder: [General] blocks between timing lines
pub fn order_replay(args: &Args, s: &mut Summary) {
    let mut rng = Rng::new(args.seed);
    let mut alpha: Vec<Value> = vec![];
    let tm = Tau;
    args.for_each_case(|_, c| {
        if let Some(a) = c.get("alpha") {
            alpha = a.as_array().unwrap().clone();
            return;
        }
        s.cases += 1;
        let lines: Vec<&Value> = geta(&c, "h").iter().map(|k| &alpha[k.as_u64().unwrap() as usize - 1]).collect();
        let gh = geta(&c, "gh");
        if !gh.is_empty() && !lines.is_empty() {
            s.nontrivial_key(&format!("{}|{}|{}", c["g0"], c["gh"], c["h"]));
        }
        let general_block = |g: &Value| {
            let gl = general_lines(g);
            format!("[General]\n{}\n{}\n{}\n", gl[0], gl[1], gl[2])
        };
        let mut text = String::from("osu file format v14\n\n");
        text.push_str(&general_block(&c["g0"]));
        text.push_str("\n[TimingPoints]\n");
        for (j, l) in lines.iter().enumerate() {
            for sw in gh {
                if geti(sw, "at") as usize == j {
                    text.push_str(&general_block(&sw["g"]));
                    text.push_str("[TimingPoints]\n");
                }
            }
            text.push_str(&spell_line(l, &tm, &mut rng));
            text.push('\n');
        }
        for sw in gh {
            if geti(sw, "at") as usize == lines.len() {
                text.push_str(&general_block(&sw["g"]));
            }
        }
        let r = guarded(&format!("order replay {text:?}"), || {
            (rosu_map::from_str::<TimingPoints>(&text).map(|t| proj_cp(&t.control_points, &tm)),
             rosu_map::from_str::<Beatmap>(&text).map(|t| proj_cp(&t.control_points, &tm)))
        });
        s.checks += 2;
        match r {
            Err(p) => s.mismatch("panic", json!({"text": text, "panic": p})),
            Ok((Ok(a), Ok(b))) => {
                if a != c["cp"] {
                    s.mismatch("control-points:general-between-lines", json!({"text": text, "got": a, "want": c["cp"]}));
                } else if b != c["cp"] {
                    s.mismatch("control-points-via-Beatmap:general-between-lines", json!({"text": text, "got": b, "want": c["cp"]}));
                }
            }
            Ok(_) => s.mismatch("io-error", json!({"text": text})),
        }
        s.sample(json!({"text": text, "cp": c["cp"]}));
    });
}

/// TimingLines!Shape evaluated on real output far outside the model's time alphabet: fractional times,
/// signed zeros, sub-EPSILON neighbours, exponents.  Every list must be strictly increasing under the
/// numeric order and respect the clamps.
pub fn shape_relation(args: &Args, s: &mut Summary) {
    let runs = args.opt_usize("runs", 200);
    let mut rng = Rng::new(args.seed);
    // "merely repeats" means EQUAL values: velocities one unit in the last place apart are different values (the model's
    // velocities are multiples of 1/1000, so this is checked here, outside it)
    for (text, want) in [("0,500,4,1,0,100,1,0\n10,-100.00000000000001,4,1,0,100,0,0\n", 1usize),
                         ("0,500,4,1,0,100,1,0\n0,-200,4,1,0,100,0,0\n10,-199.99999999999997,4,1,0,100,0,0\n", 2),
                         ("0,500,4,1,0,100,1,0\n10,-100,4,1,0,100,0,0\n", 0)] {
        let file = format!("osu file format v14\n\n[TimingPoints]\n{text}");
        s.checks += 1;
        match guarded("ulp velocities", || rosu_map::from_str::<TimingPoints>(&file)) {
            Ok(Ok(tp)) => {
                if tp.control_points.difficulty_points.len() != want {
                    s.mismatch("velocity-within-epsilon-dropped", json!({"text": file, "difficulty_points": tp.control_points.difficulty_points.len(), "want": want}));
                }
            }
            _ => s.mismatch("io-error", json!({"text": file})),
        }
    }
    let times = ["0", "-0", "0.0", "-0.0", "1e-17", "-1e-17", "10", "10.0", "1e1", "9.999999999999999", "-5", "-5.5", "20", "1e3", "0.5", "2147483647", "-2147483647"];
    for run in 0..runs {
        let mode = rng.below(4);
        let mut text = format!("osu file format v14\n\n[General]\nMode: {mode}\n\n[TimingPoints]\n");
        for _ in 0..(2 + rng.below(25)) {
            let unin = rng.chance(1, 2);
            let bl = if unin { *rng.pick(&["500", "0.001", "1e9", "250.5"]) } else { *rng.pick(&["-100", "-0.001", "-1e9", "-33.3", "NaN", "-50"]) };
            text.push_str(&format!("{},{},{},{},{},{},{},{}\n", rng.pick(&times), bl, rng.pick(&["4", "3"]), rng.pick(&["1", "2", "0"]), rng.pick(&["0", "2"]),
                                   rng.pick(&["100", "50", "200", "-3"]), if unin { 1 } else { 0 }, rng.pick(&["0", "1", "8"])));
        }
        let r = guarded(&format!("shape {text:?}"), || rosu_map::from_str::<TimingPoints>(&text));
        s.cases += 1;
        s.checks += 1;
        match r {
            Err(p) => s.mismatch("panic", json!({"text": text, "panic": p})),
            Ok(Err(_)) => s.mismatch("io-error", json!({"text": text})),
            Ok(Ok(tp)) => {
                let cp = &tp.control_points;
                let inc = |v: Vec<f64>| v.windows(2).all(|w| w[0] < w[1]);
                let mut bad: Vec<&str> = vec![];
                if !inc(cp.timing_points.iter().map(|p| p.time).collect()) {
                    bad.push("timing");
                }
                if !inc(cp.difficulty_points.iter().map(|p| p.time).collect()) {
                    bad.push("difficulty");
                }
                if !inc(cp.effect_points.iter().map(|p| p.time).collect()) {
                    bad.push("effect");
                }
                if !inc(cp.sample_points.iter().map(|p| p.time).collect()) {
                    bad.push("sample");
                }
                if !bad.is_empty() {
                    let signed_zero = text.contains("\n-0,") || text.contains("\n-0.0,");
                    s.mismatch(if signed_zero { "not-strictly-increasing:signed-zero" } else { "not-strictly-increasing" }, json!({"lists": bad, "text": text}));
                }
                let scrolling = mode == 1 || mode == 3;
                let clamps = cp.timing_points.iter().all(|p| (6.0..=60000.0).contains(&p.beat_len))
                    && cp.difficulty_points.iter().all(|p| (0.1..=10.0).contains(&p.slider_velocity) && (p.generate_ticks || p.slider_velocity == 1.0))
                    && cp.effect_points.iter().all(|p| (0.01..=10.0).contains(&p.scroll_speed) && (scrolling || p.scroll_speed == 1.0))
                    && cp.sample_points.iter().all(|p| (0..=100).contains(&p.sample_volume));
                if !clamps {
                    s.mismatch("clamp-violated", json!({"text": text}));
                }
                if !cp.timing_points.is_empty() {
                    s.nontrivial_key(&format!("run{run}"));
                }
            }
        }
    }
    s.sample(json!({"runs": runs, "times": times}));
}
