//! Reader / Writer (C08, C09, C10): scheduled / faulting BufRead and Write objects,
//! replay of TLC behaviours, model-free relations on real files.
use crate::framing::{self, bundled_files, classify, encode_text, text_of_bundled, ENCODINGS};
use crate::util::*;
use rosu_map::{Beatmap, DecodeBeatmap};
use serde_json::{json, Value};
use std::io::{self, BufRead, ErrorKind, Read, Write};

pub fn kind_of(name: &str) -> ErrorKind {
    match name {
        "Other" => ErrorKind::Other,
        "UnexpectedEof" => ErrorKind::UnexpectedEof,
        "PermissionDenied" => ErrorKind::PermissionDenied,
        "TimedOut" => ErrorKind::TimedOut,
        "WouldBlock" => ErrorKind::WouldBlock,
        "InvalidData" => ErrorKind::InvalidData,
        "InvalidInput" => ErrorKind::InvalidInput,
        "BrokenPipe" => ErrorKind::BrokenPipe,
        "NotFound" => ErrorKind::NotFound,
        "WriteZero" => ErrorKind::WriteZero,
        "OutOfMemory" => ErrorKind::OutOfMemory,
        k => panic!("kind {k}"),
    }
}
pub const KINDS: [&str; 11] = ["Other", "UnexpectedEof", "PermissionDenied", "TimedOut", "WouldBlock", "InvalidData", "InvalidInput", "BrokenPipe",
                               "NotFound", "WriteZero", "OutOfMemory"];
/// the model's fault kind "Other" stands for any kind that is neither Interrupted nor UnexpectedEof
const OTHER_KINDS: [&str; 10] = ["Other", "InvalidData", "PermissionDenied", "TimedOut", "WouldBlock", "InvalidInput", "BrokenPipe", "NotFound", "WriteZero",
                                 "OutOfMemory"];

/// A BufRead that hands out the bytes in the given chunk sizes (0 = report Interrupted once),
/// then in chunks of `rest`; fails for good with `fault` when asked for the byte at that offset.
pub struct ScheduledReader<'a> {
    pub data: &'a [u8],
    pub pos: usize,
    pub win: usize,
    pub sched: Vec<usize>,
    pub next: usize,
    pub rest: usize,
    pub fault: Option<(usize, ErrorKind)>,
    pub calls_after_fail: usize,
    failed: bool,
}
impl<'a> ScheduledReader<'a> {
    pub fn new(data: &'a [u8], sched: Vec<usize>, rest: usize, fault: Option<(usize, ErrorKind)>) -> Self {
        ScheduledReader { data, pos: 0, win: 0, sched, next: 0, rest: rest.max(1), fault, calls_after_fail: 0, failed: false }
    }
}
impl BufRead for ScheduledReader<'_> {
    fn fill_buf(&mut self) -> io::Result<&[u8]> {
        if self.failed {
            self.calls_after_fail += 1;
        }
        if self.win == 0 && self.pos < self.data.len() {
            if let Some((off, kind)) = self.fault {
                if off == self.pos {
                    self.failed = true;
                    return Err(io::Error::new(kind, "injected fault"));
                }
            }
            let mut n = if self.next < self.sched.len() {
                self.next += 1;
                self.sched[self.next - 1]
            } else {
                self.rest
            };
            if n == 0 {
                return Err(io::Error::new(ErrorKind::Interrupted, "injected interrupt"));
            }
            n = n.min(self.data.len() - self.pos);
            if let Some((off, _)) = self.fault {
                if off > self.pos {
                    n = n.min(off - self.pos);
                }
            }
            self.win = n;
        }
        Ok(&self.data[self.pos..self.pos + self.win])
    }
    fn consume(&mut self, amt: usize) {
        let amt = amt.min(self.win);
        self.pos += amt;
        self.win -= amt;
        framing::CONSUMED.with(|c| *c.borrow_mut() = self.pos);
    }
}
impl Read for ScheduledReader<'_> {
    fn read(&mut self, buf: &mut [u8]) -> io::Result<usize> {
        let avail = self.fill_buf()?;
        let n = avail.len().min(buf.len());
        buf[..n].copy_from_slice(&avail[..n]);
        self.consume(n);
        Ok(n)
    }
}

/// lossy text of one raw line in the given encoding (the property's reference: std's lossy conversions;
/// an odd trailing byte of a UTF-16 line is dropped)
pub fn lossy_line(raw: &[u8], enc: &str) -> String {
    match enc {
        "utf8" => String::from_utf8_lossy(raw).into_owned(),
        "le" | "be" => {
            let units: Vec<u16> = raw
                .chunks_exact(2)
                .map(|c| if enc == "le" { u16::from_le_bytes([c[0], c[1]]) } else { u16::from_be_bytes([c[0], c[1]]) })
                .collect();
            String::from_utf16_lossy(&units)
        }
        e => panic!("enc {e}"),
    }
}

fn bytes_of(v: &Value) -> Vec<u8> {
    v.as_array().unwrap().iter().map(|b| b.as_u64().unwrap() as u8).collect()
}

type Deliv = Vec<(String, String)>;

fn run_recording<R: BufRead>(rd: R) -> Result<(i32, Deliv), ErrorKind> {
    match framing::Out::decode(rd) {
        Ok(o) => Ok((o.0.version, framing::DELIVERIES.with(|d| d.borrow().iter().map(|(a, b, _)| (a.clone(), b.clone())).collect()))),
        Err(e) => Err(e.kind()),
    }
}

/// spec -> impl: (file, schedule, fault) behaviours of Reader.tla
pub fn replay(args: &Args, s: &mut Summary) {
    let prop = args.opt("prop").unwrap_or("C08").to_string();
    let mut rng = Rng::new(args.seed);
    args.for_each_case(|_, c| {
        s.cases += 1;
        let file = bytes_of(&c["file"]);
        let sched: Vec<usize> = geta(&c, "sched").iter().map(|x| x.as_u64().unwrap() as usize).collect();
        let foff = geti(&c["fault"], "off");
        let conc = |name: &str| if name == "Other" { kind_of(OTHER_KINDS[(s.cases as usize) % OTHER_KINDS.len()]) } else { kind_of(name) };
        let fault = if foff >= 0 { Some((foff as usize, conc(gets(&c["fault"], "kind")))) } else { None };
        let want_kind = if gets(&c, "result") == "ok" { None } else { Some(conc(gets(&c, "result"))) };
        let enc = gets(&c, "enc");
        let want_res = gets(&c, "result");
        // expected deliveries: the model's raw lines -> text -> the framing rule
        let texts: Vec<String> = geta(&c, "lines").iter().map(|l| lossy_line(&bytes_of(l), enc).trim_end().to_string()).collect();
        let (want_version, want_deliv) = framing::framing_ref(&texts);
        if geta(&c, "lines").len() > 1 || fault.is_some() {
            s.nontrivial_key(&format!("{}|{}", c["file"], c["fault"]));
        }
        // the witness schedule of the model, plus seeded other schedules of the same bytes
        let mut scheds: Vec<(Vec<usize>, usize)> = vec![(sched.clone(), 1)];
        if prop == "C10" {
            // text encoding is not about delivery: one plain chunk (delivery is C08's, interruptions C08/C09's)
            scheds = vec![(vec![], file.len().max(1))];
        } else if fault.is_none() {
            scheds.push((vec![], file.len().max(1)));
            for _ in 0..3 {
                let n = rng.below(10);
                scheds.push(((0..n).map(|_| rng.below(5)).collect(), 1 + rng.below(4)));
            }
        } else {
            scheds.push((vec![], 1 + rng.below(4)));
            scheds.push(((0..6).map(|_| rng.below(4)).collect(), 1 + rng.below(8)));
        }
        // C08 compares every delivery with the single-chunk delivery of the same bytes (the property
        // is about delivery only); C10 compares with the model's lines; C09 with the model's result.
        let base = if prop == "C08" && fault.is_none() {
            guarded("reader base", || run_recording(ScheduledReader::new(&file, vec![], file.len().max(1), None))).ok()
        } else {
            None
        };
        for (sc, rest) in scheds {
            let label = format!("reader replay file={:?} sched={:?} rest={rest} fault={:?}", file, sc, fault);
            let r = guarded(&label, || {
                let rd = ScheduledReader::new(&file, sc.clone(), rest, fault);
                run_recording(rd)
            });
            s.checks += 1;
            let r = match r {
                Err(p) => {
                    s.mismatch("panic", json!({"file": file, "sched": sc, "panic": p}));
                    continue;
                }
                Ok(r) => r,
            };
            match prop.as_str() {
                "C08" => {
                    if fault.is_none() {
                        if base.as_ref() != Some(&r) {
                            s.mismatch("schedule-dependent", json!({"file": file, "sched": sc, "rest": rest, "got": format!("{r:?}"), "single_chunk": format!("{base:?}")}));
                        }
                    }
                }
                "C09" => match (&r, want_res) {
                    (Ok(_), "ok") => {
                        // "Interrupted conditions are retried transparently and do not change the outcome": the same
                        // chunks without the interruptions give the same result
                        if fault.is_none() && sc.contains(&0) {
                            let plain: Vec<usize> = sc.iter().cloned().filter(|x| *x != 0).collect();
                            let r2 = guarded("reader without interruptions", || run_recording(ScheduledReader::new(&file, plain.clone(), rest, None)));
                            s.checks += 1;
                            if r2.as_ref().ok() != Some(&r) {
                                s.mismatch("interruption-changes-the-outcome", json!({"file": file, "sched": sc, "rest": rest, "got": format!("{r:?}"), "without": format!("{r2:?}")}));
                            }
                        }
                    }
                    (Ok((_, d)), _) => s.mismatch("fault-swallowed", json!({"file": file, "sched": sc, "rest": rest, "fault": c["fault"], "got_deliveries": d})),
                    (Err(k), "ok") => s.mismatch("error-without-fault", json!({"file": file, "sched": sc, "rest": rest, "got": format!("{k:?}")})),
                    (Err(k), _) => {
                        if want_kind != Some(*k) {
                            s.mismatch("wrong-error-kind", json!({"file": file, "sched": sc, "fault": c["fault"], "got": format!("{k:?}")}));
                        }
                    }
                },
                _ => match &r {
                    Err(k) => {
                        if want_res == "ok" {
                            s.mismatch(if enc == "utf8" { "error-without-fault" } else { "utf16:error-without-fault" },
                                       json!({"file": file, "sched": sc, "rest": rest, "enc": enc, "got": format!("{k:?}")}));
                        }
                    }
                    Ok((v, d)) => {
                        if want_res == "ok" && (*v != want_version || *d != want_deliv) {
                            s.mismatch(if enc == "utf8" { "lines-utf8" } else { "lines-utf16" },
                                       json!({"file": file, "sched": sc, "rest": rest, "enc": enc, "got": d, "want": want_deliv, "model_lines": c["lines"]}));
                        }
                    }
                },
            }
        }
        s.sample(json!({"file": file, "sched": sched, "fault": c["fault"], "lines": texts, "result": want_res}));
    });
}

// ---------------------------------------------------------------------------
// Model-free relations on real files: the invariants of Reader.tla evaluated far
// beyond the sizes TLC enumerates (bundled maps, seeded random files).

fn corpus(rng: &mut Rng, nrandom: usize) -> Vec<(String, String)> {
    // (name, text)
    let mut v: Vec<(String, String)> = vec![];
    for (name, bytes) in bundled_files() {
        if let Some(t) = text_of_bundled(&bytes) {
            v.push((name, t));
        }
    }
    let mut pool: Vec<Value> = ["blank", "comment", "icomment", "verbad", "hdrx", "rec", "rec", "rec", "rec", "recbad"]
        .iter()
        .map(|k| json!({"k": k, "v": 0, "s": ""}))
        .collect();
    for sec in framing::SECTIONS {
        pool.push(json!({"k": "hdr", "v": 0, "s": sec}));
    }
    for n in 0..nrandom {
        let len = 3 + rng.below(60);
        let mut kinds: Vec<Value> = (0..len).map(|_| rng.pick(&pool).clone()).collect();
        kinds[0] = json!({"k": "ver", "v": *rng.pick(&[14, 9, 5]), "s": ""});
        let lines = framing::spell_file(&kinds, rng);
        v.push((format!("random-{n}"), framing::join_lines(&lines, rng.chance(1, 3), rng.chance(1, 2))));
    }
    v
}

fn same(a: &io::Result<Beatmap>, b: &Beatmap) -> Option<String> {
    match a {
        Err(e) => Some(format!("Err({:?})", e.kind())),
        Ok(m) => framing::beatmap_diff(m, b),
    }
}

/// Does the text contain a UTF-16 code unit with a 0x0A byte other than U+000A ?
fn has_lf_byte_unit(t: &str) -> bool {
    t.encode_utf16().any(|u| u != 0x000A && ((u & 0xFF) == 0x0A || (u >> 8) == 0x0A))
}

pub fn relations(args: &Args, s: &mut Summary) {
    let prop = args.opt("prop").unwrap_or("C08").to_string();
    let thorough = args.opt("tier") == Some("thorough");
    let mut rng = Rng::new(args.seed);
    let files = corpus(&mut rng, if thorough { 120 } else { 30 });
    for (name, text) in &files {
        let big = text.len() > 40_000;
        let encs: Vec<&str> = if big && !thorough { vec!["utf8", "utf16le"] } else { ENCODINGS.to_vec() };
        for enc in encs {
            // C08/C09 are about delivery, not about text encoding: keep 0x0A-bearing units out of UTF-16 here
            if enc.starts_with("utf16") && prop != "C10" && has_lf_byte_unit(text) {
                continue;
            }
            let bytes = encode_text(text, enc);
            let label = format!("relations {prop} {name} {enc}");
            let base = match guarded(&label, || rosu_map::from_bytes::<Beatmap>(&bytes)) {
                Ok(Ok(b)) => b,
                Ok(Err(e)) => {
                    s.mismatch("error-without-fault", json!({"file": name, "enc": enc, "via": "from_bytes", "err": format!("{:?}", e.kind())}));
                    continue;
                }
                Err(p) => {
                    s.mismatch("panic", json!({"file": name, "enc": enc, "panic": p}));
                    continue;
                }
            };
            s.cases += 1;
            s.nontrivial_key(&format!("{name}|{enc}"));
            match prop.as_str() {
                "C08" => rel_c08(s, &mut rng, name, enc, &bytes, &base, big, thorough),
                "C09" => rel_c09_read(s, &mut rng, name, enc, &bytes, big, thorough),
                _ => {}
            }
        }
        if prop == "C10" {
            rel_c10(s, &mut rng, name, text, thorough);
        }
    }
    if prop == "C09" {
        rel_c09_write(s, &mut rng, &files, thorough);
    }
    if prop == "C10" {
        line_sweep(s, thorough);
    }
    if prop == "C10" && thorough {
        scalar_sweep(s);
    }
    s.sample(json!({"files": files.iter().take(5).map(|f| f.0.clone()).collect::<Vec<_>>(), "n_files": files.len()}));
}

#[allow(clippy::too_many_arguments)]
fn rel_c08(s: &mut Summary, rng: &mut Rng, name: &str, enc: &str, bytes: &[u8], base: &Beatmap, big: bool, thorough: bool) {
    let mut variants: Vec<(String, Vec<usize>, usize)> = vec![];
    let sizes: Vec<usize> = if big && !thorough { vec![1, 2, 3, 64] } else if thorough { (1..=64).collect() } else { vec![1, 2, 3, 4, 5, 7, 8, 15, 16, 63, 64] };
    for k in sizes {
        variants.push((format!("chunk={k}"), vec![], k));
    }
    let nrand = if big { 2 } else if thorough { 24 } else { 8 };
    for _ in 0..nrand {
        let n = rng.below(40);
        // variable chunk schedule with Interrupted results (zeros) sprinkled in
        let sched: Vec<usize> = (0..n).map(|_| if rng.chance(1, 5) { 0 } else { 1 + rng.below(9) }).collect();
        variants.push((format!("sched={sched:?}"), sched, 1 + rng.below(4096)));
    }
    for (what, sched, rest) in variants {
        let label = format!("C08 {name} {enc} {what}");
        let r = guarded(&label, || Beatmap::decode(ScheduledReader::new(bytes, sched.clone(), rest, None)));
        s.checks += 1;
        match r {
            Err(p) => s.mismatch("panic", json!({"file": name, "enc": enc, "delivery": what, "panic": p})),
            Ok(res) => {
                if let Some(d) = same(&res, base) {
                    s.mismatch("schedule-dependent", json!({"file": name, "enc": enc, "delivery": what, "rest": rest, "diff": d}));
                }
            }
        }
    }
    // std BufReader with tiny capacities, from_str, from_path
    let caps: Vec<usize> = if big { vec![1, 2, 3, 16] } else { (1..=16).collect() };
    for cap in caps {
        let r = guarded(&format!("C08 {name} {enc} cap={cap}"), || {
            Beatmap::decode(io::BufReader::with_capacity(cap, io::Cursor::new(bytes)))
        });
        s.checks += 1;
        match r {
            Err(p) => s.mismatch("panic", json!({"file": name, "enc": enc, "delivery": format!("BufReader cap={cap}"), "panic": p})),
            Ok(res) => {
                if let Some(d) = same(&res, base) {
                    s.mismatch("schedule-dependent", json!({"file": name, "enc": enc, "delivery": format!("BufReader::with_capacity({cap})"), "diff": d}));
                }
            }
        }
    }
    if enc == "utf8" || enc == "utf8bom" {
        if let Ok(t) = std::str::from_utf8(bytes) {
            let r = guarded(&format!("C08 {name} from_str"), || rosu_map::from_str::<Beatmap>(t));
            s.checks += 1;
            if let Ok(res) = r {
                if let Some(d) = same(&res, base) {
                    s.mismatch("schedule-dependent", json!({"file": name, "enc": enc, "delivery": "from_str", "diff": d}));
                }
            }
        }
    }
    let dir = std::env::temp_dir().join(format!("verif-c08-{}", std::process::id()));
    let _ = std::fs::create_dir_all(&dir);
    let path = dir.join("f.osu");
    if std::fs::write(&path, bytes).is_ok() {
        let r = guarded(&format!("C08 {name} from_path"), || rosu_map::from_path::<Beatmap>(&path));
        s.checks += 1;
        if let Ok(res) = r {
            if let Some(d) = same(&res, base) {
                s.mismatch("schedule-dependent", json!({"file": name, "enc": enc, "delivery": "from_path", "diff": d}));
            }
        }
    }
    let _ = std::fs::remove_dir_all(&dir);
}

fn rel_c09_read(s: &mut Summary, rng: &mut Rng, name: &str, enc: &str, bytes: &[u8], big: bool, thorough: bool) {
    let n = bytes.len();
    let offsets: Vec<usize> = if n <= 3000 || (thorough && n <= 20000) {
        (0..n).collect()
    } else {
        let mut v: Vec<usize> = (0..40).collect();
        for _ in 0..(if thorough { 400 } else { 60 }) {
            v.push(rng.below(n));
        }
        v.push(n - 1);
        v
    };
    let _ = big;
    for off in offsets {
        for kind in KINDS {
            // only every fifth offset gets all kinds in the quick tier
            if !thorough && off % 5 != 0 && kind != "Other" && kind != "UnexpectedEof" {
                continue;
            }
            let rest = 1 + rng.below(200);
            let sched: Vec<usize> = if rng.chance(1, 3) { vec![0, 1 + rng.below(3), 0] } else { vec![] };
            let label = format!("C09 {name} {enc} fault@{off} {kind}");
            let r = guarded(&label, || {
                let mut rd = ScheduledReader::new(bytes, sched.clone(), rest, Some((off, kind_of(kind))));
                let res = Beatmap::decode(&mut rd);
                (res.map(|_| ()).map_err(|e| e.kind()), rd.calls_after_fail)
            });
            s.checks += 1;
            match r {
                Err(p) => s.mismatch("panic", json!({"file": name, "enc": enc, "fault": [off, kind], "panic": p})),
                Ok((Ok(()), _)) => s.mismatch("fault-swallowed", json!({"file": name, "enc": enc, "fault": [off, kind], "rest": rest})),
                Ok((Err(k), after)) => {
                    if k != kind_of(kind) {
                        s.mismatch("wrong-error-kind", json!({"file": name, "enc": enc, "fault": [off, kind], "got": format!("{k:?}")}));
                    } else if after > 0 {
                        s.mismatch("reads-after-failure", json!({"file": name, "enc": enc, "fault": [off, kind], "calls": after}));
                    }
                }
            }
        }
    }
}

/// A Write that accepts the given number of bytes per call (0 = report Interrupted once when `intr`,
/// else a zero-length accept), fails for good at `fault`, and may fail on flush.
pub struct FaultWriter {
    pub out: Vec<u8>,
    pub fault: Option<(usize, ErrorKind)>,
    pub zero_at: Option<usize>,
    pub per_call: usize,
    pub intr_every: usize,
    pub calls: usize,
    pub flush_fails: bool,
    /// transient Interrupted results the next `flush` calls report first
    pub flush_intr: usize,
    pub failed: bool,
    pub calls_after_fail: usize,
    pub flushed: bool,
}
impl FaultWriter {
    pub fn new() -> Self {
        FaultWriter { out: vec![], fault: None, zero_at: None, per_call: usize::MAX, intr_every: 0, calls: 0, flush_fails: false, flush_intr: 0,
                      failed: false, calls_after_fail: 0, flushed: false }
    }
}
impl Write for FaultWriter {
    fn write(&mut self, buf: &[u8]) -> io::Result<usize> {
        if self.failed {
            self.calls_after_fail += 1;
        }
        self.calls += 1;
        if self.intr_every > 0 && self.calls % self.intr_every == 0 {
            return Err(io::Error::new(ErrorKind::Interrupted, "injected interrupt"));
        }
        if let Some((off, kind)) = self.fault {
            if self.out.len() >= off {
                self.failed = true;
                return Err(io::Error::new(kind, "injected write fault"));
            }
        }
        if let Some(off) = self.zero_at {
            if self.out.len() >= off {
                self.failed = true;
                return Ok(0);
            }
        }
        let mut n = buf.len().min(self.per_call);
        if let Some((off, _)) = self.fault {
            n = n.min(off - self.out.len());
        }
        if let Some(off) = self.zero_at {
            n = n.min(off - self.out.len());
        }
        self.out.extend_from_slice(&buf[..n]);
        Ok(n)
    }
    fn flush(&mut self) -> io::Result<()> {
        if self.flush_intr > 0 {
            self.flush_intr -= 1;
            return Err(io::Error::new(ErrorKind::Interrupted, "scripted interrupt of flush"));
        }
        self.flushed = true;
        if self.flush_fails {
            self.failed = true;
            return Err(io::Error::new(ErrorKind::Other, "injected flush fault"));
        }
        Ok(())
    }
}

fn rel_c09_write(s: &mut Summary, rng: &mut Rng, files: &[(String, String)], thorough: bool) {
    for (name, text) in files {
        let Ok(map) = rosu_map::from_str::<Beatmap>(text) else { continue };
        let full = match guarded(&format!("C09w {name}"), || {
            let mut m = map.clone();
            m.encode_to_string()
        }) {
            Ok(Ok(t)) => t.into_bytes(),
            Ok(Err(e)) => {
                s.mismatch("encode-error-without-fault", json!({"file": name, "err": format!("{:?}", e.kind())}));
                continue;
            }
            Err(p) => {
                s.mismatch("panic", json!({"file": name, "what": "encode_to_string", "panic": p}));
                continue;
            }
        };
        let n = full.len();
        let offsets: Vec<usize> = if n <= 2500 || (thorough && n <= 12000) { (0..n).collect() } else {
            let mut v: Vec<usize> = (0..30).collect();
            for _ in 0..(if thorough { 300 } else { 50 }) {
                v.push(rng.below(n));
            }
            v.push(n - 1);
            v
        };
        s.cases += 1;
        // (a) hard error / zero-length accept at an offset
        for off in offsets {
            for mode in 0..2 {
                let kind = *rng.pick(&KINDS);
                let per_call = if rng.chance(1, 2) { usize::MAX } else { 1 + rng.below(7) };
                let r = guarded(&format!("C09w {name} off={off} mode={mode}"), || {
                    let mut w = FaultWriter::new();
                    w.per_call = per_call;
                    if mode == 0 {
                        w.fault = Some((off, kind_of(kind)));
                    } else {
                        w.zero_at = Some(off);
                    }
                    let mut m = map.clone();
                    let res = m.encode(&mut w).map_err(|e| e.kind());
                    (res, w.calls_after_fail, w.out)
                });
                s.checks += 1;
                match r {
                    Err(p) => s.mismatch("panic", json!({"file": name, "write_fault_at": off, "panic": p})),
                    Ok((Ok(()), _, _)) => s.mismatch("write-fault-swallowed", json!({"file": name, "offset": off, "mode": if mode == 0 { kind } else { "zero-length write" }})),
                    Ok((Err(k), after, out)) => {
                        let want = if mode == 0 { kind_of(kind) } else { ErrorKind::WriteZero };
                        if k != want {
                            s.mismatch("wrong-write-error-kind", json!({"file": name, "offset": off, "got": format!("{k:?}"), "want": format!("{want:?}")}));
                        } else if after > 0 {
                            s.mismatch("writes-after-failure", json!({"file": name, "offset": off, "calls": after}));
                        } else if out != full[..off.min(full.len())] {
                            s.mismatch("partial-output-not-a-prefix", json!({"file": name, "offset": off}));
                        }
                    }
                }
            }
        }
        // (b) short writes and Interrupted results are transparent; a flush failure is returned
        for _ in 0..(if thorough { 8 } else { 3 }) {
            let per_call = 1 + rng.below(9);
            let intr = if rng.chance(1, 2) { 2 + rng.below(5) } else { 0 };
            let r = guarded(&format!("C09w {name} short writes"), || {
                let mut w = FaultWriter::new();
                w.per_call = per_call;
                w.intr_every = intr;
                w.flush_intr = if intr > 0 { intr % 3 } else { 0 };
                let mut m = map.clone();
                let res = m.encode(&mut w).map_err(|e| e.kind());
                (res, w.out, w.flushed)
            });
            s.checks += 1;
            match r {
                Err(p) => s.mismatch("panic", json!({"file": name, "what": "short writes", "panic": p})),
                Ok((Err(k), out, _)) => s.mismatch(if out == full && k == ErrorKind::Interrupted { "interrupted-flush-surfaced" } else { "transient-write-condition-surfaced" },
                                                   json!({"file": name, "per_call": per_call, "intr_every": intr, "got": format!("{k:?}")})),
                Ok((Ok(()), out, flushed)) => {
                    if out != full {
                        s.mismatch("short-writes-change-output", json!({"file": name, "per_call": per_call}));
                    } else if !flushed {
                        s.mismatch("not-flushed", json!({"file": name}));
                    }
                }
            }
        }
        let r = guarded(&format!("C09w {name} flush"), || {
            let mut w = FaultWriter::new();
            w.flush_fails = true;
            let mut m = map.clone();
            m.encode(&mut w).map_err(|e| e.kind())
        });
        s.checks += 1;
        match r {
            Err(p) => s.mismatch("panic", json!({"file": name, "what": "flush", "panic": p})),
            Ok(Ok(())) => s.mismatch("flush-fault-swallowed", json!({"file": name})),
            Ok(Err(_)) => {}
        }
    }
}

fn lossy_per_line_utf8(bytes: &[u8]) -> String {
    let mut out = String::new();
    for line in bytes.split_inclusive(|b| *b == b'\n') {
        out.push_str(&String::from_utf8_lossy(line));
    }
    out
}

fn rel_c10(s: &mut Summary, rng: &mut Rng, name: &str, text: &str, thorough: bool) {
    // (a) the same text in four encodings (with hostile characters injected into a metadata line)
    let hostile: [char; 15] = ['\u{4E0A}', '\u{0A41}', '\u{0A0A}', '\u{010A}', '\u{0A00}', '\u{FEFF}', '\u{E9}', '\u{1F600}', '\u{FFFD}', '\u{2028}', '\u{85}', '\u{A0}',
                               '\u{0100}', '\u{0A05}', '\u{050A}'];
    let mut texts: Vec<String> = vec![text.to_string()];
    for _ in 0..(if thorough { 6 } else { 2 }) {
        let mut t = String::from("osu file format v14\n\n[Metadata]\nTitle:x");
        for _ in 0..(1 + rng.below(4)) {
            t.push(*rng.pick(&hostile));
            // hostile characters next to each other (bytes meeting across a unit boundary) and next to ASCII
            if rng.chance(1, 2) {
                t.push(*rng.pick(&hostile));
            }
            t.push('y');
        }
        t.push_str("\nArtist:");
        t.push(*rng.pick(&hostile));
        t.push_str("z\n");
        t.push_str(text);
        texts.push(t);
    }
    for (ti, t) in texts.iter().enumerate() {
        if t.len() > 60_000 && ti > 0 {
            continue;
        }
        let Ok(Ok(base)) = guarded(&format!("C10 {name} base"), || rosu_map::from_bytes::<Beatmap>(t.as_bytes())) else {
            s.mismatch("panic-or-error", json!({"file": name, "variant": ti, "enc": "utf8"}));
            continue;
        };
        s.cases += 1;
        for enc in ENCODINGS {
            let bytes = encode_text(t, enc);
            let r = guarded(&format!("C10 {name} {enc}"), || rosu_map::from_bytes::<Beatmap>(&bytes));
            s.checks += 1;
            match r {
                Err(p) => s.mismatch("panic", json!({"file": name, "enc": enc, "panic": p})),
                Ok(res) => {
                    if let Some(d) = same(&res, &base) {
                        // identify the offending character class for known-finding matching
                        let sig = if matches!(res, Err(_)) { "encoding-dependent:error" } else if has_lf_byte_unit(t) && enc.starts_with("utf16") { "encoding-dependent:unit-with-0A-byte" } else { "encoding-dependent" };
                        s.mismatch(sig, json!({"file": name, "variant": ti, "enc": enc, "diff": d,
                            "injected": t.lines().nth(3).map(|l| l.escape_unicode().to_string())}));
                    }
                }
            }
        }
    }
    // (b) invalid UTF-8: decode(bytes) == decode(per-line lossy conversion of bytes)
    let src = text.as_bytes();
    if src.len() < 60_000 || thorough {
        for _ in 0..(if thorough { 10 } else { 3 }) {
            let mut b = src.to_vec();
            for _ in 0..(1 + rng.below(6)) {
                let at = rng.below(b.len() + 1);
                let junk: &[u8] = match rng.below(7) {
                    0 => &[0xFF],
                    1 => &[0xC3],
                    2 => &[0xE4, 0xB8],
                    3 => &[0x80],
                    4 => &[0xF0, 0x9F, 0x98],
                    5 => &[0xED, 0xA0, 0x80],
                    _ => &[0xC0, 0xAF],
                };
                for (k, x) in junk.iter().enumerate() {
                    b.insert((at + k).min(b.len()), *x);
                }
            }
            let want_text = lossy_per_line_utf8(&b);
            let r = guarded(&format!("C10 {name} lossy"), || {
                (rosu_map::from_bytes::<Beatmap>(&b), rosu_map::from_bytes::<Beatmap>(want_text.as_bytes()))
            });
            s.checks += 1;
            match r {
                Err(p) => s.mismatch("panic", json!({"file": name, "what": "invalid utf8", "panic": p})),
                Ok((a, Ok(wb))) => {
                    if let Some(d) = same(&a, &wb) {
                        s.mismatch("lossy-utf8-differs-from-std", json!({"file": name, "diff": d}));
                    }
                }
                Ok(_) => s.mismatch("panic-or-error", json!({"file": name, "what": "lossy reference"})),
            }
        }
        // (c) UTF-16 with unpaired surrogates and an odd trailing byte
        for le in [true, false] {
            let mut units: Vec<u16> = text.encode_utf16().collect();
            if units.iter().any(|u| *u != 0x0A && ((u & 0xFF) == 0x0A || (u >> 8) == 0x0A)) {
                continue;
            }
            for _ in 0..(1 + rng.below(4)) {
                let at = rng.below(units.len() + 1);
                units.insert(at, *rng.pick(&[0xD800u16, 0xDBFF, 0xDC00, 0xDFFF]));
            }
            let want_text: String = units.split_inclusive(|u| *u == 0x0A).map(String::from_utf16_lossy).collect();
            let mut b: Vec<u8> = if le { vec![0xFF, 0xFE] } else { vec![0xFE, 0xFF] };
            for u in &units {
                b.extend_from_slice(&if le { u.to_le_bytes() } else { u.to_be_bytes() });
            }
            if rng.chance(1, 2) {
                b.push(0x41); // odd tail
            }
            let r = guarded(&format!("C10 {name} surrogates"), || {
                (rosu_map::from_bytes::<Beatmap>(&b), rosu_map::from_bytes::<Beatmap>(want_text.as_bytes()))
            });
            s.checks += 1;
            match r {
                Err(p) => s.mismatch("panic", json!({"file": name, "what": "surrogates", "panic": p})),
                Ok((a, Ok(wb))) => {
                    if let Some(d) = same(&a, &wb) {
                        s.mismatch("lossy-utf16-differs-from-std", json!({"file": name, "le": le, "diff": d}));
                    }
                }
                Ok(_) => s.mismatch("panic-or-error", json!({"file": name, "what": "utf16 lossy reference"})),
            }
        }
    }
}

/// The text of a line is std's lossy conversion of its bytes, whatever the LENGTH of the text before an
/// invalid sequence (ASCII prefixes of 0..130 bytes: buffer growth, any fast-path threshold) and for
/// longer invalid patterns than the model's three payload bytes; `\r\n`, `\n` and a lone `\r`; characters
/// that are NOT line breaks.  Observed through the title field of the Metadata decoder.
fn line_sweep(s: &mut Summary, thorough: bool) {
    use rosu_map::section::metadata::Metadata;
    let patterns: Vec<&[u8]> = vec![
        b"\xF0\x9F\x98", b"\xF0\x9F\x98A", b"\xF0\x9F", b"\xF0", b"\xF0\x9F\x98\x80", b"\xE2\x82", b"\xE2\x82\xAC", b"\xE2", b"\xC3", b"\xC3\xA9",
        b"\xC0\xAF", b"\xE0\x80\xAF", b"\xF0\x80\x80\xAF", b"\xED\xA0\x80", b"\xED\xBF\xBF", b"\xF4\x90\x80\x80", b"\xF8\x88\x80\x80\x80",
        b"\xFF\xFF", b"\x80\x80\x80", b"\xC3\xC3\xA9", b"\xE2\xE2\x82\xAC", b"\xF0\x9F\xF0\x9F\x98\x80", b"\xEF\xBB\xBF", b"\xEF\xBB", b"\xFE\xFF",
        b"\xE2\x80\xA8", b"\xC2\x85", b"\x0B", b"\x0C", b"\x00", b"\r", b"\rX", b"\xC3\r", b"\xF0\x9F\x98\r",
    ];
    let max_prefix = if thorough { 260 } else { 130 };
    for (pi, pat) in patterns.iter().enumerate() {
        // very long lines (internal buffer sizes) for a few patterns only
        let mut plens: Vec<usize> = (0..=max_prefix).collect();
        if pi % 8 == 0 {
            plens.extend([1023, 4096, 8191, 65_510, 65_536, 65_537, 70_000, 200_001]);
        }
        for plen in plens {
            for ending in [&b"\n"[..], &b"\r\n"[..], &b""[..]] {
                let mut payload: Vec<u8> = Vec::new();
                payload.extend(std::iter::repeat(b'q').take(plen));
                payload.extend_from_slice(pat);
                payload.push(b'b');
                let mut file: Vec<u8> = b"[Metadata]\nTitle:a".to_vec();
                file.extend_from_slice(&payload);
                file.extend_from_slice(ending);
                if !ending.is_empty() {
                    file.extend_from_slice(b"Artist:z");
                    file.extend_from_slice(ending);
                }
                let want = format!("a{}", String::from_utf8_lossy(&payload));
                let want = want.trim_end().to_string();
                let r = guarded("C10 line sweep", || rosu_map::from_bytes::<Metadata>(&file));
                s.checks += 1;
                match r {
                    Err(p) => s.mismatch("panic", json!({"what": "line sweep", "panic": p})),
                    Ok(Ok(m)) if m.title == want && (ending.is_empty() || m.artist == "z") => {}
                    Ok(other) => s.mismatch("lossy-utf8-differs-from-std", json!({"prefix_len": plen, "pattern": format!("{pat:02X?}"), "ending": format!("{ending:?}"),
                        "got": other.map(|m| (m.title.escape_unicode().to_string(), m.artist)).map_err(|e| e.to_string()).ok(), "want": want.escape_unicode().to_string()})),
                }
            }
        }
    }
    // UTF-16: unit patterns after prefixes of 0..70 units
    // every sequence of up to four units over {two high surrogates, a low surrogate, 'A'}
    let mut upatterns: Vec<Vec<u16>> = vec![];
    let alpha = [0xD83Du16, 0xD800, 0xDE00, 0x41];
    for n in 1..=4u32 {
        for code in 0..4usize.pow(n) {
            upatterns.push((0..n).map(|k| alpha[(code / 4usize.pow(k)) % 4]).collect());
        }
    }
    let exhaustive = upatterns.len();
    upatterns.extend(vec![vec![0xD800], vec![0xDC00], vec![0xDC00, 0xD800], vec![0xD83D, 0xDE00], vec![0xD83D], vec![0xD83D, 0x41], vec![0xDE00, 0xDE00],
                                        vec![0xFEFF], vec![0xFFFE], vec![0x2028], vec![0x85], vec![0x0B], vec![0x0D], vec![0x0D, 0x41], vec![0x0A0D], vec![0x0D0A], vec![0x0A00]]);
    let pair_idx = upatterns.iter().position(|p| p == &vec![0xD83Du16, 0xDE00]).unwrap_or(0);
    // characters whose LAST byte in one of the byte orders is a blank (0x20 / 0x09): the end of an unterminated last line
    let tails: Vec<Vec<u16>> = vec![vec![0x2026], vec![0x0915], vec![0x4E09], vec![0x2020], vec![0x0920, 0x2009, 0x41, 0x2026], vec![0x0909]];
    let n_up = upatterns.len();
    upatterns.extend(tails);
    for (pi, pat) in upatterns.iter().enumerate() {
        // (the exhaustive surrogate sequences at three prefix lengths only)
        let mut plens: Vec<usize> = if pi < exhaustive { vec![0, 1, 33] } else if pi >= n_up { vec![0, 1, 2, 7] } else { (0..=(if thorough { 140 } else { 70 })).collect() };
        if pi == pair_idx {
            // a surrogate pair around every multiple of 256 units up to 2048 (internal chunk sizes)
            for m in 1..=8usize {
                // the line is `Title:a` (7 units) + prefix + pair: the high surrogate sits at unit 256 m - 5 .. 256 m + 9
                for d in 0..15usize {
                    plens.push(256 * m + d - 12);
                }
            }
        }
        for plen in plens {
            for le in [true, false] {
                for variant in 0..3 {
                    let crlf = variant == 1;
                    let last_line = variant == 2;       // no line end at all, nothing after it
                    if last_line && pi < n_up && pi != pair_idx {
                        continue;
                    }
                    let mut payload: Vec<u16> = std::iter::repeat(b'q' as u16).take(plen).collect();
                    payload.extend_from_slice(pat);
                    if pi < n_up {
                        payload.push(b'b' as u16);
                    }
                    let mut units: Vec<u16> = "[Metadata]\nArtist:z\nTitle:a".encode_utf16().collect();
                    units.extend_from_slice(&payload);
                    let nl: &[u16] = if crlf { &[0x0D, 0x0A] } else { &[0x0A] };
                    if !last_line {
                        units.extend_from_slice(nl);
                        units.extend("Creator:c".encode_utf16());
                        units.extend_from_slice(nl);
                    }
                    let mut file: Vec<u8> = if le { vec![0xFF, 0xFE] } else { vec![0xFE, 0xFF] };
                    for u in &units {
                        file.extend_from_slice(&if le { u.to_le_bytes() } else { u.to_be_bytes() });
                    }
                    let want = format!("a{}", String::from_utf16_lossy(&payload));
                    let want = want.trim_end().to_string();
                    let r = guarded("C10 line sweep 16", || rosu_map::from_bytes::<Metadata>(&file));
                    s.checks += 1;
                    match r {
                        Err(p) => s.mismatch("panic", json!({"what": "line sweep utf16", "panic": p})),
                        Ok(Ok(m)) if m.title == want && m.artist == "z" && (last_line || m.creator == "c") => {}
                        Ok(other) => s.mismatch("lossy-utf16-differs-from-std", json!({"prefix_len": plen, "pattern": format!("{pat:04X?}"), "le": le, "variant": variant,
                            "got": other.map(|m| (m.title.escape_unicode().to_string(), m.artist, m.creator)).map_err(|e| e.to_string()).ok(), "want": want.escape_unicode().to_string()})),
                    }
                }
            }
        }
    }
    s.cases += 1;
}

/// every Unicode scalar value as the single character of a metadata title, three BOM encodings
fn scalar_sweep(s: &mut Summary) {
    use rosu_map::section::metadata::Metadata;
    let mut bad: Vec<(u32, &'static str)> = vec![];
    for cp in 0u32..=0x10FFFF {
        let Some(ch) = char::from_u32(cp) else { continue };
        if ch == '\n' {
            continue;
        }
        let text = format!("[Metadata]\nTitle:a{ch}b\n");
        let base = match rosu_map::from_bytes::<Metadata>(text.as_bytes()) {
            Ok(m) => m.title,
            Err(_) => continue,
        };
        for enc in ["utf8bom", "utf16le", "utf16be"] {
            let bytes = encode_text(&text, enc);
            s.checks += 1;
            match rosu_map::from_bytes::<Metadata>(&bytes) {
                Ok(m) if m.title == base => {}
                _ => {
                    if bad.len() < 2000 {
                        bad.push((cp, enc));
                    }
                }
            }
        }
    }
    s.cases += 0x10F800;
    for (cp, enc) in bad {
        let lfbyte = (cp <= 0xFFFF) && ((cp & 0xFF) == 0x0A || (cp >> 8) == 0x0A);
        s.mismatch(if lfbyte { "encoding-dependent:unit-with-0A-byte" } else { "encoding-dependent" },
                   json!({"scalar": format!("U+{cp:04X}"), "enc": enc}));
    }
}

// ---------------------------------------------------------------------------
// Writer.tla replay: the writer follows a script of per-call decisions
struct ScriptedWriter {
    script: Vec<i64>,
    next: usize,
    out: Vec<u8>,
    failed: bool,
    calls_after_fail: usize,
    flush_fails: bool,
    /// transient Interrupted results the next `flush` calls report first
    flush_intr: usize,
    flushed: bool,
}
impl Write for ScriptedWriter {
    fn write(&mut self, buf: &[u8]) -> io::Result<usize> {
        if self.failed {
            self.calls_after_fail += 1;
        }
        let d = if self.next < self.script.len() { self.script[self.next] } else { i64::MAX };
        self.next += 1;
        match d {
            0 => {
                self.failed = true;
                Ok(0)
            }
            -1 => Err(io::Error::new(ErrorKind::Interrupted, "scripted interrupt")),
            -2 => {
                self.failed = true;
                Err(io::Error::new(ErrorKind::Other, "scripted failure"))
            }
            -3 => {
                self.failed = true;
                Err(io::Error::new(ErrorKind::PermissionDenied, "scripted failure"))
            }
            k => {
                let n = buf.len().min(k.max(1) as usize);
                self.out.extend_from_slice(&buf[..n]);
                Ok(n)
            }
        }
    }
    fn flush(&mut self) -> io::Result<()> {
        if self.failed {
            self.calls_after_fail += 1;
        }
        if self.flush_intr > 0 {
            self.flush_intr -= 1;
            return Err(io::Error::new(ErrorKind::Interrupted, "scripted interrupt of flush"));
        }
        self.flushed = true;
        if self.flush_fails {
            self.failed = true;
            return Err(io::Error::new(ErrorKind::Other, "scripted flush failure"));
        }
        Ok(())
    }
}

pub fn writer_replay(args: &Args, s: &mut Summary) {
    let mut rng = Rng::new(args.seed);
    let maps: Vec<Beatmap> = (0..4)
        .filter_map(|i| {
            let mut o = crate::gen::GenOpts::c02();
            o.mode = Some(i);
            o.objects = 4;
            rosu_map::from_str::<Beatmap>(&crate::gen::gen_map(&mut rng, &o)).ok()
        })
        .collect();
    let fulls: Vec<Vec<u8>> = maps.iter().map(|m| m.clone().encode_to_string().map(|t| t.into_bytes()).unwrap_or_default()).collect();
    let mut n = 0usize;
    args.for_each_case(|_, c| {
        s.cases += 1;
        n += 1;
        let script: Vec<i64> = geta(&c, "script").iter().map(|x| x.as_i64().unwrap()).collect();
        let want = gets(&c, "result");
        let flush_fails = script.last() == Some(&-100);
        let flush_intr = script.iter().filter(|x| **x == -101).count();
        let writes: Vec<i64> = script.iter().cloned().filter(|x| *x != 100 && *x != -100 && *x != -101).collect();
        if writes.iter().any(|x| *x <= 0) || flush_fails || flush_intr > 0 {
            s.nontrivial_key(&c["script"].to_string());
        }
        let mi = n % maps.len();
        let r = guarded(&format!("writer replay {script:?}"), || {
            let mut w = ScriptedWriter { script: writes.clone(), next: 0, out: vec![], failed: false, calls_after_fail: 0, flush_fails, flush_intr, flushed: false };
            let mut m = maps[mi].clone();
            let res = m.encode(&mut w).map_err(|e| e.kind());
            (res, w.calls_after_fail, w.out, w.flushed)
        });
        s.checks += 1;
        match r {
            Err(p) => s.mismatch("panic", json!({"script": script, "panic": p})),
            Ok((res, after, out, flushed)) => {
                let got = match res {
                    Ok(()) => "ok".to_string(),
                    Err(k) => format!("{k:?}"),
                };
                if got != want {
                    s.mismatch(if flush_intr > 0 && got == "Interrupted" { "interrupted-flush-surfaced" } else if want == "ok" { "transient-write-condition-surfaced" } else { "write-fault-swallowed-or-altered" },
                               json!({"script": script, "got": got, "want": want}));
                } else if after > 0 {
                    s.mismatch("writes-after-failure", json!({"script": script, "calls": after}));
                } else if !fulls[mi].starts_with(&out) || (want == "ok" && out != fulls[mi]) {
                    s.mismatch("output-not-a-prefix-of-the-encoding", json!({"script": script}));
                } else if want == "ok" && !flushed {
                    s.mismatch("not-flushed", json!({"script": script}));
                }
            }
        }
        s.sample(json!({"script": script, "result": want}));
    });
}
