//! CurveLength / CurvePosition (C16, C19) and CurveCache (C18) replays.
use crate::util::*;
use rosu_map::section::general::GameMode;
use rosu_map::section::hit_objects::{BorrowedCurve, Curve, CurveBuffers, PathControlPoint, PathType, SliderPath};
use rosu_map::util::Pos;
use serde_json::{json, Value};

pub const MODES: [GameMode; 4] = [GameMode::Osu, GameMode::Taiko, GameMode::Catch, GameMode::Mania];

pub fn mk_cps(v: &Value) -> Vec<PathControlPoint> {
    v.as_array()
        .unwrap()
        .iter()
        .map(|c| PathControlPoint {
            pos: Pos::new(geti(c, "x") as f32, geti(c, "y") as f32),
            path_type: match gets(c, "ty") {
                "none" => None,
                "L" => Some(PathType::LINEAR),
                "B" => Some(PathType::BEZIER),
                "P" => Some(PathType::PERFECT_CURVE),
                "C" => Some(PathType::CATMULL),
                t => panic!("type {t}"),
            },
        })
        .collect()
}

fn tol(c: f64) -> f64 {
    1e-3 + 1e-6 * c.abs()
}

fn rat_point(p: &Value) -> (f64, f64) {
    let a = p.as_array().unwrap();
    let den = a[2].as_f64().unwrap();
    (a[0].as_f64().unwrap() / den, a[1].as_f64().unwrap() / den)
}

fn path_matches(path: &[Pos], want: &[Value]) -> Option<String> {
    if path.len() != want.len() {
        return Some(format!("path has {} points, expected {}", path.len(), want.len()));
    }
    for (i, (p, w)) in path.iter().zip(want.iter()).enumerate() {
        let (x, y) = rat_point(w);
        if (p.x as f64 - x).abs() > tol(x) || (p.y as f64 - y).abs() > tol(y) {
            return Some(format!("path[{i}] = ({}, {}), expected ({x}, {y})", p.x, p.y));
        }
    }
    None
}

fn lens_match(lens: &[f64], want: &[Value]) -> Option<String> {
    if lens.len() != want.len() {
        return Some(format!("lengths has {} entries, expected {}", lens.len(), want.len()));
    }
    for (i, (l, w)) in lens.iter().zip(want.iter()).enumerate() {
        let w = w.as_f64().unwrap();
        if !l.is_finite() || (l - w).abs() > 1e-9 * 1f64.max(w.abs()) {
            return Some(format!("lengths[{i}] = {l}, expected {w}"));
        }
    }
    None
}

pub fn replay(args: &Args, s: &mut Summary) {
    let prop = args.opt("prop").unwrap_or("C16").to_string();
    args.for_each_case(|_, c| {
        s.cases += 1;
        let cps = mk_cps(&c["cps"]);
        let l = geti(&c, "L");
        let expected = if l == -1000 { None } else { Some(l as f64) };
        let want_path = geta(&c, "path");
        let want_lens = geta(&c, "lens");
        if want_path.len() >= 2 {
            s.nontrivial_key(&format!("{}|{}", c["cps"], l));
        }
        let label = format!("curve replay {} L={l}", c["cps"]);
        let r = guarded(&label, || {
            let mut errs: Vec<String> = vec![];
            for mode in MODES {
                let mut bufs = CurveBuffers::default();
                let curve = Curve::new(mode, &cps, expected, &mut bufs);
                if prop == "C16" {
                    if let Some(e) = path_matches(curve.path(), want_path) {
                        errs.push(format!("{mode:?} Curve::new: {e}"));
                    }
                    if let Some(e) = lens_match(curve.lengths(), want_lens) {
                        errs.push(format!("{mode:?} Curve::new: {e}"));
                    }
                    if (curve.dist() - want_lens.last().unwrap().as_f64().unwrap()).abs() > 1e-9 * 1f64.max(curve.dist().abs()) {
                        errs.push(format!("{mode:?} dist() = {}", curve.dist()));
                    }
                    // the other two APIs must produce the very same curve
                    let mut bufs2 = CurveBuffers::default();
                    let b = BorrowedCurve::new(mode, &cps, expected, &mut bufs2);
                    if b.path() != curve.path() || b.lengths() != curve.lengths() {
                        errs.push(format!("{mode:?} BorrowedCurve differs from Curve"));
                    }
                    let mut sp = SliderPath::new(mode, cps.clone(), expected);
                    let via = sp.curve().clone();
                    if via != curve {
                        errs.push(format!("{mode:?} SliderPath::curve differs from Curve::new"));
                    }
                } else {
                    // C19: position along the curve.  The model's predictions presuppose the model's curve; if the
                    // real curve differs (a C16 matter) only the relations on the REAL curve are checked.
                    let model_applicable = path_matches(curve.path(), want_path).is_none() && lens_match(curve.lengths(), want_lens).is_none();
                    let dist = curve.dist();
                    let mut last: Option<(f64, Pos)> = None;
                    for (k, e) in geta(&c, "pos").iter().enumerate() {
                        let pk = k as i64 - 2;
                        let progress = pk as f64 / 8.0;
                        let d = curve.progress_to_dist(progress);
                        let want_d = geti(e, "dn") as f64 / 8.0;
                        if model_applicable && (d - want_d).abs() > 1e-9 * 1f64.max(want_d.abs()) {
                            errs.push(format!("{mode:?} progress_to_dist({progress}) = {d}, expected {want_d}"));
                        }
                        let pos = curve.position_at(progress);
                        // clamping on the real curve: progress <= 0 is the first point, >= 1 the last (or an equal point)
                        if !curve.path().is_empty() {
                            let p0 = curve.path()[0];
                            let pl = *curve.path().last().unwrap();
                            if pk <= 0 && pos != p0 {
                                errs.push(format!("{mode:?} position_at({progress}) = ({}, {}) is not the first point", pos.x, pos.y));
                            }
                            if pk >= 8 && ((pos.x - pl.x).abs() as f64 > tol(pl.x as f64) || (pos.y - pl.y).abs() as f64 > tol(pl.y as f64)) {
                                errs.push(format!("{mode:?} position_at({progress}) = ({}, {}) is not the last point ({}, {})", pos.x, pos.y, pl.x, pl.y));
                            }
                            if pos.x.is_nan() || pos.y.is_nan() {
                                errs.push(format!("{mode:?} position_at({progress}) is NaN"));
                            }
                        }
                        let (wx, wy) = match if model_applicable { gets(e, "kind") } else { "skip" } {
                            "skip" => (pos.x as f64, pos.y as f64),
                            "origin" => (0.0, 0.0),
                            "vertex" => rat_point(&want_path[geti(e, "i") as usize - 1]),
                            _ => {
                                let i = geti(e, "i") as usize;
                                let (x0, y0) = rat_point(&want_path[i - 2]);
                                let (x1, y1) = rat_point(&want_path[i - 1]);
                                let w = geti(e, "wn") as f64 / geti(e, "wd") as f64;
                                (x0 + (x1 - x0) * w, y0 + (y1 - y0) * w)
                            }
                        };
                        if model_applicable && ((pos.x as f64 - wx).abs() > tol(wx) || (pos.y as f64 - wy).abs() > tol(wy)) {
                            errs.push(format!("{mode:?} position_at({progress}) = ({}, {}), expected ({wx}, {wy})", pos.x, pos.y));
                        }
                        // the composed accessors agree with position_at
                        let i = curve.idx_of_dist(d);
                        let q = curve.interpolate_vertices(i, d);
                        if q != pos {
                            errs.push(format!("{mode:?} interpolate_vertices(idx_of_dist(d), d) != position_at"));
                        }
                        let b = curve.as_borrowed_curve();
                        if b.position_at(progress) != pos || b.progress_to_dist(progress) != d || b.idx_of_dist(d) != i {
                            errs.push(format!("{mode:?} BorrowedCurve accessors differ"));
                        }
                        // never farther apart than the arc length between them
                        if let Some((ld, lp)) = last {
                            let moved = (((pos.x - lp.x) as f64).powi(2) + ((pos.y - lp.y) as f64).powi(2)).sqrt();
                            if moved > (d - ld).abs() + 2.0 * tol(wx.abs().max(wy.abs())) {
                                errs.push(format!("{mode:?} moved {moved} between distances {ld} and {d}"));
                            }
                        }
                        last = Some((d, pos));
                    }
                    // at each vertex's cumulative length the position is that vertex
                    if dist > 0.0 {
                        for (i, l) in curve.lengths().iter().enumerate() {
                            if i >= curve.path().len() {
                                break;
                            }
                            let pos = curve.position_at(l / dist);
                            let v = curve.path()[i];
                            let t = 2.0 * tol((v.x.abs().max(v.y.abs())) as f64) + 1e-6 * dist;
                            if ((pos.x - v.x) as f64).abs() > t || ((pos.y - v.y) as f64).abs() > t {
                                errs.push(format!("{mode:?} position at lengths[{i}]/dist is ({}, {}), vertex is ({}, {})", pos.x, pos.y, v.x, v.y));
                            }
                        }
                    }
                }
                if !errs.is_empty() {
                    break;
                }
            }
            errs
        });
        s.checks += 4;
        match r {
            Err(p) => s.mismatch("panic", json!({"case": {"cps": c["cps"], "L": l}, "panic": p})),
            Ok(errs) if !errs.is_empty() => {
                let sig = if prop == "C16" { "curve-length" } else { "curve-position" };
                s.mismatch(sig, json!({"cps": c["cps"], "L": l, "want_path": c["path"], "want_lens": c["lens"], "errors": errs}));
            }
            Ok(_) => s.sample(json!({"cps": c["cps"], "L": l, "path": c["path"], "lens": c["lens"]})),
        }
    });
}

// ---------------------------------------------------------------------------
// CurveCache (C18)

/// The model's pool is abstract (entry 0 = the empty list, the others = distinct inputs); every case is replayed
/// under three concretisations so that each segment type, the fallbacks and the early returns sit on shared buffers.
fn pool(table: usize, i: i64) -> Vec<PathControlPoint> {
    let p = |x: f32, y: f32, t: Option<PathType>| PathControlPoint { pos: Pos::new(x, y), path_type: t };
    let deg = |d: i32| Some(PathType::new_b_spline(std::num::NonZeroI32::new(d).unwrap()));
    match (table, i) {
        (_, 0) => vec![],
        (0, 1) => vec![p(0.0, 0.0, Some(PathType::LINEAR)), p(3.0, 4.0, None)],
        (0, 2) => vec![p(0.0, 0.0, Some(PathType::LINEAR)), p(30.0, 0.0, None), p(30.0, 0.0, Some(PathType::LINEAR)), p(30.0, 40.0, None)],
        (0, 3) => vec![p(0.0, 0.0, Some(PathType::BEZIER)), p(50.0, 80.0, None), p(100.0, 0.0, None), p(150.0, 80.0, None),
                       p(150.0, 80.0, Some(PathType::CATMULL)), p(200.0, 100.0, None), p(180.0, 30.0, None)],
        (0, 4) => vec![p(7.0, 9.0, None)],
        (0, 6) => vec![p(0.0, 0.0, Some(PathType::BEZIER)), p(60.0, 90.0, None), p(120.0, 0.0, None)],
        (0, _) => vec![p(0.0, 0.0, Some(PathType::PERFECT_CURVE)), p(40.0, 40.0, None), p(80.0, 0.0, None)],
        // Catmull, a long bezier, a b-spline with a degree, a perfect curve that falls back to bezier (collinear)
        (1, 1) => vec![p(0.0, 0.0, Some(PathType::CATMULL)), p(40.0, 30.0, None), p(0.0, 60.0, None), p(40.0, 90.0, None), p(0.0, 120.0, None)],
        (1, 2) => (0..14).map(|k| p(20.0 * k as f32, if k % 2 == 0 { 0.0 } else { 70.0 + k as f32 }, if k == 0 { Some(PathType::BEZIER) } else { None })).collect(),
        (1, 3) => (0..9).map(|k| p(25.0 * k as f32, ((k * k) % 7) as f32 * 13.0, if k == 0 { deg(3) } else { None })).collect(),
        (1, 4) => vec![p(1.0, 1.0, Some(PathType::CATMULL))],
        (1, 6) => vec![p(0.0, 0.0, Some(PathType::PERFECT_CURVE)), p(10.0, 10.0, None), p(30.0, 30.0, None)],
        (1, _) => vec![p(0.0, 0.0, Some(PathType::BEZIER)), p(10.0, 50.0, None), p(90.0, 50.0, None), p(100.0, 0.0, None)],
        // a huge arc (> 1000 sub-points: falls back), Catmull after linear, duplicated end, a short then a long bezier
        (_, 1) => vec![p(0.0, 0.0, Some(PathType::PERFECT_CURVE)), p(30000.0, 30000.0, None), p(60000.0, 100.0, None)],
        (_, 2) => vec![p(5.0, 5.0, Some(PathType::LINEAR)), p(50.0, 5.0, None), p(50.0, 5.0, Some(PathType::CATMULL)), p(80.0, 60.0, None),
                       p(20.0, 90.0, None), p(70.0, 140.0, None)],
        (_, 3) => vec![p(0.0, 0.0, Some(PathType::LINEAR)), p(40.0, 0.0, None), p(40.0, 0.0, None)],
        (_, 4) => vec![p(-3.0, 2.0, Some(PathType::PERFECT_CURVE))],
        (_, 6) => (0..25).map(|k| p(7.0 * k as f32, ((k * 37) % 11) as f32 * 9.0, if k == 0 { Some(PathType::BEZIER) } else { None })).collect(),
        (_, _) => vec![p(0.0, 0.0, Some(PathType::BEZIER)), p(30.0, 40.0, None)],
    }
}
fn len_choice(table: usize, l: i64) -> Option<f64> {
    match (table, l) {
        (_, 0) => None,
        (0, 1) => Some(25.0),
        (0, _) => Some(500.0),
        (1, 1) => Some(-1.0),       // the early return for a non-positive length
        (1, _) => Some(0.001),
        (_, 1) => Some(100_000.0),
        (_, _) => Some(61.5),
    }
}

pub fn cache_replay(args: &Args, s: &mut Summary) {
    let mut n = 0usize;
    args.for_each_case(|_, c| {
        s.cases += 1;
        n += 1;
        let ops = geta(&c, "ops");
        s.nontrivial_key(&c["ops"].to_string());
        // one concretisation per case in turn (the enumeration contains every operation sequence many times over
        // up to renaming of pool entries), all three for the first cases
        // a fourth concretisation is drawn with the seed: random control-point lists of every segment type
        for tb in (if n <= 3000 { 0..4usize } else { (n % 4)..(n % 4 + 1) }) {
        let mode = MODES[(n / 4 + tb) % 4];
        let seed = args.seed;
        let pool = |i: i64| if tb == 3 { if i == 0 { vec![] } else { gen_cps(&mut Rng::new(seed.wrapping_mul(131).wrapping_add(i as u64))) } } else { pool(tb, i) };
        let len_choice = |l: i64| if tb == 3 { match l { 0 => None, 1 => Some(40.0 + (seed % 97) as f64 * 1.5), _ => Some(0.5 + (seed % 13) as f64) } } else { len_choice(tb, l) };
        let label = format!("cache replay table {tb} {}", c["ops"]);
        let r = guarded(&label, || {
            let mut bufs = CurveBuffers::default();
            let mut sp = SliderPath::new(mode, pool(1), len_choice(0));
            for (k, o) in ops.iter().enumerate() {
                let (i, l) = (geti(o, "i"), geti(o, "l"));
                let fresh = || Curve::new(mode, &pool(i), len_choice(l), &mut CurveBuffers::default());
                let bad = match gets(o, "op") {
                    "owned" => Curve::new(mode, &pool(i), len_choice(l), &mut bufs) != fresh(),
                    "borrowed" => {
                        let pts = pool(i);
                        let b = BorrowedCurve::new(mode, &pts, len_choice(l), &mut bufs);
                        let f = fresh();
                        b.path() != f.path() || b.lengths() != f.lengths()
                    }
                    "path_curve" => *sp.curve() != fresh(),
                    "path_curve_bufs" => *sp.curve_with_bufs(&mut bufs) != fresh(),
                    "path_borrowed" => {
                        let b = sp.borrowed_curve(&mut bufs);
                        let f = fresh();
                        b.path() != f.path() || b.lengths() != f.lengths()
                    }
                    "mut_points" => {
                        *sp.control_points_mut() = pool(i);
                        false
                    }
                    "mut_len" => {
                        *sp.expected_dist_mut() = len_choice(l);
                        false
                    }
                    "clear" => {
                        sp.clear_curve();
                        false
                    }
                    op @ ("clone_from" | "clone_from_cached") => {
                        let mut source = SliderPath::new(mode, pool(i), len_choice(l));
                        if op == "clone_from_cached" {
                            let _ = source.curve();
                        }
                        sp.clone_from(&source);
                        false
                    }
                    other => panic!("op {other}"),
                };
                if bad {
                    return Some((k, o.clone()));
                }
                // the accessors must reflect the path's current inputs
                if sp.control_points() != pool(geti(o, "i")).as_slice() && matches!(gets(o, "op"), "mut_points" | "clone_from" | "clone_from_cached") {
                    return Some((k, json!({"what": "control_points() after mutation"})));
                }
            }
            None
        });
        s.checks += ops.len() as u64;
        match r {
            Err(p) => s.mismatch("panic", json!({"ops": c["ops"], "panic": p})),
            Ok(Some((k, o))) => s.mismatch(&format!("impure:{}", o.get("op").and_then(|x| x.as_str()).unwrap_or("?")),
                                           json!({"ops": c["ops"], "failed_at": k, "op": o, "mode": format!("{mode:?}"), "table": tb})),
            Ok(None) => s.sample(json!({"ops": ops.iter().map(|o| format!("{}({},{})", gets(o, "op"), geti(o, "i"), geti(o, "l"))).collect::<Vec<_>>()})),
        }
        }
    });
}

// ---------------------------------------------------------------------------
// CurveLength!Contract / CutOrExtend restated on the REAL natural polyline: the model enumerates
// lattice polylines (straight segments); for Bezier, perfect-curve, Catmull and b-spline segments the
// natural polyline is whatever the approximators produce, and the contract is evaluated on it.

fn gen_cps(rng: &mut Rng) -> Vec<PathControlPoint> {
    let n = 1 + rng.below(12);
    let coord = |rng: &mut Rng| -> f32 {
        match rng.below(5) {
            0 => rng.below(512) as f32,
            1 => rng.below(40) as f32 - 10.0,
            2 => rng.below(5120) as f32 / 10.0,
            3 => rng.below(512000) as f32 / 1000.0 - 100.0,
            _ => (rng.below(64) * 8) as f32,
        }
    };
    let ty = |rng: &mut Rng| -> PathType {
        match rng.below(9) {
            0 | 1 => PathType::LINEAR,
            2 | 3 => PathType::BEZIER,
            4 | 5 => PathType::PERFECT_CURVE,
            6 | 7 => PathType::CATMULL,
            _ => PathType::new_b_spline(std::num::NonZeroI32::new(1 + rng.below(4) as i32).unwrap()),
        }
    };
    let mut v: Vec<PathControlPoint> = vec![];
    let shape = rng.below(8);
    for i in 0..n {
        let pos = if i > 0 && rng.chance(1, 7) {
            v[i - 1].pos // a duplicate
        } else if i > 1 && shape == 0 {
            // a collinear run
            let d = v[1].pos - v[0].pos;
            v[i - 1].pos + d
        } else {
            Pos::new(coord(rng), coord(rng))
        };
        let path_type = if i == 0 { Some(ty(rng)) } else if rng.chance(1, 5) { Some(ty(rng)) } else { None };
        v.push(PathControlPoint { pos, path_type });
    }
    match shape {
        // an almost flat three-point arc: the middle point a hair off the chord
        1 if n >= 3 => {
            let a = v[0].pos;
            let c = v[2].pos;
            let off = *rng.pick(&[0.01f32, 0.05, 0.1, 0.3, 1.0, -0.02]);
            v[1].pos = Pos::new((a.x + c.x) / 2.0 + off * 0.3, (a.y + c.y) / 2.0 + off);
            v[0].path_type = Some(PathType::PERFECT_CURVE);
            v[1].path_type = None;
            v[2].path_type = if n > 3 { Some(PathType::LINEAR) } else { None };
        }
        // a three-point arc over a LONG chord with the middle point a hair off it: the circle exists (the collinearity
        // test is passed, the centre is finite) but its radius is beyond single precision
        5 if n >= 3 => {
            let chord = *rng.pick(&[20000.0f32, 40000.0, 100000.0, 8000.0]);
            let off = *rng.pick(&[1e-11f32, 1e-9, 1e-7, 1e-5, -1e-10]);
            v[0].pos = Pos::new(0.0, 0.0);
            v[1].pos = Pos::new(chord / 2.0, off);
            v[2].pos = Pos::new(chord, 0.0);
            v[0].path_type = Some(PathType::PERFECT_CURVE);
            v[1].path_type = None;
            v[2].path_type = if n > 3 { Some(PathType::LINEAR) } else { None };
        }
        // a zig-zag Catmull
        2 => {
            for (i, p) in v.iter_mut().enumerate() {
                p.pos = Pos::new(if i % 2 == 0 { 0.0 } else { 40.0 + (i as f32) }, 30.0 * i as f32);
                p.path_type = if i == 0 { Some(PathType::CATMULL) } else { None };
            }
        }
        // two vertices a hair apart after a long stretch (a segment far below f32 resolution of its distance)
        4 if n >= 3 => {
            let k = n - 1;
            let d = *rng.pick(&[1e-5f32, 3e-5, 1e-4, 1e-6]);
            v[0].pos = Pos::new(0.0, 0.0);
            v[1].pos = Pos::new(*rng.pick(&[300.0f32, 5000.0, 70.0]), 0.0);
            v[k].pos = Pos::new(v[k - 1].pos.x + d, v[k - 1].pos.y);
            for p in v.iter_mut() {
                p.path_type = None;
            }
            v[0].path_type = Some(PathType::LINEAR);
        }
        // a single typed arc or Catmull in the middle of straight pieces
        3 if n >= 6 => {
            v[0].path_type = Some(PathType::LINEAR);
            v[2].path_type = Some(if rng.chance(1, 2) { PathType::CATMULL } else { PathType::PERFECT_CURVE });
            v[3].path_type = None;
            v[4].path_type = None;
            v[5].path_type = Some(PathType::LINEAR);
        }
        _ => {}
    }
    v
}

fn has_catmull(cps: &[PathControlPoint]) -> bool {
    let mut cur = None;
    for (i, c) in cps.iter().enumerate() {
        if c.path_type.is_some() {
            cur = c.path_type;
        }
        // a segment needs a following point to produce anything
        if cur == Some(PathType::CATMULL) && i + 1 < cps.len() {
            return true;
        }
    }
    false
}

fn shape_errors(curve: &Curve, what: &str, errs: &mut Vec<String>) {
    let lens = curve.lengths();
    if lens.first().copied() != Some(0.0) {
        errs.push(format!("{what}: cumulative lengths do not start at 0: {:?}", lens.first()));
    }
    if lens.iter().any(|l| !l.is_finite()) || curve.path().iter().any(|p| !p.x.is_finite() || !p.y.is_finite()) || !curve.dist().is_finite() {
        errs.push(format!("{what}: non-finite value in the curve (lengths {:?})", &lens[..lens.len().min(6)]));
    }
    if lens.windows(2).any(|w| w[1] < w[0] - 1e-5) {
        errs.push(format!("{what}: cumulative lengths decrease"));
    }
    if !(lens.len() == curve.path().len() || lens.len() == curve.path().len() + 1) {
        errs.push(format!("{what}: {} lengths for {} points", lens.len(), curve.path().len()));
    }
}

pub fn relations(args: &Args, s: &mut Summary) {
    let iters = args.opt_usize("iters", 20000);
    let mut rng = Rng::new(args.seed);
    for it in 0..iters {
        let cps = gen_cps(&mut rng);
        let label = format!("curve relations {:?}", cps);
        let cat = has_catmull(&cps);
        let r = guarded(&label, || {
            let mut errs: Vec<String> = vec![];
            let mut nat_dists: Vec<f64> = vec![];
            for mode in MODES {
                let mut bufs = CurveBuffers::default();
                let nat = Curve::new(mode, &cps, None, &mut bufs);
                shape_errors(&nat, &format!("{mode:?} natural"), &mut errs);
                let p = nat.path().to_vec();
                let own: f64 = p.windows(2).map(|w| f64::from((w[1] - w[0]).length())).sum();
                nat_dists.push(nat.dist());
                // without a requested length the distance is the polyline's own length (the osu! Catmull
                // simplification removes vertices and carries their length separately: compared across modes below)
                if !(cat && mode == GameMode::Osu) && (nat.dist() - own).abs() > 1e-9 * own.max(1.0) {
                    errs.push(format!("{mode:?} natural distance {} is not the polyline's own length {own}", nat.dist()));
                }
                let nd = nat.dist();
                let dup_end = p.len() >= 2 && p[p.len() - 1] == p[p.len() - 2];
                let choices = [1e-3, nd * 0.37, nd * 0.5 + 0.123, (nd - 1e-9).max(1e-6), nd, nd + 1e-9, nd + 3.5, nd * 2.0 + 1.0, 99_999.5, -5.0, 0.0];
                for l in choices {
                    let mut b2 = CurveBuffers::default();
                    let adj = Curve::new(mode, &cps, Some(l), &mut b2);
                    let what = format!("{mode:?} L={l}");
                    shape_errors(&adj, &what, &mut errs);
                    if (nd - l).abs() < f64::EPSILON {
                        if adj != nat {
                            errs.push(format!("{what}: the requested length is the natural one but the curve changed"));
                        }
                        continue;
                    }
                    if p.len() == 1 || (dup_end && l > nd) {
                        if adj.dist() != nd {
                            errs.push(format!("{what}: exception case (single point / repeated end) but distance {} is not the natural {nd}", adj.dist()));
                        }
                        continue;
                    }
                    if l > 0.0 && p.len() >= 2 {
                        if adj.dist() != l {
                            errs.push(format!("{what}: distance {} is not the requested length (natural {nd})", adj.dist()));
                        }
                        // cut or extend: all vertices but the last are natural vertices, the last lies on the segment it replaces
                        let q = adj.path();
                        if q.len() > p.len() || q.len() < 2 || q[..q.len() - 1] != p[..q.len() - 1] {
                            errs.push(format!("{what}: the adjusted curve is not a prefix of the natural one plus an end point"));
                        } else {
                            let k = q.len() - 1;
                            let (a, b, e) = (p[k - 1], p[k], q[k]);
                            let rem = l - adj.lengths()[k - 1];
                            let d = b - a;
                            let len = f64::from(d.length());
                            if len > 0.0 {
                                let t = 1e-3 + 1e-4 * (rem.abs() + f64::from(a.x.abs().max(a.y.abs())));
                                let (wx, wy) = (f64::from(a.x) + f64::from(d.x) / len * rem, f64::from(a.y) + f64::from(d.y) / len * rem);
                                if rem <= 0.0 || (f64::from(e.x) - wx).abs() > t || (f64::from(e.y) - wy).abs() > t {
                                    errs.push(format!("{what}: end point ({}, {}) is not at distance {rem} along the segment ({}, {})->({}, {})", e.x, e.y, a.x, a.y, b.x, b.y));
                                }
                                // a CUT (the curve got shorter) must not leave the segment it falls in
                                if l < nd && rem > len + t {
                                    errs.push(format!("{what}: cut point {rem} along a segment of length {len} ({}, {})->({}, {}): beyond the segment{}", a.x, a.y, b.x, b.y,
                                                      if cat && mode == GameMode::Osu && k == 1 { " [osu! Catmull compensation booked on the first segment]" } else { "" }));
                                }
                            }
                        }
                    }
                    // (L <= 0 is outside the statement; on the lattice the model pins what the code does with it)
                }
                if !errs.is_empty() {
                    break;
                }
            }
            // in osu! mode the simplification of Catmull paths leaves the total length unchanged
            if errs.is_empty() && cat {
                let (o, t) = (nat_dists[0], nat_dists[1]);
                if (o - t).abs() > 1e-5 * t.max(1.0) {
                    errs.push(format!("Catmull simplification changed the natural length: osu! {o} vs {t}"));
                }
            }
            errs
        });
        s.cases += 1;
        s.checks += 44;
        if cps.len() >= 3 {
            s.nontrivial_key(&format!("{it}"));
        }
        match r {
            Err(p) => s.mismatch("panic", json!({"cps": format!("{cps:?}"), "panic": p})),
            Ok(errs) if !errs.is_empty() => {
                let sig = if errs.iter().all(|e| e.contains("[osu! Catmull compensation booked on the first segment]")) { "curve-contract:cut-beyond-first-segment:osu-catmull" }
                          else if errs[0].contains("non-finite") { "curve-contract:non-finite" } else if errs[0].contains("Catmull simplification") { "curve-contract:catmull-length" } else { "curve-contract" };
                s.mismatch(sig, json!({"cps": format!("{cps:?}"), "errors": errs.iter().take(4).collect::<Vec<_>>()}));
            }
            Ok(_) => {
                if it < 3 {
                    s.sample(json!({"cps": format!("{cps:?}")}));
                }
            }
        }
    }
}

/// debugging aid: `curve show --cps "x,y,T;x,y,-;..." --len L` prints the curve in every mode
pub fn show(args: &Args, _s: &mut Summary) {
    let cps: Vec<PathControlPoint> = args.opt("cps").expect("--cps").split(';').map(|t| {
        let f: Vec<&str> = t.split(',').collect();
        PathControlPoint {
            pos: Pos::new(f[0].parse().unwrap(), f[1].parse().unwrap()),
            path_type: match f[2] {
                "L" => Some(PathType::LINEAR),
                "B" => Some(PathType::BEZIER),
                "P" => Some(PathType::PERFECT_CURVE),
                "C" => Some(PathType::CATMULL),
                _ => None,
            },
        }
    }).collect();
    let l: Option<f64> = args.opt("len").map(|x| x.parse().unwrap());
    for mode in MODES {
        let mut bufs = CurveBuffers::default();
        let c = Curve::new(mode, &cps, l, &mut bufs);
        let n = c.path().len();
        eprintln!("{mode:?}: {} points, dist {}, first points {:?} last {:?}, lens first {:?} last {:?}", n, c.dist(), &c.path()[..n.min(4)],
                  c.path().last(), &c.lengths()[..c.lengths().len().min(4)], c.lengths().last());
    }
}

// ---------------------------------------------------------------------------
// C19 on REAL curves with many points: the statement's relations and CurveLength!PosSeg (first index
// whose cumulative length reaches d, by linear scan) for dense and random progress values.

fn pos_ref(path: &[Pos], lens: &[f64], progress: f64) -> (f64, Option<Pos>) {
    let dist = lens.last().copied().unwrap_or(0.0);
    let d = progress.clamp(0.0, 1.0) * dist;
    if path.is_empty() {
        return (d, Some(Pos::default()));
    }
    let i = match lens.iter().position(|l| *l >= d) {
        Some(i) => i,
        None => return (d, None), // d beyond every length (non-monotone rounding): no prediction
    };
    if i == 0 {
        return (d, Some(path[0]));
    }
    if i >= path.len() {
        return (d, Some(path[path.len() - 1]));
    }
    let (d0, d1) = (lens[i - 1], lens[i]);
    if (d0 - d1).abs() <= f64::EPSILON {
        return (d, Some(path[i - 1]));
    }
    let w = (d - d0) / (d1 - d0);
    (d, Some(path[i - 1] + (path[i] - path[i - 1]) * w as f32))
}

pub fn posrel(args: &Args, s: &mut Summary) {
    let iters = args.opt_usize("iters", 5000);
    let mut rng = Rng::new(args.seed ^ 0x19);
    for it in 0..iters {
        let cps = gen_cps(&mut rng);
        let mode = MODES[rng.below(4)];
        let expected = match rng.below(4) {
            0 => None,
            1 => Some(1.0 + rng.below(400) as f64 * 0.75),
            2 => Some(2000.0),
            _ => Some(0.001),
        };
        let mut ps: Vec<f64> = vec![-1.0, -0.0, 0.0, f64::MIN_POSITIVE, 5e-324, 1e-300, 0.5, 1.0 - f64::EPSILON, 1.0, 1.0 + 1e-12, 2.5,
                                    f64::INFINITY, f64::NEG_INFINITY];
        for _ in 0..24 {
            ps.push(rng.below(1_000_001) as f64 / 1_000_000.0);
        }
        for k in 0..=16 {
            ps.push(k as f64 / 16.0);
        }
        let label = format!("curve posrel {:?} {:?} {:?}", cps, expected, mode);
        let r = guarded(&label, || {
            let mut errs: Vec<String> = vec![];
            let mut bufs = CurveBuffers::default();
            let curve = Curve::new(mode, &cps, expected, &mut bufs);
            let (path, lens) = (curve.path(), curve.lengths());
            if path.is_empty() || lens.iter().any(|l| !l.is_finite()) {
                return (errs, 0);
            }
            let dist = curve.dist();
            let b = curve.as_borrowed_curve();
            let big = path.iter().fold(0f32, |m, p| m.max(p.x.abs()).max(p.y.abs())) as f64;
            let t = 2.0 * tol(big) + 1e-6 * dist;
            // exact vertex fractions
            let mut all = ps.clone();
            if dist > 0.0 {
                for l in lens.iter().step_by(1 + lens.len() / 40) {
                    all.push(l / dist);
                }
            }
            let mut seen: Vec<(f64, Pos)> = vec![];
            for &p in &all {
                let pos = curve.position_at(p);
                let d = curve.progress_to_dist(p);
                if d != p.clamp(0.0, 1.0) * dist {
                    errs.push(format!("progress_to_dist({p}) = {d}, total distance {dist}"));
                }
                // (within f32 resolution: the osu! Catmull compensation term can be a rounding-size negative number,
                // which puts the second cumulative length a hair below 0)
                if p <= 0.0 && ((pos.x - path[0].x).abs() as f64 > t || (pos.y - path[0].y).abs() as f64 > t) {
                    errs.push(format!("position_at({p}) = ({}, {}) is not the first point", pos.x, pos.y));
                }
                let last = path[path.len() - 1];
                if p >= 1.0 && ((pos.x - last.x).abs() as f64 > t || (pos.y - last.y).abs() as f64 > t) {
                    errs.push(format!("position_at({p}) = ({}, {}) is not the last point ({}, {})", pos.x, pos.y, last.x, last.y));
                }
                if !pos.x.is_finite() || !pos.y.is_finite() {
                    errs.push(format!("position_at({p}) is not finite"));
                }
                if let (_, Some(want)) = pos_ref(path, lens, p) {
                    if ((pos.x - want.x).abs() as f64) > t || ((pos.y - want.y).abs() as f64) > t {
                        errs.push(format!("position_at({p}) = ({}, {}), the first index reaching d={d} gives ({}, {})", pos.x, pos.y, want.x, want.y));
                    }
                }
                let i = curve.idx_of_dist(d);
                if curve.interpolate_vertices(i, d) != pos || b.position_at(p) != pos || b.progress_to_dist(p) != d || b.idx_of_dist(d) != i
                    || b.interpolate_vertices(i, d) != pos {
                    errs.push(format!("accessors disagree at progress {p}"));
                }
                seen.push((d, pos));
                if errs.len() > 3 {
                    break;
                }
            }
            // never farther apart than the arc length between them
            seen.sort_by(|a, b| a.0.total_cmp(&b.0));
            for w in seen.windows(2) {
                let moved = (((w[1].1.x - w[0].1.x) as f64).powi(2) + ((w[1].1.y - w[0].1.y) as f64).powi(2)).sqrt();
                if moved > (w[1].0 - w[0].0).abs() + 2.0 * t {
                    errs.push(format!("moved {moved} between distances {} and {}", w[0].0, w[1].0));
                    break;
                }
            }
            // at each vertex's cumulative length the position is that vertex
            if dist > 0.0 {
                for (i, l) in lens.iter().enumerate().take(path.len()) {
                    let pos = curve.position_at(l / dist);
                    if ((pos.x - path[i].x) as f64).abs() > t || ((pos.y - path[i].y) as f64).abs() > t {
                        errs.push(format!("position at lengths[{i}]/dist is ({}, {}), the vertex is ({}, {})", pos.x, pos.y, path[i].x, path[i].y));
                        break;
                    }
                }
            }
            (errs, path.len())
        });
        s.cases += 1;
        s.checks += 60;
        match r {
            Err(p) => s.mismatch("panic", json!({"cps": format!("{cps:?}"), "panic": p})),
            Ok((errs, _)) if !errs.is_empty() => s.mismatch("curve-position:real", json!({"cps": format!("{cps:?}"), "L": expected, "mode": format!("{mode:?}"),
                                                                                          "errors": errs.iter().take(4).collect::<Vec<_>>()})),
            Ok((_, n)) => {
                if n >= 8 {
                    s.nontrivial_key(&format!("{it}"));
                }
                if it < 2 {
                    s.sample(json!({"cps": format!("{cps:?}"), "points": n}));
                }
            }
        }
    }
}
