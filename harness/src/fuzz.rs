//! C01: totality of decoding / re-encoding on arbitrary bytes (exploration).
use crate::framing::{bundled_files, encode_text, text_of_bundled, ENCODINGS};
use crate::gen::{gen_map, GenOpts};
use crate::util::*;
use rosu_map::section::colors::Colors;
use rosu_map::section::difficulty::Difficulty;
use rosu_map::section::editor::Editor;
use rosu_map::section::events::Events;
use rosu_map::section::general::General;
use rosu_map::section::hit_objects::HitObjects;
use rosu_map::section::metadata::Metadata;
use rosu_map::section::timing_points::TimingPoints;
use rosu_map::Beatmap;
use serde_json::json;

fn hex(b: &[u8]) -> String {
    let n = b.len().min(3000);
    let mut s: String = b[..n].iter().map(|x| format!("{x:02x}")).collect();
    if b.len() > n {
        s.push_str("...");
    }
    s
}

/// the C01 oracle on one input; returns (signature, detail) of the first problem
fn check_one(bytes: &[u8]) -> Option<(String, String)> {
    macro_rules! dec { ($T:ty, $n:expr) => {
        match guarded(concat!("decode ", $n), || rosu_map::from_bytes::<$T>(bytes).map(|_| ())) {
            Err(p) => return Some((format!("panic:decode:{}", $n), p)),
            Ok(Err(e)) => return Some((format!("error-from-in-memory-buffer:{}", $n), e.to_string())),
            Ok(Ok(())) => {}
        }
    } }
    dec!(General, "General");
    dec!(Editor, "Editor");
    dec!(Metadata, "Metadata");
    dec!(Difficulty, "Difficulty");
    dec!(Events, "Events");
    dec!(Colors, "Colors");
    dec!(TimingPoints, "TimingPoints");
    dec!(HitObjects, "HitObjects");
    let map = match guarded("decode Beatmap", || rosu_map::from_bytes::<Beatmap>(bytes)) {
        Err(p) => return Some(("panic:decode:Beatmap".into(), p)),
        Ok(Err(e)) => return Some(("error-from-in-memory-buffer:Beatmap".into(), e.to_string())),
        Ok(Ok(m)) => m,
    };
    // re-encoding completes and yields valid UTF-8 (encode_to_string checks that), and decodes again
    let text = match guarded("encode", || {
        let mut m = map.clone();
        m.encode_to_string()
    }) {
        Err(p) => return Some(("panic:encode".into(), p)),
        Ok(Err(e)) => return Some(("encode-error".into(), e.to_string())),
        Ok(Ok(t)) => t,
    };
    match guarded("second decode", || rosu_map::from_str::<Beatmap>(&text).map(|_| ())) {
        Err(p) => return Some(("panic:second-decode".into(), p)),
        Ok(Err(e)) => return Some(("second-decode-error".into(), e.to_string())),
        Ok(Ok(())) => {}
    }
    // derived accessors that run the curve code on hostile paths
    let r = guarded("curves", || {
        let mut m = map.clone();
        let mut bufs = rosu_map::section::hit_objects::CurveBuffers::default();
        for h in m.hit_objects.iter_mut() {
            let e = h.end_time_with_bufs(&mut bufs);
            if e.is_nan() && h.start_time.is_finite() {
                // NaN durations can only come from NaN velocities; nothing to assert, just run the code
            }
            if let rosu_map::section::hit_objects::HitObjectKind::Slider(s) = &mut h.kind {
                let c = s.path.curve_with_bufs(&mut bufs);
                let _ = c.position_at(0.5);
            }
        }
    });
    if let Err(p) = r {
        return Some(("panic:curve".into(), p));
    }
    None
}

fn mutate(rng: &mut Rng, base: &[u8], other: &[u8]) -> Vec<u8> {
    let mut b = base.to_vec();
    let hostile_nums: [&[u8]; 16] = [b"NaN", b"inf", b"-inf", b"1e400", b"2147483647", b"-2147483648", b"99999999999999999999", b"9001", b"131073",
                                     b"-0", b"", b"1e-320", b"0x10", b"\xff", b"|", b":"];
    for _ in 0..(1 + rng.below(4)) {
        if b.is_empty() {
            break;
        }
        match rng.below(9) {
            0 => {
                let i = rng.below(b.len());
                b[i] = rng.next() as u8;
            }
            1 => {
                let i = rng.below(b.len());
                b.truncate(i);
            }
            2 => {
                // delete a line
                let lines: Vec<&[u8]> = b.split(|c| *c == b'\n').collect();
                let k = rng.below(lines.len());
                b = lines.iter().enumerate().filter(|(i, _)| *i != k).map(|(_, l)| l.to_vec()).collect::<Vec<_>>().join(&b'\n');
            }
            3 => {
                // duplicate / swap lines
                let mut lines: Vec<Vec<u8>> = b.split(|c| *c == b'\n').map(|l| l.to_vec()).collect();
                let (i, j) = (rng.below(lines.len()), rng.below(lines.len()));
                if rng.chance(1, 2) {
                    lines.swap(i, j);
                } else {
                    let l = lines[i].clone();
                    lines.insert(j, l);
                }
                b = lines.join(&b'\n');
            }
            4 | 5 => {
                // replace one comma/colon/pipe separated field by a hostile numeric
                let seps: Vec<usize> = b.iter().enumerate().filter(|(_, c)| matches!(**c, b',' | b':' | b'|')).map(|(i, _)| i).collect();
                if seps.len() >= 2 {
                    let k = rng.below(seps.len() - 1);
                    let (s, e) = (seps[k] + 1, seps[k + 1]);
                    if e > s && !b[s..e].contains(&b'\n') {
                        let rep = *rng.pick(&hostile_nums);
                        b.splice(s..e, rep.iter().cloned());
                    }
                }
            }
            6 => {
                // splice with another file
                if !other.is_empty() {
                    let i = rng.below(b.len());
                    let j = rng.below(other.len());
                    b.truncate(i);
                    b.extend_from_slice(&other[j..]);
                }
            }
            7 => {
                let i = rng.below(b.len());
                let junk: Vec<u8> = (0..rng.below(8)).map(|_| rng.next() as u8).collect();
                b.splice(i..i, junk);
            }
            _ => {
                // insert a very long digit run / repeated separator
                let i = rng.below(b.len());
                let run: Vec<u8> = std::iter::repeat(*rng.pick(&[b'9', b'|', b',', b':', b'B', b' '])).take(1 + rng.below(300)).collect();
                b.splice(i..i, run);
            }
        }
    }
    b
}

pub fn explore(args: &Args, s: &mut Summary) {
    let iters = args.opt_usize("iters", 3000);
    let mut rng = Rng::new(args.seed);
    let mut corpus: Vec<Vec<u8>> = vec![];
    let mut small: Vec<Vec<u8>> = vec![];
    for (_, bytes) in bundled_files() {
        if bytes.len() < 30_000 {
            small.push(bytes.clone());
        }
        corpus.push(bytes);
    }
    for i in 0..40 {
        let mut o = GenOpts::hostile();
        o.mode = Some((i % 4) as u8);
        let t = gen_map(&mut rng, &o);
        small.push(t.clone().into_bytes());
        corpus.push(t.into_bytes());
    }
    let mut run = |bytes: &[u8], what: &str, s: &mut Summary| {
        s.cases += 1;
        s.checks += 11;
        if let Some((sig, detail)) = check_one(bytes) {
            s.mismatch(&sig, json!({"input": what, "len": bytes.len(), "detail": detail, "hex": hex(bytes)}));
        }
        if bytes.len() > 20 {
            s.nontrivial_key(&format!("{what}:{}:{:x}", bytes.len(), bytes.iter().take(64).fold(0u64, |a, b| a.wrapping_mul(131).wrapping_add(*b as u64))));
        }
    };
    // (1) the corpus itself in all encodings, and every truncation of the small files
    for (i, f) in corpus.iter().enumerate() {
        run(f, &format!("corpus-{i}"), s);
        if let Some(t) = text_of_bundled(f) {
            if t.len() < 30_000 {
                for enc in ENCODINGS {
                    run(&encode_text(&t, enc), &format!("corpus-{i}-{enc}"), s);
                }
            }
        }
    }
    for (i, f) in small.iter().enumerate() {
        let step = if f.len() > 4000 { 37 } else if f.len() > 1200 { 5 } else { 1 };
        let mut n = 0;
        while n <= f.len() {
            run(&f[..n], &format!("small-{i}-truncated-{n}"), s);
            n += step;
        }
        // UTF-16 variants truncated at odd/even lengths
        if let Some(t) = text_of_bundled(f) {
            if t.len() < 2500 {
                for enc in ["utf16le", "utf16be"] {
                    let b = encode_text(&t, enc);
                    let mut n = 0;
                    while n <= b.len() {
                        run(&b[..n], &format!("small-{i}-{enc}-truncated-{n}"), s);
                        n += 7;
                    }
                }
            }
        }
    }
    // (2) uniform and structured noise
    for k in 0..iters / 3 {
        let len = rng.below(260);
        let bytes: Vec<u8> = match k % 4 {
            0 => (0..len).map(|_| rng.next() as u8).collect(),
            1 => (0..len).map(|_| *rng.pick(b"0123456789,:|.-\n[]BLPCeNa \r\t/\"")).collect(),
            2 => {
                let mut v = rng.pick(&[&[0xEFu8, 0xBB, 0xBF][..], &[0xFF, 0xFE][..], &[0xFE, 0xFF][..], &[][..]]).to_vec();
                v.extend((0..len).map(|_| *rng.pick(b"0123456789,:|\n\0[HitObjects]TimingPoints")));
                v
            }
            _ => {
                let mut v = b"[HitObjects]\n".to_vec();
                v.extend((0..len).map(|_| *rng.pick(b"0123456789,:|.-\nBLPC")));
                v
            }
        };
        run(&bytes, "noise", s);
    }
    // (2b) freshly generated hostile maps (old format versions included: some encoder paths depend on the version),
    //      small so that decode + encode + decode stays cheap
    for k in 0..iters / 4 {
        let mut o = GenOpts::hostile();
        o.mode = Some((k % 4) as u8);
        o.objects = 2 + rng.below(6);
        o.timing_lines = 1 + rng.below(6);
        let mut t = gen_map(&mut rng, &o);
        if k % 2 == 0 {
            // an old version header
            if let Some(nl) = t.find('\n') {
                t = format!("osu file format v{}{}", *rng.pick(&[3, 4, 5, 6, 7]), &t[nl..]);
            }
        }
        run(t.as_bytes(), "generated-hostile", s);
    }
    // (3) mutations and splices
    for _ in 0..iters {
        let a = rng.below(corpus.len());
        let b = rng.below(corpus.len());
        // keep the big maps rare: they are slow
        if corpus[a].len() > 200_000 && !rng.chance(1, 20) {
            continue;
        }
        let m = mutate(&mut rng, &corpus[a], &corpus[b]);
        run(&m, &format!("mutation-of-{a}"), s);
    }
    s.sample(json!({"corpus_files": corpus.len(), "iterations": iters}));
    s.extra.insert("features".into(), json!(if cfg!(feature = "tracing") { "tracing" } else { "default" }));
}
