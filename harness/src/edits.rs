//! C03: edits to a decoded map survive encode -> decode.  Text edits are predicted by
//! StrCodec.tla; numeric / flag / list edits are checked as a relation.
use crate::gen::{gen_map, GenOpts};
use crate::roundtrip::c02_diffs;
use crate::util::*;
use rosu_map::section::colors::{Color, CustomColor};
use rosu_map::section::events::BreakPeriod;
use rosu_map::section::general::{CountdownType, GameMode};
use rosu_map::Beatmap;
use serde_json::{json, Value};

/// the model's symbol "e" is "some character without a meaning in the syntax": which one is drawn with the seed
static OTHER_CHAR: std::sync::atomic::AtomicU32 = std::sync::atomic::AtomicU32::new('é' as u32);

fn sym_char(s: &str) -> char {
    match s {
        "a" => 'a',
        ":" => ':',
        "/" => '/',
        "," => ',',
        "q" => '"',
        "b" => '\\',
        " " => ' ',
        "e" => char::from_u32(OTHER_CHAR.load(std::sync::atomic::Ordering::Relaxed)).unwrap_or('é'),
        o => panic!("symbol {o}"),
    }
}
fn sym_string(v: &Value) -> String {
    v.as_array().unwrap().iter().map(|s| sym_char(s.as_str().unwrap())).collect()
}

fn base_maps(rng: &mut Rng, n: usize) -> Vec<Beatmap> {
    let mut v = vec![];
    for i in 0..n {
        let mut o = GenOpts::c02();
        o.mode = Some((i % 4) as u8);
        o.objects = 5;
        o.timing_lines = 3;
        if let Ok(m) = rosu_map::from_str::<Beatmap>(&gen_map(rng, &o)) {
            v.push(m);
        }
    }
    v
}

fn reencode(m: &Beatmap) -> Result<Beatmap, String> {
    let mut c = m.clone();
    let text = c.encode_to_string().map_err(|e| format!("encode: {e}"))?;
    rosu_map::from_str::<Beatmap>(&text).map_err(|e| format!("decode: {e}"))
}

/// all C02-preserved fields of `a` and `b` agree except those whose name is in `except`
fn others_unchanged(a: &Beatmap, b: &Beatmap, except: &[&str]) -> Vec<String> {
    c02_diffs(a, b).into_iter().filter(|d| !except.iter().any(|e| d.starts_with(e))).collect()
}

pub fn text_replay(args: &Args, s: &mut Summary) {
    // (not U+2028 / U+0085: they are white space, and surrounding white space is outside the property's domain)
    let others = ['é', '東', '\u{1F600}', 'ß', '\u{301}', '\u{200b}', '\u{feff}', '\u{7f}', 'İ', '\u{ad}', '\u{10FFFF}'];
    OTHER_CHAR.store(others[(args.seed as usize) % others.len()] as u32, std::sync::atomic::Ordering::Relaxed);
    let mut rng = Rng::new(args.seed);
    let bases = base_maps(&mut rng, 4);
    let base_back: Vec<Beatmap> = bases.iter().map(|b| reencode(b).expect("base round trip")).collect();
    let meta_fields = ["title", "title_unicode", "artist", "artist_unicode", "creator", "version", "source", "tags"];
    let mut n = 0usize;
    args.for_each_case(|_, c| {
        s.cases += 1;
        n += 1;
        let f = gets(&c, "f");
        let v = sym_string(&c["v"]);
        let want = if c["back"] == json!(["LOST"]) { None } else { Some(sym_string(&c["back"])) };
        if getb(&c, "rep") {
            s.nontrivial_key(&format!("{f}|{v}"));
        }
        let bi = n % bases.len();
        let mut m = bases[bi].clone();
        let mut base_back_here = base_back[bi].clone();
        // half of the time the edited text is the ONLY non-empty optional text of the map
        if f == "meta" && (n / 8) % 2 == 0 {
            m.title_unicode.clear();
            m.artist_unicode.clear();
            m.source.clear();
            m.tags.clear();
            base_back_here = reencode(&m).expect("base round trip");
        }
        let mfield = meta_fields[n % 8];
        let edited: &str = match f {
            "meta" => {
                match mfield {
                    "title" => m.title = v.clone(),
                    "title_unicode" => m.title_unicode = v.clone(),
                    "artist" => m.artist = v.clone(),
                    "artist_unicode" => m.artist_unicode = v.clone(),
                    "creator" => m.creator = v.clone(),
                    "version" => m.version = v.clone(),
                    "source" => m.source = v.clone(),
                    _ => m.tags = v.clone(),
                }
                mfield
            }
            "audio" => {
                m.audio_file = v.clone();
                "audio_file"
            }
            "bg" => {
                m.background_file = v.clone();
                "background_file"
            }
            _ => {
                m.custom_colors = vec![CustomColor { name: v.clone(), color: Color::new(1, 2, 3, 255) }];
                "custom_colors"
            }
        };
        let r = guarded(&format!("edit {f} {v:?}"), || reencode(&m));
        s.checks += 2;
        match r {
            Err(p) => s.mismatch("panic", json!({"field": edited, "value": v, "panic": p})),
            Ok(Err(e)) => s.mismatch("encode-decode-failed", json!({"field": edited, "value": v, "err": e})),
            Ok(Ok(m2)) => {
                let got: Option<String> = match f {
                    "meta" => Some(match mfield {
                        "title" => m2.title.clone(),
                        "title_unicode" => m2.title_unicode.clone(),
                        "artist" => m2.artist.clone(),
                        "artist_unicode" => m2.artist_unicode.clone(),
                        "creator" => m2.creator.clone(),
                        "version" => m2.version.clone(),
                        "source" => m2.source.clone(),
                        _ => m2.tags.clone(),
                    }),
                    "audio" => Some(m2.audio_file.clone()),
                    "bg" => Some(m2.background_file.clone()),
                    _ => m2.custom_colors.first().map(|c| c.name.clone()),
                };
                let ok = match (&want, &got) {
                    (Some(w), Some(g)) => w == g,
                    (None, None) => true,
                    (None, Some(g)) => f != "colour" && g.is_empty(),
                    _ => false,
                };
                if !ok {
                    s.mismatch(&format!("edited-text:{f}"), json!({"field": edited, "value": v, "got": got, "model_predicts": want, "representable": c["rep"]}));
                } else {
                    let d = others_unchanged(&base_back_here, &m2, &[edited]);
                    if !d.is_empty() {
                        s.mismatch(&format!("edit-changes-other-field:{f}"), json!({"field": edited, "value": v, "changed": d}));
                    }
                }
                s.sample(json!({"field": edited, "value": v, "comes_back_as": got}));
            }
        }
    });
}

/// numeric / flag / enum / list edits: a relation (no model prediction needed: the value must come back)
pub fn relations(args: &Args, s: &mut Summary) {
    let thorough = args.opt("tier") == Some("thorough");
    let mut rng = Rng::new(args.seed);
    let bases = base_maps(&mut rng, if thorough { 40 } else { 8 });
    for (bi, base) in bases.iter().enumerate() {
        let Ok(base_back) = reencode(base) else {
            s.mismatch("base-roundtrip-failed", json!({"base": bi}));
            continue;
        };
        s.cases += 1;
        type Edit = (&'static str, Box<dyn Fn(&mut Beatmap)>, Box<dyn Fn(&Beatmap, &Beatmap) -> bool>);
        let mut edits: Vec<Edit> = vec![];
        macro_rules! set { ($name:expr, $f:ident, $vals:expr) => { for val in $vals { let v1 = val.clone(); edits.push(($name,
            Box::new(move |m: &mut Beatmap| m.$f = v1.clone()), Box::new(|a: &Beatmap, b: &Beatmap| a.$f == b.$f))); } } }
        set!("title_unicode", title_unicode, [String::new(), "t:u".to_string()]);
        set!("artist_unicode", artist_unicode, [String::new(), "a u".to_string()]);
        set!("source", source, [String::new(), "src".to_string()]);
        set!("tags", tags, [String::new(), "x y z".to_string()]);
        set!("title", title, [String::new(), "Re:Zero".to_string()]);
        // invisible but NOT whitespace at the ends, control characters inside, characters that look like syntax
        let awkward: Vec<String> = ["\u{feff}Intro", "Outro\u{feff}", "\u{200b}x\u{200b}", "a\tb", "x\u{2028}y", "ends\\", "\"quoted\"", "\u{1F600}", "\u{2060}",
                                    "a\u{0}b", "[Events]", "1,2,3", "x // y", "\u{e9}\u{301}"].iter().map(|x| x.to_string()).collect();
        set!("title", title, awkward.clone());
        set!("artist", artist, awkward.clone());
        set!("creator", creator, awkward.clone());
        set!("version", version, awkward.clone());
        set!("source", source, awkward.clone());
        set!("tags", tags, awkward.clone());
        set!("title_unicode", title_unicode, awkward.clone());
        set!("artist_unicode", artist_unicode, awkward.clone());
        set!("preview_time", preview_time, [0, 1, -1, 2147483647, -2147483647, 98765]);
        set!("audio_lead_in", audio_lead_in, [0.0, 1.0, 2147483647.0, -5.0]);
        set!("beat_divisor", beat_divisor, [1, 16, -3, 2147483647]);
        set!("grid_size", grid_size, [0, 4, 32, -2147483647]);
        set!("countdown_offset", countdown_offset, [0, 1, 7, 2147483647]);
        set!("beatmap_id", beatmap_id, [1, 123456, 2147483647]);
        set!("beatmap_set_id", beatmap_set_id, [1, 99, 2147483647]);
        set!("stack_leniency", stack_leniency, [0.0f32, 0.1, 1.0, 0.33333334, 7.5e-6]);
        set!("distance_spacing", distance_spacing, [0.0, 0.1, 1.7999999523162842, 32.5, 1e-9]);
        set!("timeline_zoom", timeline_zoom, [0.1, 1.0, 7.25, 3.0000001]);
        set!("hp_drain_rate", hp_drain_rate, [0.0f32, 3.3, 10.0, 5.0000005]);
        set!("circle_size", circle_size, [0.0f32, 4.2, 10.0]);
        set!("overall_difficulty", overall_difficulty, [0.0f32, 8.8, 10.0]);
        set!("approach_rate", approach_rate, [0.0f32, 9.3, 10.0]);
        set!("slider_multiplier", slider_multiplier, [0.4, 1.4, 3.6, 1.7999999523162842]);
        set!("slider_tick_rate", slider_tick_rate, [0.5, 1.0, 8.0, 1.3333333333333333]);
        set!("letterbox_in_breaks", letterbox_in_breaks, [true, false]);
        set!("widescreen_storyboard", widescreen_storyboard, [true, false]);
        set!("epilepsy_warning", epilepsy_warning, [true, false]);
        set!("samples_match_playback_rate", samples_match_playback_rate, [true, false]);
        set!("countdown", countdown, [CountdownType::None, CountdownType::Normal, CountdownType::HalfSpeed, CountdownType::DoubleSpeed]);
        set!("bookmarks", bookmarks, [vec![], vec![0], vec![1000, 2000, -5], vec![2147483647, -2147483647]]);
        set!("custom_combo_colors", custom_combo_colors, [vec![], vec![Color::new(0, 0, 0, 255)], vec![Color::new(255, 128, 1, 255), Color::new(9, 8, 7, 255)]]);
        set!("custom_colors", custom_colors, [vec![], vec![CustomColor { name: "SliderBorder".into(), color: Color::new(5, 6, 7, 255) },
                                                        CustomColor { name: "X Y".into(), color: Color::new(0, 255, 0, 255) }]]);
        set!("breaks", breaks, [vec![], vec![BreakPeriod { start_time: 100.0, end_time: 900.5 }],
                               vec![BreakPeriod { start_time: -50.0, end_time: -50.0 }, BreakPeriod { start_time: 1e6, end_time: 2e6 }]]);
        if base.mode == GameMode::Mania {
            set!("special_style", special_style, [true, false]);
        }
        // mode edits change how objects are written: checked on the field only
        let n_edits = edits.len();
        for (k, (name, apply, same)) in edits.iter().enumerate() {
            let mut m = base.clone();
            apply(&mut m);
            // multi-field edits: combine with one or two other random edits of other fields
            let mut names = vec![*name];
            let mut extra: Vec<usize> = vec![];
            if k % 3 == 0 {
                for _ in 0..(1 + rng.below(2)) {
                    let j = rng.below(n_edits);
                    if !names.contains(&edits[j].0) {
                        edits[j].1(&mut m);
                        names.push(edits[j].0);
                        extra.push(j);
                    }
                }
            }
            let r = guarded(&format!("edit {names:?}"), || reencode(&m));
            s.checks += 1;
            match r {
                Err(p) => s.mismatch("panic", json!({"fields": names, "panic": p})),
                Ok(Err(e)) => s.mismatch("encode-decode-failed", json!({"fields": names, "err": e})),
                Ok(Ok(m2)) => {
                    let mut bad: Vec<&str> = vec![];
                    if !same(&m, &m2) {
                        bad.push(name);
                    }
                    for j in &extra {
                        if !(edits[*j].2)(&m, &m2) {
                            bad.push(edits[*j].0);
                        }
                    }
                    if !bad.is_empty() {
                        s.mismatch(&format!("edited-value-lost:{}", bad[0]), json!({"fields": names, "lost": bad, "base": bi}));
                    } else {
                        let mut d = others_unchanged(&base_back, &m2, &names);
                        if names.contains(&"slider_multiplier") {
                            // slider velocities are DERIVED from the slider multiplier
                            d.retain(|x| !x.ends_with(".velocity"));
                        }
                        if names.contains(&"breaks") {
                            // the first object after a break is given a new combo: derived from the breaks
                            d.retain(|x| !x.ends_with(".combo"));
                        }
                        if !d.is_empty() {
                            s.mismatch(&format!("edit-changes-other-field:{}", names[0]), json!({"fields": names, "changed": d, "base": bi}));
                        }
                    }
                }
            }
        }
        // mode edit
        for mode in [GameMode::Osu, GameMode::Taiko, GameMode::Catch, GameMode::Mania] {
            let mut m = base.clone();
            m.mode = mode;
            s.checks += 1;
            match guarded("edit mode", || reencode(&m)) {
                Ok(Ok(m2)) if m2.mode == mode => {}
                Ok(Ok(m2)) => s.mismatch("edited-value-lost:mode", json!({"set": format!("{mode:?}"), "got": format!("{:?}", m2.mode)})),
                Ok(Err(e)) => s.mismatch("encode-decode-failed", json!({"fields": ["mode"], "err": e})),
                Err(p) => s.mismatch("panic", json!({"fields": ["mode"], "panic": p})),
            }
        }
        s.nontrivial_key(&format!("base{bi}"));
    }
    s.sample(json!({"bases": bases.len(), "edits_per_base": "~100 single- and multi-field edits"}));
}
