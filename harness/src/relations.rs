//! Model-free relations over bundled and generated maps (C02, C04, and later C01/C03/C15).
use crate::framing::{bundled_files, text_of_bundled};
use crate::gen::{gen_map, GenOpts};
use crate::hitobj::type_name;
use crate::roundtrip::*;
use crate::util::*;
use rosu_map::section::general::GameMode;
use rosu_map::section::hit_objects::{HitObjectKind, PathControlPoint};
use rosu_map::Beatmap;
use serde_json::json;

/// PathCodec!ShapeOf on a real control-point list (positions compared after integer truncation,
/// as the encoder does)
pub fn shape_of(cps: &[PathControlPoint]) -> &'static str {
    let same = |a: &PathControlPoint, b: &PathControlPoint| a.pos.x as i32 == b.pos.x as i32 && a.pos.y as i32 == b.pos.y as i32;
    let typed = |c: &PathControlPoint| c.path_type.is_some();
    let n = cps.len();
    if (1..n).any(|i| !typed(&cps[i]) && same(&cps[i], &cps[i - 1])) {
        return "untyped-duplicate";
    }
    if (1..n).any(|i| type_name(cps[i].path_type) == "C") {
        return "catmull-join";
    }
    if n >= 2 && typed(&cps[1]) && cps[1].pos.x as i32 == 0 && cps[1].pos.y as i32 == 0 {
        return "typed-second-on-origin";
    }
    if (1..n).any(|i| typed(&cps[i]) && same(&cps[i], &cps[i - 1])) {
        return "typed-duplicate";
    }
    if (1..n.saturating_sub(1)).any(|i| typed(&cps[i]) && typed(&cps[i + 1])) {
        return "adjacent-typed";
    }
    "none"
}

fn is_chronological(m: &Beatmap, text: &str) -> bool {
    // hit objects and timing lines in file order must be non-decreasing in time
    let mut sec = "";
    let mut last_t = f64::NEG_INFINITY;
    let mut last_o = f64::NEG_INFINITY;
    for line in text.lines() {
        let l = line.trim_end();
        if l.starts_with('[') && l.ends_with(']') {
            sec = l;
            continue;
        }
        if l.is_empty() || l.trim_start().starts_with("//") {
            continue;
        }
        let first = |idx: usize| l.split(',').nth(idx).and_then(|x| x.trim().parse::<f64>().ok());
        if sec == "[TimingPoints]" {
            if let Some(t) = first(0) {
                if t < last_t {
                    return false;
                }
                last_t = t;
            }
        } else if sec == "[HitObjects]" {
            if let Some(t) = first(2) {
                if t < last_o {
                    return false;
                }
                last_o = t;
            }
        }
    }
    let _ = m;
    true
}

pub fn corpus(rng: &mut Rng, n_gen: usize, with_hostile: bool) -> Vec<(String, String, bool)> {
    corpus_with(rng, n_gen, with_hostile, false)
}

pub fn corpus_with(rng: &mut Rng, n_gen: usize, with_hostile: bool, known_shapes: bool) -> Vec<(String, String, bool)> {
    // (name, text, in the C02 domain by construction)
    let mut v = vec![];
    for (name, bytes) in bundled_files() {
        if let Some(t) = text_of_bundled(&bytes) {
            v.push((name, t, false));
        }
    }
    for i in 0..n_gen {
        let mut o = GenOpts::c02();
        o.mode = Some((i % 4) as u8);
        o.objects = 4 + rng.below(14);
        o.timing_lines = 1 + rng.below(10);
        o.known_shapes = known_shapes;
        v.push((format!("gen-c02-{i}"), gen_map(rng, &o), true));
    }
    if with_hostile {
        for i in 0..n_gen {
            let mut o = GenOpts::hostile();
            o.mode = Some((i % 4) as u8);
            v.push((format!("gen-hostile-{i}"), gen_map(rng, &o), false));
        }
    }
    v
}

/// a slider without a requested length whose natural length exceeds what the decoder accepts as a length
fn beyond_limit(h: &rosu_map::section::hit_objects::HitObject) -> bool {
    match &h.kind {
        HitObjectKind::Slider(s) => s.path.expected_dist().is_none() && s.path.clone().curve().dist() > 131_072.0,
        _ => false,
    }
}

/// `[HitObjects] rejects its own encoder's line "x,y,t,TYPE,snd,END..."`: a spinner / hold line whose end field lies
/// beyond 2^31-1 by rounding only (the decoded end was within the limit)
fn end_rounds_beyond_limit(problem: &str) -> bool {
    let Some(line) = problem.split('"').nth(1) else { return false };
    let f: Vec<&str> = line.split(',').collect();
    if f.len() < 6 {
        return false;
    }
    let ty = f[3].trim().parse::<i32>().unwrap_or(0);
    let end = f[5].split(':').next().and_then(|x| x.trim().parse::<f64>().ok()).unwrap_or(0.0);
    (ty & 8 != 0 || ty & 128 != 0) && end > 2_147_483_647.0 && end < 2_147_483_647.01
}

/// classify a C02 difference for known-finding matching
fn c02_sig(diff: &str, m1: &Beatmap) -> String {
    if let Some(rest) = diff.strip_prefix("hit_objects[") {
        if let Some(idx) = rest.split(']').next().and_then(|x| x.parse::<usize>().ok()) {
            if let Some(HitObjectKind::Slider(s)) = m1.hit_objects.get(idx).map(|h| &h.kind) {
                let sh = shape_of(s.path.control_points());
                if diff.contains("curve") && !diff.contains("control_points") {
                    // the slider's own curve is not the curve of its control points under the map's mode: the line was read
                    // before the Mode record
                    let mut bufs = rosu_map::section::hit_objects::CurveBuffers::default();
                    let under_final = rosu_map::section::hit_objects::Curve::new(m1.mode, s.path.control_points(), s.path.expected_dist(), &mut bufs);
                    if s.path.clone().curve() != &under_final {
                        return "curve:mode-read-after-hit-objects".into();
                    }
                }
                if diff.contains("control_points") || diff.contains("curve") || diff.contains("velocity") {
                    return format!("path-roundtrip:{sh}");
                }
                if diff.contains("node samples") && s.node_samples.iter().any(|n| n.iter().any(|x| matches!(x.name, rosu_map::section::hit_objects::hit_samples::HitSampleInfoName::File(_)))) {
                    return "node-file-sample".into();
                }
            }
        }
        return format!("object:{}", rest.split('.').nth(1).unwrap_or(""));
    }
    if diff.starts_with("scroll speed timeline") && matches!(m1.mode, GameMode::Taiko | GameMode::Mania) {
        let low = m1.control_points.effect_points.iter().any(|p| p.scroll_speed < 0.1);
        if low {
            return "scroll-speed-below-0.1".into();
        }
    }
    if diff.starts_with("hit object count") {
        if m1.hit_objects.iter().any(beyond_limit) {
            return "hit-object-count:natural-length-beyond-limit".into();
        }
        return "hit-object-count".into();
    }
    if (diff == "audio_file" && m1.audio_file.contains("//")) || (diff == "background_file" && m1.background_file.contains("//")) {
        return "filename-with-double-slash".into();
    }
    diff.split(' ').next().unwrap_or(diff).to_string()
}

pub fn encoder_relations(args: &Args, s: &mut Summary) {
    let prop = args.opt("prop").unwrap_or("C02").to_string();
    let thorough = args.opt("tier") == Some("thorough");
    let mut rng = Rng::new(args.seed);
    let mut files = corpus_with(&mut rng, if thorough { 1500 } else { 250 }, prop == "C04", true);
    if prop == "C04" {
        // known shape: a spinner / hold that ends exactly at the largest accepted time and starts at a negative fraction:
        // the encoder writes start + (end - start), which rounds to 2147483647.0000002
        for (i, (mode, line)) in [(0, "256,192,-1.3,12,0,2147483647"), (3, "256,192,-1.3,128,0,2147483647:0:0:0:0:"), (0, "256,192,-0.7,12,0,2147483647")].iter().enumerate() {
            files.push((format!("fixed-end-at-limit-{i}"),
                        format!("osu file format v14\n\n[General]\nMode: {mode}\n\n[TimingPoints]\n0,500,4,1,0,100,1,0\n\n[HitObjects]\n100,100,-5,1,0,0:0:0:0:\n{line}\n"), false));
        }
    }
    if prop == "C02" {
        // known shape: a Catmull slider read BEFORE the Mode record (sections out of the canonical order): its curve is
        // computed under the mode known then, the encoder writes [General] first
        for (i, (mode, line)) in [(2, "100,100,1000,2,0,C|200:200|300:100|400:300,1,350"), (3, "100,100,1000,2,0,C|200:200|300:100|400:300,1")].iter().enumerate() {
            files.push((format!("fixed-mode-after-objects-{i}"),
                        format!("osu file format v14\n\n[TimingPoints]\n0,500,4,1,0,100,1,0\n\n[HitObjects]\n{line}\n\n[General]\nMode: {mode}\n"), false));
        }
    }
    for (name, text, _) in &files {
        let r = guarded(&format!("{prop} {name}"), || roundtrip(text));
        s.checks += 1;
        let (m1, enc, m2) = match r {
            Err(p) => {
                s.mismatch("panic", json!({"file": name, "panic": p, "text": if name.starts_with("gen") { text.as_str() } else { "" }}));
                continue;
            }
            Ok(Err(e)) => {
                s.mismatch("roundtrip-step-failed", json!({"file": name, "err": e}));
                continue;
            }
            Ok(Ok(x)) => x,
        };
        s.cases += 1;
        s.nontrivial_key(name);
        if prop == "C04" {
            let mut probs = c04_problems(&enc);
            probs.extend(c04_counts(&m1, &m2));
            if !probs.is_empty() {
                let typed_last = probs.iter().any(|p| p.contains("[HitObjects] rejects")) &&
                    m1.hit_objects.iter().any(|h| matches!(&h.kind, HitObjectKind::Slider(sl) if sl.path.control_points().len() > 1 && sl.path.control_points().last().map_or(false, |c| c.path_type.is_some())));
                // Every problem is classified on its own, so that a map carrying two known shapes is not an unknown one:
                //   a [HitObjects] line whose length field exceeds 131072     -> natural-length-beyond-limit (and one lost object each)
                //   a [TimingPoints] line whose time exceeds 2^31-1           -> time-beyond-limit
                let n_beyond = m1.hit_objects.iter().filter(|h| beyond_limit(h)).count();
                let mut sigs: Vec<&str> = vec![];
                let mut unexplained: Vec<&String> = vec![];
                let mut lost_by_length = 0usize;
                let mut lost_by_rounding = 0usize;
                for p in &probs {
                    if p.starts_with("[HitObjects] rejects") && n_beyond > 0
                        && p.split(',').nth(7).and_then(|x| x.trim().parse::<f64>().ok()).map_or(false, |l| l > 131_072.0) {
                        lost_by_length += 1;
                        sigs.push("rejects-own-output:natural-length-beyond-limit");
                    } else if p.starts_with("[HitObjects] rejects") && end_rounds_beyond_limit(p) {
                        lost_by_rounding += 1;
                        sigs.push("rejects-own-output:end-time-rounds-beyond-limit");
                    } else if p.starts_with("[TimingPoints] rejects")
                        && p.split('"').nth(1).and_then(|l| l.split(',').next()).and_then(|x| x.trim().parse::<f64>().ok()).map_or(false, |t| t > 2_147_483_647.0) {
                        sigs.push("rejects-own-output:time-beyond-limit");
                    } else if p.starts_with("hit objects ") {
                        // judged below against the number of lines lost to the length limit
                    } else {
                        unexplained.push(p);
                    }
                }
                let n_at_limit = m1.hit_objects.iter().filter(|h| match &h.kind {
                    HitObjectKind::Spinner(sp) => h.start_time + sp.duration > 2_147_483_647.0 && h.start_time + sp.duration < 2_147_483_647.01,
                    HitObjectKind::Hold(ho) => h.start_time + ho.duration > 2_147_483_647.0 && h.start_time + ho.duration < 2_147_483_647.01,
                    _ => false,
                }).count();
                if m2.hit_objects.len() + lost_by_length + lost_by_rounding != m1.hit_objects.len() || lost_by_length > n_beyond || lost_by_rounding > n_at_limit {
                    if let Some(p) = probs.iter().find(|p| p.starts_with("hit objects ")) {
                        unexplained.push(p);
                    }
                }
                sigs.sort();
                sigs.dedup();
                let detail = json!({"file": name, "problems": probs.iter().take(4).collect::<Vec<_>>(), "text": if name.starts_with("gen") { text.as_str() } else { "" }});
                for sig in &sigs {
                    s.mismatch(sig, detail.clone());
                }
                if !unexplained.is_empty() {
                    s.mismatch(if typed_last { "rejects-own-output:typed-last-point" } else { "rejects-own-output" },
                               json!({"file": name, "problems": unexplained.iter().take(4).collect::<Vec<_>>(), "text": if name.starts_with("gen") { text.as_str() } else { "" }}));
                }
            }
        } else {
            if !is_chronological(&m1, text) {
                continue;
            }
            let diffs = c02_diffs(&m1, &m2);
            for d in diffs.iter().take(3) {
                if c02_sig(d, &m1) == "path-roundtrip:catmull-join" {
                    continue; // consecutive explicit Catmull segments: excluded by the statement itself
                }
                s.mismatch(&c02_sig(d, &m1), json!({"file": name, "diff": d, "all": diffs, "text": if name.starts_with("gen") { text.as_str() } else { "" }}));
            }
            // a second round must be a fixed point on the statement's fields (stability)
            if diffs.is_empty() {
                if let Ok(Ok((_, _, m3))) = guarded("second round", || roundtrip(&enc)) {
                    let d2 = c02_diffs(&m2, &m3);
                    if !d2.is_empty() {
                        s.mismatch("second-roundtrip-differs", json!({"file": name, "diffs": d2}));
                    }
                }
            }
        }
        if s.samples.is_empty() {
            s.sample(json!({"file": name, "encoded_head": enc.lines().take(6).collect::<Vec<_>>(), "objects": m1.hit_objects.len()}));
        }
    }
}

/// C04 trace: classify every line of the encoder's output and record the parser's verdict.
pub fn encoder_trace(args: &Args, s: &mut Summary) {
    use rosu_map::{DecodeBeatmap, DecodeState};
    let trace = args.opt("trace").expect("--trace");
    let thorough = args.opt("tier") == Some("thorough");
    let mut rng = Rng::new(args.seed);
    let files = corpus(&mut rng, if thorough { 300 } else { 60 }, true);
    let mut out: Vec<serde_json::Value> = vec![];
    for (name, text, _) in &files {
        if text.len() > 100_000 && !thorough {
            continue;
        }
        let r = guarded(&format!("encoder trace {name}"), || roundtrip(text));
        let Ok(Ok((_, enc, _))) = r else {
            s.mismatch("roundtrip-step-failed", json!({"file": name}));
            continue;
        };
        s.cases += 1;
        s.nontrivial_key(name);
        out.push(json!({"ev": "Begin", "file": name}));
        let mut st = <Beatmap as DecodeBeatmap>::State::create(14);
        let mut section: Option<String> = None;
        for (n, raw) in enc.split('\n').enumerate() {
            let line = raw.trim_end();
            if n == 0 && line.starts_with("osu file format v") {
                out.push(json!({"ev": "Version"}));
                continue;
            }
            if line.is_empty() {
                // the text ends with a newline: the final empty piece is not a line
                if n + 1 == enc.split('\n').count() {
                    continue;
                }
                out.push(json!({"ev": "Blank"}));
                continue;
            }
            if line.starts_with('[') && line.ends_with(']') && crate::framing::SECTIONS.contains(&&line[1..line.len() - 1]) {
                section = Some(line[1..line.len() - 1].to_string());
                out.push(json!({"ev": "Header", "s": section}));
                continue;
            }
            let sec = section.clone().unwrap_or_else(|| "none".into());
            let ok = match sec.as_str() {
                "General" => Beatmap::parse_general(&mut st, line).is_ok(),
                "Editor" => Beatmap::parse_editor(&mut st, line).is_ok(),
                "Metadata" => Beatmap::parse_metadata(&mut st, line).is_ok(),
                "Difficulty" => Beatmap::parse_difficulty(&mut st, line).is_ok(),
                "Events" => Beatmap::parse_events(&mut st, line).is_ok(),
                "TimingPoints" => Beatmap::parse_timing_points(&mut st, line).is_ok(),
                "Colours" => Beatmap::parse_colors(&mut st, line).is_ok(),
                "HitObjects" => Beatmap::parse_hit_objects(&mut st, line).is_ok(),
                _ => false,
            };
            s.checks += 1;
            out.push(json!({"ev": "Record", "s": sec, "accepted": ok && !line.trim_start().starts_with("//"), "line": if ok { "" } else { line }}));
        }
        out.push(json!({"ev": "End"}));
    }
    s.sample(json!({"first_events": out.iter().take(8).cloned().collect::<Vec<_>>()}));
    s.extra.insert("events".into(), json!(out.len()));
    write_ndjson(trace, &out);
}


/// C07 on whole maps: bundled, generated (well-formed and hostile) and mutated files
pub fn c07_relations(args: &Args, s: &mut Summary) {
    let thorough = args.opt("tier") == Some("thorough");
    let mut rng = Rng::new(args.seed);
    let files = corpus(&mut rng, if thorough { 600 } else { 120 }, true);
    for (name, text, _) in &files {
        let mut variants: Vec<Vec<u8>> = vec![text.as_bytes().to_vec()];
        if text.len() < 50_000 {
            // shuffle whole lines inside the file (records move across sections, sections repeat)
            let mut lines: Vec<&str> = text.lines().collect();
            for _ in 0..8 {
                let (a, b) = (rng.below(lines.len()), rng.below(lines.len()));
                lines.swap(a, b);
            }
            variants.push(lines.join("\n").into_bytes());
            // sections in an unusual ORDER and sections that come TWICE (a value a decoder takes from another
            // section, e.g. the mode, may be known late or change after it was used)
            let mut blocks: Vec<String> = vec![];
            for l in text.lines() {
                if l.starts_with('[') || blocks.is_empty() {
                    blocks.push(String::new());
                }
                let b = blocks.last_mut().unwrap();
                b.push_str(l);
                b.push('\n');
            }
            if blocks.len() > 3 {
                let head = blocks.remove(0);
                let mut rev = blocks.clone();
                rev.reverse();
                variants.push(format!("{head}{}", rev.concat()).into_bytes());
                let mut sh = blocks.clone();
                for _ in 0..6 {
                    let (a, b) = (rng.below(sh.len()), rng.below(sh.len()));
                    sh.swap(a, b);
                }
                variants.push(format!("{head}{}", sh.concat()).into_bytes());
                let extra = format!("[General]\nMode: {}\nSampleSet: {}\nSampleVolume: {}\n[Difficulty]\nSliderMultiplier:{}\nCircleSize:{}\n",
                                    rng.below(4), rng.pick(&["Soft", "Drum", "Normal"]), rng.pick(&["30", "100", "0"]), rng.pick(&["0.8", "2.6", "1"]),
                                    rng.pick(&["20", "4", "-1"]));
                variants.push(format!("{head}{}{extra}", blocks.concat()).into_bytes());
                let at = rng.below(blocks.len());
                let mut mid = blocks.clone();
                mid.insert(at, extra.clone());
                variants.push(format!("{head}{}", mid.concat()).into_bytes());
            }
        }
        for v in variants {
            let d = guarded(&format!("c07 {name}"), || crate::framing::c07_diffs(&v));
            s.cases += 1;
            s.checks += 8;
            match d {
                Err(p) => s.mismatch("panic", json!({"file": name, "panic": p})),
                Ok(d) if !d.is_empty() => s.mismatch(&format!("c07:{}", d[0].split('.').next().unwrap_or("")),
                                                     json!({"file": name, "diffs": d, "text": if name.starts_with("gen") { String::from_utf8_lossy(&v).to_string() } else { String::new() }})),
                Ok(_) => {}
            }
        }
        s.nontrivial_key(name);
    }
    s.sample(json!({"files": files.len()}));
}
