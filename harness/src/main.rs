//! Conformance harness binding the TLA+ specifications in /verif/spec to rosu-map.
//! usage: verif-harness <module> <mode> --out summary.json [--cases file.ndjson] [--seed N] [...]
mod util;
mod cp;
mod framing;
mod timing;
mod hitobj;
mod events;
mod curve;
mod reader;
mod records;
mod roundtrip;
mod codec;
mod gen;
mod relations;
mod edits;
mod mappost;
mod fuzz;
mod flow;

use util::*;

#[cfg(feature = "tracing")]
mod sink {
    //! a minimal subscriber that formats every field of every event, so that the
    //! Display / source chains of the crate's error types actually run
    use tracing::field::{Field, Visit};
    use tracing::{span, Event, Metadata, Subscriber};
    pub struct Sink;
    struct V;
    impl Visit for V {
        fn record_debug(&mut self, _: &Field, v: &dyn std::fmt::Debug) {
            let _ = format!("{v:?}");
        }
    }
    impl Subscriber for Sink {
        fn enabled(&self, _: &Metadata<'_>) -> bool {
            true
        }
        fn new_span(&self, _: &span::Attributes<'_>) -> span::Id {
            span::Id::from_u64(1)
        }
        fn record(&self, _: &span::Id, _: &span::Record<'_>) {}
        fn record_follows_from(&self, _: &span::Id, _: &span::Id) {}
        fn event(&self, e: &Event<'_>) {
            e.record(&mut V);
        }
        fn enter(&self, _: &span::Id) {}
        fn exit(&self, _: &span::Id) {}
    }
}

fn main() {
    #[cfg(feature = "tracing")]
    {
        let _ = tracing::subscriber::set_global_default(sink::Sink);
    }
    let args = Args::parse();
    install_panic_hook();
    start_watchdog(args.out.clone(), 20);
    let mut s = Summary::new(&args.out);
    match (args.module.as_str(), args.mode.as_str()) {
        ("cp", "replay") => cp::replay(&args, &mut s),
        ("cp", "record") => cp::record(&args, &mut s),
        ("cp", "negzero") => cp::negzero(&args, &mut s),
        ("framing", "replay") => framing::replay(&args, &mut s),
        ("framing", "record") => framing::record(&args, &mut s),
        ("timing", "replay") => timing::replay(&args, &mut s),
        ("timing", "record") => timing::record(&args, &mut s),
        ("hitobj", "replay") => hitobj::replay(&args, &mut s),
        ("hitobj", "record") => hitobj::record(&args, &mut s),
        ("hitobj", "c06rel") => hitobj::c06_relation(&args, &mut s),
        ("hitobj", "codec") => hitobj::codec(&args, &mut s),
        ("timing", "c06rel") => timing::c06_relation(&args, &mut s),
        ("timing", "order") => timing::order_replay(&args, &mut s),
        ("timing", "shape") => timing::shape_relation(&args, &mut s),
        ("events", "replay") => events::replay(&args, &mut s),
        ("events", "record") => events::record(&args, &mut s),
        ("events", "relations") => events::relations(&args, &mut s),
        ("curve", "replay") => curve::replay(&args, &mut s),
        ("curve", "relations") => curve::relations(&args, &mut s),
        ("curve", "show") => curve::show(&args, &mut s),
        ("curve", "posrel") => curve::posrel(&args, &mut s),
        ("cache", "replay") => curve::cache_replay(&args, &mut s),
        ("reader", "replay") => reader::replay(&args, &mut s),
        ("reader", "relations") => reader::relations(&args, &mut s),
        ("writer", "replay") => reader::writer_replay(&args, &mut s),
        ("records", "replay") => records::replay(&args, &mut s),
        ("records", "record") => records::record(&args, &mut s),
        ("pathcodec", "replay") => codec::path_replay(&args, &mut s),
        ("encoder", "relations") => relations::encoder_relations(&args, &mut s),
        ("encoder", "trace") => relations::encoder_trace(&args, &mut s),
        ("c07", "relations") => relations::c07_relations(&args, &mut s),
        ("timingcodec", "replay") => codec::timing_replay(&args, &mut s),
        ("samplecodec", "replay") => codec::sample_replay(&args, &mut s),
        ("edits", "replay") => edits::text_replay(&args, &mut s),
        ("edits", "relations") => edits::relations(&args, &mut s),
        ("mappost", "replay") => mappost::replay(&args, &mut s),
        ("mappost", "relations") => mappost::relations(&args, &mut s),
        ("c01", "explore") => fuzz::explore(&args, &mut s),
        ("flow", "replay") => flow::replay(&args, &mut s),
        (m, o) => {
            eprintln!("unknown module/mode {m} {o}");
            std::process::exit(2);
        }
    }
    s.write();
}
