//! SliderEvents (C20): replay of TLC behaviours and recording of random iterators.
use crate::util::*;
use rosu_map::section::hit_objects::{SliderEvent, SliderEventType, SliderEventsIter};
use serde_json::{json, Value};

const INF: i64 = 99_999_999;

fn mk_iter<'a>(p: &Value, buf: &'a mut Vec<SliderEvent>) -> SliderEventsIter<'a> {
    let e = 8.0;
    let td = geti(p, "td");
    SliderEventsIter::new(
        geti(p, "start") as f64 / e,
        geti(p, "sd") as f64 / e,
        geti(p, "md") as f64 / e / 10.0,
        if td >= INF { f64::INFINITY } else { td as f64 / e },
        geti(p, "len") as f64 / e,
        geti(p, "spans") as i32,
        buf,
    )
}

fn kind_name(k: SliderEventType) -> &'static str {
    match k {
        SliderEventType::Head => "Head",
        SliderEventType::Tick => "Tick",
        SliderEventType::Repeat => "Repeat",
        SliderEventType::LastTick => "LastTick",
        SliderEventType::Tail => "Tail",
    }
}

fn close(a: f64, b: f64) -> bool {
    (a - b).abs() <= 1e-9 * 1f64.max(a.abs()).max(b.abs())
}

/// compare a real event with the spec's exact rationals
fn ev_matches(real: &SliderEvent, want: &Value) -> bool {
    let e = 8.0;
    kind_name(real.kind) == gets(want, "kind")
        && real.span_idx as i64 == geti(want, "span")
        && close(real.span_start_time, geti(want, "ss") as f64 / e)
        && close(real.time, geti(want, "tn") as f64 / geti(want, "td") as f64 / e)
        && close(real.path_progress, geti(want, "pn") as f64 / geti(want, "pd") as f64)
}

fn show(ev: &SliderEvent) -> Value {
    json!({"kind": kind_name(ev.kind), "span": ev.span_idx, "ss": ev.span_start_time, "time": ev.time, "progress": ev.path_progress})
}

pub fn replay(args: &Args, s: &mut Summary) {
    args.for_each_case(|_, c| {
        s.cases += 1;
        let label = format!("events replay {}", c["p"]);
        let r = guarded(&label, || {
            let mut buf: Vec<SliderEvent> = Vec::new();
            // abandoned iterators first, on the same buffer
            for old in geta(&c, "log") {
                let taken = geti(old, "taken") as usize;
                let want = geta(old, "out");
                let mut it = mk_iter(&old["p"], &mut buf);
                for k in 0..taken {
                    let lo = it.size_hint().0;
                    match it.next() {
                        Some(ev) if ev_matches(&ev, &want[k]) => {
                            if lo == 0 {
                                return Err(json!({"what": "size_hint lower bound 0 but an event followed"}));
                            }
                        }
                        other => return Err(json!({"what": "abandoned iterator event", "k": k, "got": other.as_ref().map(show), "want": want[k]})),
                    }
                }
            }
            let want = geta(&c, "out");
            let mut it = mk_iter(&c["p"], &mut buf);
            let mut got = vec![];
            loop {
                let (lo, hi) = it.size_hint();
                match it.next() {
                    Some(ev) => {
                        if lo == 0 || hi == Some(0) {
                            return Err(json!({"what": "size_hint promised nothing but an event followed", "n": got.len()}));
                        }
                        got.push(ev);
                    }
                    None => break,
                }
                if got.len() > want.len() + 5 {
                    break;
                }
            }
            if it.next().is_some() {
                return Err(json!({"what": "iterator yields after None"}));
            }
            if got.len() != want.len() {
                return Err(json!({"what": "event count", "got": got.iter().map(show).collect::<Vec<_>>(), "want": want}));
            }
            for (k, (g, w)) in got.iter().zip(want.iter()).enumerate() {
                if !ev_matches(g, w) {
                    return Err(json!({"what": "event", "k": k, "got": show(g), "want": w}));
                }
            }
            Ok(got.len())
        });
        s.checks += 1;
        match r {
            Err(p) => s.mismatch("panic", json!({"case": c, "panic": p})),
            Ok(Err(d)) => s.mismatch(&format!("stream:{}", d["what"].as_str().unwrap_or("")), json!({"p": c["p"], "log": c["log"], "detail": d})),
            Ok(Ok(n)) => {
                if n > 3 || !geta(&c, "log").is_empty() {
                    s.nontrivial_key(&format!("{}|{}", c["p"], c["log"]));
                }
                s.sample(json!({"p": c["p"], "abandoned_before": geta(&c, "log").len(), "events": n}));
            }
        }
    });
}

/// exact abstract event (integers) from a real event, given the parameter lattice
fn abstract_event(ev: &SliderEvent, p: &Value) -> Option<Value> {
    let l = geti(p, "len").min(800_000) as f64;
    let sd = geti(p, "sd") as f64;
    let int = |x: f64| -> Option<i64> {
        if (x - x.round()).abs() < 1e-6 * 1f64.max(x.abs()) && x.abs() < 2.0e9 {
            Some(x.round() as i64)
        } else {
            None
        }
    };
    let (td, pd) = match ev.kind {
        SliderEventType::Tick => (l, l),
        SliderEventType::LastTick => (2.0, 2.0 * sd),
        _ => (1.0, 1.0),
    };
    Some(json!({"kind": kind_name(ev.kind), "span": ev.span_idx, "ss": int(ev.span_start_time * 8.0)?,
                "tn": int(ev.time * 8.0 * td)?, "td": td as i64, "pn": int(ev.path_progress * pd)?, "pd": pd as i64}))
}

pub fn record(args: &Args, s: &mut Summary) {
    let trace = args.opt("trace").expect("--trace");
    let runs = args.opt_usize("runs", 30);
    let iters = args.opt_usize("iters", 6);
    let mut rng = Rng::new(args.seed);
    let mut out: Vec<Value> = vec![];
    let dummy = json!({"kind": "Head", "span": 0, "ss": 0, "tn": 0, "td": 1, "pn": 0, "pd": 1});
    for run in 0..runs {
        let mut buf: Vec<SliderEvent> = Vec::new();
        for _ in 0..iters {
            // lattice: lengths 16..2000 eighths, tick distance a multiple of len/16, durations multiples of 2
            let len = 16 * (1 + rng.below(120)) as i64;
            let td = match rng.below(8) {
                0 => 0,
                1 => INF,
                2 => len * 2,
                _ => (len / 16) * (1 + rng.below(16)) as i64,
            };
            let p = json!({"start": rng.below(200000) as i64 - 40000, "sd": 2 * (1 + rng.below(1500)) as i64,
                           "md": *rng.pick(&[0i64, 80, 160, 400, 800, 1600, 4000]), "td": td, "len": len,
                           "spans": 1 + rng.below(7) as i64});
            out.push(json!({"ev": "New", "p": p}));
            let abandon_after = if rng.chance(1, 3) { rng.below(12) } else { usize::MAX };
            let r = guarded(&format!("events record {p}"), || {
                let mut it = mk_iter(&p, &mut buf);
                let mut evs = vec![];
                let mut n = 0;
                while n < abandon_after {
                    match it.next() {
                        Some(e) => evs.push(Some(e)),
                        None => {
                            evs.push(None);
                            break;
                        }
                    }
                    n += 1;
                    if n > 5000 {
                        break;
                    }
                }
                evs
            });
            s.checks += 1;
            match r {
                Err(e) => {
                    s.mismatch("panic", json!({"p": p, "panic": e}));
                }
                Ok(evs) => {
                    for e in evs {
                        match e {
                            None => out.push(json!({"ev": "Next", "some": false, "e": dummy})),
                            Some(ev) => match abstract_event(&ev, &p) {
                                Some(a) => out.push(json!({"ev": "Next", "some": true, "e": a})),
                                None => {
                                    s.mismatch("event-off-lattice", json!({"p": p, "event": show(&ev)}));
                                }
                            },
                        }
                    }
                }
            }
        }
        s.cases += 1;
        s.nontrivial_key(&format!("run{run}-{}", out.len()));
    }
    s.sample(json!({"first_events": out.iter().take(6).cloned().collect::<Vec<_>>()}));
    s.extra.insert("events".into(), json!(out.len()));
    write_ndjson(trace, &out);
}

// ---------------------------------------------------------------------------
// SliderEvents!RefStream on REAL-VALUED parameters (off the dyadic lattice): the declarative stream of
// the specification evaluated in f64.  Where a candidate tick lies within float noise of the 10 ms
// cut-off (or of the path end) rational and float arithmetic may legitimately disagree: such ticks are
// allowed to be present or absent.

fn dec(rng: &mut Rng, lo: f64, hi: f64, places: u32) -> f64 {
    let m = 10f64.powi(places as i32);
    let n = ((hi - lo) * m) as usize;
    lo + (rng.below(n.max(1)) as f64) / m
}

pub fn relations(args: &Args, s: &mut Summary) {
    let iters = args.opt_usize("iters", 20000);
    let mut rng = Rng::new(args.seed);
    let mut buf: Vec<SliderEvent> = Vec::new();
    for it in 0..iters {
        let v = match rng.below(4) {
            0 => *rng.pick(&[0.24, 0.32, 0.51, 0.37, 0.42, 1.4, 0.7, 2.1, 0.35]),
            1 => dec(&mut rng, 0.05, 5.0, 2),
            2 => dec(&mut rng, 0.05, 5.0, 4),
            _ => 100.0 * dec(&mut rng, 0.4, 3.6, 1) / dec(&mut rng, 150.0, 900.0, 0),
        };
        let len = match rng.below(6) {
            0 => dec(&mut rng, 1.0, 1500.0, 1),
            1 => dec(&mut rng, 1.0, 300.0, 3),
            2 => (rng.below(600) + 1) as f64,
            3 => *rng.pick(&[92.4, 83.2, 50.1, 78.7, 94.2, 140.0, 70.0]),
            4 => 100_000.0 + dec(&mut rng, 0.0, 5000.0, 1),
            _ => dec(&mut rng, 0.0, 20.0, 2),
        };
        let td = match rng.below(8) {
            0 => 0.0,
            1 => f64::INFINITY,
            2 => len * 1.5,
            3 => *rng.pick(&[30.0, 40.0, 80.0, 45.0, 25.0, 35.0, 17.5]),
            4 => len / (1 + rng.below(12)) as f64,
            5 => 100.0 * dec(&mut rng, 0.4, 3.6, 1) / *rng.pick(&[1.0, 2.0, 4.0, 0.5, 3.0, 8.0]),
            _ => dec(&mut rng, 3.0, 300.0, 2),
        };
        // keep the streams finite in practice: at most a few thousand ticks per span
        let td = if td > 0.0 && td < len.min(100_000.0) / 2000.0 { len.min(100_000.0) / 2000.0 } else { td };
        let sd = if rng.chance(3, 4) { len.min(100_000.0) / v } else { dec(&mut rng, 0.0, 3000.0, 2) };
        let many = rng.chance(1, 8);
        let spans = 1 + rng.below(if many { 40 } else { 9 }) as i32;
        let places = if rng.chance(1, 2) { 0 } else { 3 };
        let start = dec(&mut rng, -5000.0, 300_000.0, places);
        // a dirty buffer from an abandoned iterator
        if rng.chance(1, 3) {
            let mut old = SliderEventsIter::new(0.0, 100.0, 1.0, 10.0, 100.0, 3, &mut buf);
            for _ in 0..rng.below(6) {
                old.next();
            }
        }
        let label = format!("events relations start={start} sd={sd} v={v} td={td} len={len} spans={spans}");
        let r = guarded(&label, || {
            let evs: Vec<SliderEvent> = SliderEventsIter::new(start, sd, v, td, len, spans, &mut buf).take(200_000).collect();
            let mut errs: Vec<String> = vec![];
            let l = len.min(100_000.0);
            let d0 = td.clamp(0.0, l);
            let md = v * 10.0;
            let tol = 1e-9 * l.max(1.0);
            // the definite and the ambiguous tick distances of one span
            let (mut sure, mut maybe): (Vec<f64>, Vec<f64>) = (vec![], vec![]);
            if d0 > 0.0 {
                let mut k = 1.0;
                while k * d0 <= l + tol && k < 150_000.0 {
                    let d = k * d0;
                    if d < l - md - tol && d <= l - tol {
                        sure.push(d);
                    } else if d < l - md + tol && d <= l + tol {
                        maybe.push(d);
                    }
                    k += 1.0;
                }
            }
            let n = evs.len();
            if n < 3 || evs[0].kind != SliderEventType::Head || evs[n - 1].kind != SliderEventType::Tail || evs[n - 2].kind != SliderEventType::LastTick {
                errs.push(format!("stream does not have the shape head .. last tick, tail ({n} events)"));
                return errs;
            }
            let h = &evs[0];
            if h.time != start || h.path_progress != 0.0 || h.span_idx != 0 {
                errs.push("head".into());
            }
            let mut i = 1;
            for sp in 0..spans {
                let ss = start + f64::from(sp) * sd;
                let rev = sp % 2 == 1;
                let mut got: Vec<&SliderEvent> = vec![];
                while i < n - 2 && evs[i].kind == SliderEventType::Tick && evs[i].span_idx == sp {
                    got.push(&evs[i]);
                    i += 1;
                }
                // chronological within the span; distances ascending on forward spans, descending on reversed ones
                let mut ds: Vec<f64> = got.iter().map(|e| e.path_progress * l).collect();
                if rev {
                    ds.reverse();
                }
                if ds.windows(2).any(|w| w[1] <= w[0]) || got.windows(2).any(|w| w[1].time < w[0].time) {
                    errs.push(format!("span {sp}: ticks are not in chronological order"));
                }
                // every definite tick is there, every tick there is a definite or an ambiguous one
                for d in &sure {
                    if !ds.iter().any(|x| (x - d).abs() <= tol * 10.0) {
                        errs.push(format!("span {sp}: no tick at distance {d}"));
                        break;
                    }
                }
                for x in &ds {
                    if !sure.iter().chain(maybe.iter()).any(|d| (x - d).abs() <= tol * 10.0) {
                        errs.push(format!("span {sp}: unexpected tick at distance {x} (tick distance {d0}, length {l}, cut-off {})", l - md));
                        break;
                    }
                }
                for e in &got {
                    let tp = if rev { 1.0 - e.path_progress } else { e.path_progress };
                    if !close(e.time, ss + tp * sd) || !close(e.span_start_time, ss) {
                        errs.push(format!("span {sp}: tick time {} is not span start + progress x duration", e.time));
                        break;
                    }
                }
                if sp < spans - 1 {
                    if i >= n - 2 || evs[i].kind != SliderEventType::Repeat {
                        errs.push(format!("span {sp}: no repeat after its ticks"));
                        return errs;
                    }
                    let e = &evs[i];
                    if e.span_idx != sp || !close(e.time, ss + sd) || e.path_progress != f64::from((sp + 1) % 2) || !close(e.span_start_time, ss) {
                        errs.push(format!("span {sp}: repeat has time {} progress {}", e.time, e.path_progress));
                    }
                    i += 1;
                }
            }
            if i != n - 2 {
                errs.push(format!("{} unexpected events before the last tick", n - 2 - i));
            }
            let fss = start + f64::from(spans - 1) * sd;
            let lt = &evs[n - 2];
            let want_t = (start + f64::from(spans) * sd / 2.0).max(fss + sd - 36.0);
            let want_p = if sd != 0.0 { let p = (want_t - fss) / sd; if spans % 2 == 0 { 1.0 - p } else { p } } else { f64::NAN };
            if !close(lt.time, want_t) || lt.span_idx != spans - 1 || !close(lt.span_start_time, fss) || (sd != 0.0 && (lt.path_progress - want_p).abs() > 1e-6) {
                errs.push(format!("last tick at {} progress {} (expected {want_t}, {want_p})", lt.time, lt.path_progress));
            }
            let tl = &evs[n - 1];
            if !close(tl.time, start + f64::from(spans) * sd) || tl.path_progress != f64::from(spans % 2) || tl.span_idx != spans - 1 || !close(tl.span_start_time, fss) {
                errs.push(format!("tail at {} progress {}", tl.time, tl.path_progress));
            }
            errs
        });
        s.cases += 1;
        s.checks += 1;
        if td > 0.0 && spans > 1 {
            s.nontrivial_key(&format!("{it}"));
        }
        match r {
            Err(p) => s.mismatch("panic", json!({"params": label, "panic": p})),
            Ok(errs) if !errs.is_empty() => s.mismatch("events-real-valued", json!({"params": label, "errors": errs.iter().take(4).collect::<Vec<_>>()})),
            Ok(_) => {
                if it < 3 {
                    s.sample(json!({"params": label}));
                }
            }
        }
    }
}
