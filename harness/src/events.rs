//! SliderEvents (C20): replay of TLC behaviours and recording of random iterators.
use crate::util::*;
use rosu_map::section::hit_objects::{SliderEvent, SliderEventType, SliderEventsIter};
use serde_json::{json, Value};

const INF: i64 = 99_999_999;

fn mk_iter<'a>(p: &Value, buf: &'a mut Vec<SliderEvent>) -> SliderEventsIter<'a> {
    let e = 8.0;
    let td = geti(p, "td");
    SliderEventsIter::new(
        geti(p, "start") as f64 / e,
        geti(p, "sd") as f64 / e,
        geti(p, "md") as f64 / e / 10.0,
        if td >= INF { f64::INFINITY } else { td as f64 / e },
        geti(p, "len") as f64 / e,
        geti(p, "spans") as i32,
        buf,
    )
}

fn kind_name(k: SliderEventType) -> &'static str {
    match k {
        SliderEventType::Head => "Head",
        SliderEventType::Tick => "Tick",
        SliderEventType::Repeat => "Repeat",
        SliderEventType::LastTick => "LastTick",
        SliderEventType::Tail => "Tail",
    }
}

fn close(a: f64, b: f64) -> bool {
    (a - b).abs() <= 1e-9 * 1f64.max(a.abs()).max(b.abs())
}

/// compare a real event with the spec's exact rationals
fn ev_matches(real: &SliderEvent, want: &Value) -> bool {
    let e = 8.0;
    kind_name(real.kind) == gets(want, "kind")
        && real.span_idx as i64 == geti(want, "span")
        && close(real.span_start_time, geti(want, "ss") as f64 / e)
        && close(real.time, geti(want, "tn") as f64 / geti(want, "td") as f64 / e)
        && close(real.path_progress, geti(want, "pn") as f64 / geti(want, "pd") as f64)
}

fn show(ev: &SliderEvent) -> Value {
    json!({"kind": kind_name(ev.kind), "span": ev.span_idx, "ss": ev.span_start_time, "time": ev.time, "progress": ev.path_progress})
}

pub fn replay(args: &Args, s: &mut Summary) {
    args.for_each_case(|_, c| {
        s.cases += 1;
        let label = format!("events replay {}", c["p"]);
        let r = guarded(&label, || {
            let mut buf: Vec<SliderEvent> = Vec::new();
            // abandoned iterators first, on the same buffer
            for old in geta(&c, "log") {
                let taken = geti(old, "taken") as usize;
                let want = geta(old, "out");
                let mut it = mk_iter(&old["p"], &mut buf);
                for k in 0..taken {
                    let lo = it.size_hint().0;
                    match it.next() {
                        Some(ev) if ev_matches(&ev, &want[k]) => {
                            if lo == 0 {
                                return Err(json!({"what": "size_hint lower bound 0 but an event followed"}));
                            }
                        }
                        other => return Err(json!({"what": "abandoned iterator event", "k": k, "got": other.as_ref().map(show), "want": want[k]})),
                    }
                }
            }
            let want = geta(&c, "out");
            let mut it = mk_iter(&c["p"], &mut buf);
            let mut got = vec![];
            loop {
                let (lo, hi) = it.size_hint();
                match it.next() {
                    Some(ev) => {
                        if lo == 0 || hi == Some(0) {
                            return Err(json!({"what": "size_hint promised nothing but an event followed", "n": got.len()}));
                        }
                        got.push(ev);
                    }
                    None => break,
                }
                if got.len() > want.len() + 5 {
                    break;
                }
            }
            if it.next().is_some() {
                return Err(json!({"what": "iterator yields after None"}));
            }
            if got.len() != want.len() {
                return Err(json!({"what": "event count", "got": got.iter().map(show).collect::<Vec<_>>(), "want": want}));
            }
            for (k, (g, w)) in got.iter().zip(want.iter()).enumerate() {
                if !ev_matches(g, w) {
                    return Err(json!({"what": "event", "k": k, "got": show(g), "want": w}));
                }
            }
            Ok(got.len())
        });
        s.checks += 1;
        match r {
            Err(p) => s.mismatch("panic", json!({"case": c, "panic": p})),
            Ok(Err(d)) => s.mismatch(&format!("stream:{}", d["what"].as_str().unwrap_or("")), json!({"p": c["p"], "log": c["log"], "detail": d})),
            Ok(Ok(n)) => {
                if n > 3 || !geta(&c, "log").is_empty() {
                    s.nontrivial_key(&format!("{}|{}", c["p"], c["log"]));
                }
                s.sample(json!({"p": c["p"], "abandoned_before": geta(&c, "log").len(), "events": n}));
            }
        }
    });
}

/// exact abstract event (integers) from a real event, given the parameter lattice
fn abstract_event(ev: &SliderEvent, p: &Value) -> Option<Value> {
    let l = geti(p, "len").min(800_000) as f64;
    let sd = geti(p, "sd") as f64;
    let int = |x: f64| -> Option<i64> {
        if (x - x.round()).abs() < 1e-6 * 1f64.max(x.abs()) && x.abs() < 2.0e9 {
            Some(x.round() as i64)
        } else {
            None
        }
    };
    let (td, pd) = match ev.kind {
        SliderEventType::Tick => (l, l),
        SliderEventType::LastTick => (2.0, 2.0 * sd),
        _ => (1.0, 1.0),
    };
    Some(json!({"kind": kind_name(ev.kind), "span": ev.span_idx, "ss": int(ev.span_start_time * 8.0)?,
                "tn": int(ev.time * 8.0 * td)?, "td": td as i64, "pn": int(ev.path_progress * pd)?, "pd": pd as i64}))
}

pub fn record(args: &Args, s: &mut Summary) {
    let trace = args.opt("trace").expect("--trace");
    let runs = args.opt_usize("runs", 30);
    let iters = args.opt_usize("iters", 6);
    let mut rng = Rng::new(args.seed);
    let mut out: Vec<Value> = vec![];
    let dummy = json!({"kind": "Head", "span": 0, "ss": 0, "tn": 0, "td": 1, "pn": 0, "pd": 1});
    for run in 0..runs {
        let mut buf: Vec<SliderEvent> = Vec::new();
        for _ in 0..iters {
            // lattice: lengths 16..2000 eighths, tick distance a multiple of len/16, durations multiples of 2
            let len = 16 * (1 + rng.below(120)) as i64;
            let td = match rng.below(8) {
                0 => 0,
                1 => INF,
                2 => len * 2,
                _ => (len / 16) * (1 + rng.below(16)) as i64,
            };
            let p = json!({"start": rng.below(200000) as i64 - 40000, "sd": 2 * (1 + rng.below(1500)) as i64,
                           "md": *rng.pick(&[0i64, 80, 160, 400, 800, 1600, 4000]), "td": td, "len": len,
                           "spans": 1 + rng.below(7) as i64});
            out.push(json!({"ev": "New", "p": p}));
            let abandon_after = if rng.chance(1, 3) { rng.below(12) } else { usize::MAX };
            let r = guarded(&format!("events record {p}"), || {
                let mut it = mk_iter(&p, &mut buf);
                let mut evs = vec![];
                let mut n = 0;
                while n < abandon_after {
                    match it.next() {
                        Some(e) => evs.push(Some(e)),
                        None => {
                            evs.push(None);
                            break;
                        }
                    }
                    n += 1;
                    if n > 5000 {
                        break;
                    }
                }
                evs
            });
            s.checks += 1;
            match r {
                Err(e) => {
                    s.mismatch("panic", json!({"p": p, "panic": e}));
                }
                Ok(evs) => {
                    for e in evs {
                        match e {
                            None => out.push(json!({"ev": "Next", "some": false, "e": dummy})),
                            Some(ev) => match abstract_event(&ev, &p) {
                                Some(a) => out.push(json!({"ev": "Next", "some": true, "e": a})),
                                None => {
                                    s.mismatch("event-off-lattice", json!({"p": p, "event": show(&ev)}));
                                }
                            },
                        }
                    }
                }
            }
        }
        s.cases += 1;
        s.nontrivial_key(&format!("run{run}-{}", out.len()));
    }
    s.sample(json!({"first_events": out.iter().take(6).cloned().collect::<Vec<_>>()}));
    s.extra.insert("events".into(), json!(out.len()));
    write_ndjson(trace, &out);
}
