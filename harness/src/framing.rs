//! Framing (C05, C07): line-kind spelling table, classifier, RecordingDecoder,
//! spec->impl replay and impl->spec recording.
use crate::util::*;
use rosu_map::section::colors::Colors;
use rosu_map::section::difficulty::Difficulty;
use rosu_map::section::editor::Editor;
use rosu_map::section::events::Events;
use rosu_map::section::general::General;
use rosu_map::section::hit_objects::HitObjects;
use rosu_map::section::metadata::Metadata;
use rosu_map::section::timing_points::TimingPoints;
use rosu_map::{Beatmap, DecodeBeatmap, DecodeState};
use serde_json::{json, Value};
use std::cell::RefCell;
use std::io::{BufRead, Read};

pub const SECTIONS: [&str; 11] = [
    "General", "Editor", "Metadata", "Difficulty", "Events", "TimingPoints", "Colours", "HitObjects",
    "Variables", "CatchTheBeat", "Mania",
];

// ---------------------------------------------------------------------------
// A BufRead over a byte vector that publishes how many bytes were consumed, so
// that a parse callback can tell which physical line it is being given
// (read_until consumes exactly through the line terminator).
thread_local! {
    pub static CONSUMED: RefCell<usize> = const { RefCell::new(0) };
    pub static DELIVERIES: RefCell<Vec<(String, String, usize)>> = const { RefCell::new(Vec::new()) };
}

pub struct CountingReader<'a> {
    pub data: &'a [u8],
    pub pos: usize,
}
impl<'a> CountingReader<'a> {
    pub fn new(data: &'a [u8]) -> Self {
        CONSUMED.with(|c| *c.borrow_mut() = 0);
        CountingReader { data, pos: 0 }
    }
}
impl Read for CountingReader<'_> {
    fn read(&mut self, buf: &mut [u8]) -> std::io::Result<usize> {
        let n = buf.len().min(self.data.len() - self.pos);
        buf[..n].copy_from_slice(&self.data[self.pos..self.pos + n]);
        self.pos += n;
        CONSUMED.with(|c| *c.borrow_mut() = self.pos);
        Ok(n)
    }
}
impl BufRead for CountingReader<'_> {
    fn fill_buf(&mut self) -> std::io::Result<&[u8]> {
        Ok(&self.data[self.pos..])
    }
    fn consume(&mut self, amt: usize) {
        self.pos += amt;
        CONSUMED.with(|c| *c.borrow_mut() = self.pos);
    }
}

// ---------------------------------------------------------------------------
// RecordingDecoder: observes the driver through the public trait only.
pub struct Rec {
    pub version: i32,
}
impl DecodeState for Rec {
    fn create(version: i32) -> Self {
        DELIVERIES.with(|d| d.borrow_mut().clear());
        Rec { version }
    }
}
#[derive(Debug)]
pub struct Never;
impl std::fmt::Display for Never {
    fn fmt(&self, f: &mut std::fmt::Formatter<'_>) -> std::fmt::Result {
        f.write_str("never")
    }
}
impl std::error::Error for Never {}
pub struct Out(pub Rec);
impl From<Rec> for Out {
    fn from(r: Rec) -> Self {
        Out(r)
    }
}
macro_rules! rec_fns { ($($f:ident => $s:expr),*) => { $(
    fn $f(_st: &mut Rec, line: &str) -> Result<(), Never> {
        let at = CONSUMED.with(|c| *c.borrow());
        DELIVERIES.with(|d| d.borrow_mut().push(($s.to_string(), line.to_string(), at)));
        if line.contains("garbage") { Err(Never) } else { Ok(()) }
    } )* } }
impl DecodeBeatmap for Out {
    type Error = Never;
    type State = Rec;
    rec_fns!(parse_general => "General", parse_editor => "Editor", parse_metadata => "Metadata",
             parse_difficulty => "Difficulty", parse_events => "Events",
             parse_timing_points => "TimingPoints", parse_colors => "Colours",
             parse_hit_objects => "HitObjects", parse_variables => "Variables",
             parse_catch_the_beat => "CatchTheBeat", parse_mania => "Mania");
}

/// Decode with the recording decoder. Returns (version, deliveries(section, text, consumed-offset)).
pub fn record_decode(bytes: &[u8]) -> Result<(i32, Vec<(String, String, usize)>), String> {
    let rd = CountingReader::new(bytes);
    match Out::decode(rd) {
        Ok(o) => Ok((o.0.version, DELIVERIES.with(|d| d.borrow().clone()))),
        Err(e) => Err(format!("io error: {e}")),
    }
}

// ---------------------------------------------------------------------------
// encodings
pub const ENCODINGS: [&str; 4] = ["utf8", "utf8bom", "utf16le", "utf16be"];
pub fn encode_text(text: &str, enc: &str) -> Vec<u8> {
    match enc {
        "utf8" => text.as_bytes().to_vec(),
        "utf8bom" => {
            let mut v = vec![0xEF, 0xBB, 0xBF];
            v.extend_from_slice(text.as_bytes());
            v
        }
        "utf16le" => {
            let mut v = vec![0xFF, 0xFE];
            for u in text.encode_utf16() {
                v.extend_from_slice(&u.to_le_bytes());
            }
            v
        }
        "utf16be" => {
            let mut v = vec![0xFE, 0xFF];
            for u in text.encode_utf16() {
                v.extend_from_slice(&u.to_be_bytes());
            }
            v
        }
        _ => panic!("encoding {enc}"),
    }
}

// ---------------------------------------------------------------------------
// spelling table: the only place where a line kind becomes text
const RECS: [&str; 23] = [
    "General]",
    "AudioFilename: a.mp3",
    "Mode: 1",
    "Mode: 3",
    "StackLeniency: 0.5",
    "SampleSet: Soft",
    "Title: T",
    "Artist:A B",
    "BeatmapID: 77",
    "Bookmarks: 1,2",
    "BeatDivisor: 8",
    "HPDrainRate: 6",
    "SliderMultiplier: 2",
    "0,0,\"bg.jpg\",0,0",
    "2,100,200",
    "0,500,4,1,0,100,1,0",
    "100,-50,4,2,0,50,0,1",
    "Combo1 : 1,2,3",
    "SliderBorder : 9,8,7",
    "256,192,1000,1,0,0:0:0:0:",
    "256,192,2000,2,0,L|300:192,1,44",
    "256,192,3000,12,0,4000",
    "key without colon",
];
const RECBAD: [&str; 4] = ["garbage", "garbage: x,y", "1,2,garbage", "Mode: garbage"];

/// characters `str::trim_end` removes (White_Space), none of which has a 0x0A byte in UTF-16
const BLANKS: [char; 9] = [' ', '\t', '\u{a0}', '\u{3000}', '\x0b', '\x0c', '\u{2028}', '\u{85}', '\r'];

fn blanks(rng: &mut Rng, max: usize) -> String {
    (0..rng.below(max + 1)).map(|_| *rng.pick(&BLANKS)).collect()
}

/// a bracketed line that is NOT one of the eleven headers, made from a real one by one seed-drawn edit
fn near_header(rng: &mut Rng) -> String {
    let name = *rng.pick(&SECTIONS);
    match rng.below(12) {
        0 => format!("[{}]", name.to_lowercase()),
        1 => format!("[{}]", name.to_uppercase()),
        2 => format!("[ {name}]"),
        3 => format!("[{name} ]"),
        4 => format!("{}[{name}]", rng.pick(&[" ", "\t", "\u{a0}", "  "])),
        5 => format!("[{name}]{}{}", blanks(rng, 2), rng.pick(&["x", "// c", "]", "[", ":", "1"])),
        6 => format!("[{name}"),
        7 => format!("[[{name}]]"),
        8 => format!("[{}]", &name[..name.len() - 1]),
        9 => format!("[{name}s]"),
        10 => {
            // one letter changes case
            let i = rng.below(name.len());
            let t: String = name
                .char_indices()
                .map(|(j, c)| if j == i { if c.is_uppercase() { c.to_ascii_lowercase() } else { c.to_ascii_uppercase() } } else { c })
                .collect();
            format!("[{t}]")
        }
        _ => format!("[{name}][{name}]"),
    }
}

pub fn spell(kind: &Value, rng: &mut Rng) -> String {
    let k = gets(kind, "k");
    match k {
        "blank" => {
            if rng.chance(1, 2) {
                rng.pick(&["", "   ", "\t", " \t "]).to_string()
            } else {
                blanks(rng, 4)
            }
        }
        "comment" => rng.pick(&["// hello", "//", "//[General]", "// osu file format v3", "//Mode: 2"]).to_string(),
        "icomment" => rng.pick(&["  // x", "\t//y", " //[Metadata]"]).to_string(),
        "ver" => {
            let v = geti(kind, "v");
            // the number is what follows the LAST `v` of the line
            match rng.below(9) {
                0 => format!("osu file format v{v}   "),
                1 => format!("osu file format v {v}"),
                2 if v >= 0 => format!("osu file format v+{v}"),
                8 => format!("osu file format v{v}{}", blanks(rng, 3)),
                3 => format!("osu file format vv{v}"),
                4 => format!("osu file format v1v{v}"),
                5 => format!("osu file format v14 rev{v}"),
                6 if v >= 0 => format!("osu file format v00{v}"),
                _ => format!("osu file format v{v}"),
            }
        }
        "verbad" => rng
            .pick(&["osu file format vX", "osu file format v14 // c", "osu file format v", "osu file format v1.5",
                    "osu file format v99999999999", "osu file format v14v"])
            .to_string(),
        "verindent" => rng.pick(&[" osu file format v9", "\tosu file format v9"]).to_string(),
        "hdr" => {
            let s = gets(kind, "s");
            if rng.chance(1, 4) {
                format!("[{s}]  ")
            } else if rng.chance(1, 4) {
                format!("[{s}]{}", blanks(rng, 3))
            } else {
                format!("[{s}]")
            }
        }
        "hdrx" if rng.chance(1, 2) => near_header(rng),
        "hdrx" => rng
            .pick(&["[Foo]", " [General]", "[General] x", "[general]", "[General] // c", "[General", "[]",
                    "[[General]]", "[ General ]", "[HitObject]", "[Colors]", "[Color]", "[Hitobjects]", "[TimingPoint]",
                    "[Difficulty ]", "[Event]", "[Catch]"])
            .to_string(),
        "rec" => rng.pick(&RECS).to_string(),
        "recbad" => rng.pick(&RECBAD).to_string(),
        _ => panic!("unknown kind {k}"),
    }
}

pub fn classify(line: &str) -> Value {
    let t = line.trim_end();
    let k = |c: &str| json!({"k": c, "v": 0, "s": ""});
    if t.is_empty() {
        return k("blank");
    }
    if t.starts_with("//") {
        return k("comment");
    }
    if t.trim_start().starts_with("//") {
        return k("icomment");
    }
    const P: &str = "osu file format v";
    if t.starts_with(P) {
        let tail = t.rsplit('v').next().unwrap_or("");
        return match tail.trim().parse::<i32>() {
            Ok(v) if v != i32::MIN => json!({"k": "ver", "v": v, "s": ""}),
            _ => k("verbad"),
        };
    }
    if t.trim_start().starts_with(P) {
        return k("verindent");
    }
    if t.starts_with('[') && t.ends_with(']') {
        let inner = &t[1..t.len() - 1];
        if SECTIONS.contains(&inner) {
            return json!({"k": "hdr", "v": 0, "s": inner});
        }
        return k("hdrx");
    }
    if t.trim_start().starts_with('[') {
        return k("hdrx");
    }
    if t.contains("garbage") {
        return k("recbad");
    }
    k("rec")
}

/// kinds -> lines of text
pub fn spell_file(kinds: &[Value], rng: &mut Rng) -> Vec<String> {
    kinds.iter().map(|k| spell(k, rng)).collect()
}

pub fn join_lines(lines: &[String], crlf: bool, final_newline: bool) -> String {
    let nl = if crlf { "\r\n" } else { "\n" };
    let mut s = String::new();
    for (i, l) in lines.iter().enumerate() {
        s.push_str(l);
        if i + 1 < lines.len() || final_newline {
            s.push_str(nl);
        }
    }
    s
}

macro_rules! feed {
    ($T:ty, $state:expr, $sec:expr, $line:expr) => {
        match $sec {
            "General" => { let _ = <$T>::parse_general($state, $line); }
            "Editor" => { let _ = <$T>::parse_editor($state, $line); }
            "Metadata" => { let _ = <$T>::parse_metadata($state, $line); }
            "Difficulty" => { let _ = <$T>::parse_difficulty($state, $line); }
            "Events" => { let _ = <$T>::parse_events($state, $line); }
            "TimingPoints" => { let _ = <$T>::parse_timing_points($state, $line); }
            "Colours" => { let _ = <$T>::parse_colors($state, $line); }
            "HitObjects" => { let _ = <$T>::parse_hit_objects($state, $line); }
            "Variables" => { let _ = <$T>::parse_variables($state, $line); }
            "CatchTheBeat" => { let _ = <$T>::parse_catch_the_beat($state, $line); }
            "Mania" => { let _ = <$T>::parse_mania($state, $line); }
            other => panic!("section {other}"),
        }
    };
}

/// Framing!Ref in Rust (used where the model predicts raw LINES and the harness needs the
/// deliveries they imply, e.g. the Reader replay).  It is itself checked against the spec:
/// the framing replay compares it with TLC's predicted deliveries on every enumerated file.
pub fn framing_ref(lines: &[String]) -> (i32, Vec<(String, String)>) {
    let kinds: Vec<Value> = lines.iter().map(|l| classify(l)).collect();
    let k = |i: usize| gets(&kinds[i], "k").to_string();
    let slot = (0..lines.len()).find(|&i| k(i) != "blank");
    let mut version = 14;
    let mut scan = lines.len();
    if let Some(sl) = slot {
        if k(sl) == "ver" {
            version = geti(&kinds[sl], "v") as i32;
            scan = sl + 1;
        } else {
            scan = sl;
        }
    }
    let mut deliv = vec![];
    let mut section: Option<String> = None;
    for i in scan..lines.len() {
        let kk = k(i);
        if kk == "hdr" {
            section = Some(gets(&kinds[i], "s").to_string());
            continue;
        }
        if let Some(sec) = &section {
            if kk != "blank" && kk != "comment" && kk != "icomment" {
                deliv.push((sec.clone(), lines[i].trim_end().to_string()));
            }
        }
    }
    (version, deliv)
}

/// The reference driver: feed the predicted deliveries to the same public
/// section parsers on a state created with the predicted version.
pub fn reference_beatmap(version: i32, deliv: &[(String, String)]) -> Beatmap {
    let mut st = <Beatmap as DecodeBeatmap>::State::create(version);
    for (sec, line) in deliv {
        feed!(Beatmap, &mut st, sec.as_str(), line.as_str());
    }
    st.into()
}

/// Deep comparison of two beatmaps: `==` plus what `PartialEq` of SliderPath hides.
pub fn beatmap_diff(a: &Beatmap, b: &Beatmap) -> Option<String> {
    if a != b {
        let (sa, sb) = (format!("{a:?}"), format!("{b:?}"));
        let i = sa.bytes().zip(sb.bytes()).position(|(x, y)| x != y).unwrap_or(sa.len().min(sb.len()));
        let lo = i.saturating_sub(60);
        return Some(format!("differs near: {} <> {}", &sa[lo..(i + 60).min(sa.len())], &sb[lo..(i + 60).min(sb.len())]));
    }
    use rosu_map::section::hit_objects::HitObjectKind;
    for (i, (x, y)) in a.hit_objects.iter().zip(b.hit_objects.iter()).enumerate() {
        if let (HitObjectKind::Slider(p), HitObjectKind::Slider(q)) = (&x.kind, &y.kind) {
            if p.path.expected_dist().map(f64::to_bits) != q.path.expected_dist().map(f64::to_bits) {
                return Some(format!("object {i}: expected_dist {:?} <> {:?}", p.path.expected_dist(), q.path.expected_dist()));
            }
        }
    }
    None
}

/// C07: every specialised decoder must agree with Beatmap on the shared fields.
pub fn c07_diffs(bytes: &[u8]) -> Vec<String> {
    let mut out = vec![];
    let Ok(b) = rosu_map::from_bytes::<Beatmap>(bytes) else {
        return vec!["Beatmap decode returned Err".into()];
    };
    macro_rules! cmp { ($d:expr, $name:expr, $($f:ident),*) => { { $( if $d.$f != b.$f { out.push(format!("{}.{}", $name, stringify!($f))); } )* } } }
    macro_rules! general_fields { ($d:expr, $name:expr) => { cmp!($d, $name, audio_file, audio_lead_in, preview_time, default_sample_bank,
        default_sample_volume, stack_leniency, mode, letterbox_in_breaks, special_style, widescreen_storyboard,
        epilepsy_warning, samples_match_playback_rate, countdown, countdown_offset) } }
    match rosu_map::from_bytes::<General>(bytes) {
        Ok(d) => general_fields!(d, "General"),
        Err(_) => out.push("General: Err".into()),
    }
    match rosu_map::from_bytes::<Editor>(bytes) {
        Ok(d) => cmp!(d, "Editor", bookmarks, distance_spacing, beat_divisor, grid_size, timeline_zoom),
        Err(_) => out.push("Editor: Err".into()),
    }
    match rosu_map::from_bytes::<Metadata>(bytes) {
        Ok(d) => cmp!(d, "Metadata", title, title_unicode, artist, artist_unicode, creator, version, source, tags, beatmap_id, beatmap_set_id),
        Err(_) => out.push("Metadata: Err".into()),
    }
    match rosu_map::from_bytes::<Difficulty>(bytes) {
        Ok(d) => cmp!(d, "Difficulty", hp_drain_rate, circle_size, overall_difficulty, approach_rate, slider_multiplier, slider_tick_rate),
        Err(_) => out.push("Difficulty: Err".into()),
    }
    match rosu_map::from_bytes::<Events>(bytes) {
        Ok(d) => cmp!(d, "Events", background_file, breaks),
        Err(_) => out.push("Events: Err".into()),
    }
    match rosu_map::from_bytes::<Colors>(bytes) {
        Ok(d) => cmp!(d, "Colors", custom_combo_colors, custom_colors),
        Err(_) => out.push("Colors: Err".into()),
    }
    match rosu_map::from_bytes::<TimingPoints>(bytes) {
        Ok(d) => {
            general_fields!(d, "TimingPoints");
            cmp!(d, "TimingPoints", control_points);
        }
        Err(_) => out.push("TimingPoints: Err".into()),
    }
    match rosu_map::from_bytes::<HitObjects>(bytes) {
        Ok(d) => {
            general_fields!(d, "HitObjects");
            cmp!(d, "HitObjects", hp_drain_rate, circle_size, overall_difficulty, approach_rate, slider_multiplier,
                 slider_tick_rate, background_file, breaks, control_points, hit_objects);
            // what PartialEq of SliderPath hides
            let hb = Beatmap { hit_objects: d.hit_objects.clone(), ..Beatmap::default() };
            let bb = Beatmap { hit_objects: b.hit_objects.clone(), ..Beatmap::default() };
            if let Some(x) = beatmap_diff(&hb, &bb) {
                out.push(format!("HitObjects.hit_objects: {x}"));
            }
        }
        Err(_) => out.push("HitObjects: Err".into()),
    }
    out
}

/// The spec's Handles table (Framing!Handles), mirrored for the C07 model-level check:
/// a specialised decoder must equal the fold of ITS sections' deliveries only.
pub fn handles(dec: &str) -> &'static [&'static str] {
    match dec {
        "General" => &["General"],
        "Editor" => &["Editor"],
        "Metadata" => &["Metadata"],
        "Difficulty" => &["Difficulty"],
        "Events" => &["Events"],
        "Colors" => &["Colours"],
        "TimingPoints" => &["General", "TimingPoints"],
        "HitObjects" => &["General", "Difficulty", "Events", "TimingPoints", "HitObjects"],
        _ => &["General", "Editor", "Metadata", "Difficulty", "Events", "TimingPoints", "Colours", "HitObjects"],
    }
}

macro_rules! ref_decoder {
    ($T:ty, $version:expr, $deliv:expr, $dec:expr) => {{
        let mut st = <$T as DecodeBeatmap>::State::create($version);
        for (sec, line) in $deliv.iter() {
            if handles($dec).contains(&sec.as_str()) {
                feed!($T, &mut st, sec.as_str(), line.as_str());
            }
        }
        let v: $T = st.into();
        v
    }};
}

/// C07 against the model: each decoder's real result equals the reference fold over
/// Seen(d, deliv) (the projection the spec states).
pub fn c07_model_diffs(bytes: &[u8], version: i32, deliv: &[(String, String)]) -> Vec<String> {
    let mut out = vec![];
    macro_rules! one { ($T:ty, $n:expr) => {
        match rosu_map::from_bytes::<$T>(bytes) {
            Ok(d) => { if d != ref_decoder!($T, version, deliv, $n) { out.push(format!("{} differs from fold over Handles", $n)); } }
            Err(_) => out.push(format!("{}: Err", $n)),
        }
    } }
    one!(General, "General");
    one!(Editor, "Editor");
    one!(Metadata, "Metadata");
    one!(Difficulty, "Difficulty");
    one!(Events, "Events");
    one!(Colors, "Colors");
    one!(TimingPoints, "TimingPoints");
    one!(HitObjects, "HitObjects");
    out
}

fn line_end_offsets(lines: &[String], crlf: bool, final_newline: bool, enc: &str) -> Vec<usize> {
    // byte offset just after each line (including its terminator) in the given encoding
    let bom = match enc {
        "utf8" => 0,
        "utf8bom" => 3,
        _ => 2,
    };
    let mut offs = vec![];
    let mut pos = bom;
    for (i, l) in lines.iter().enumerate() {
        let mut s = l.clone();
        if i + 1 < lines.len() || final_newline {
            s.push_str(if crlf { "\r\n" } else { "\n" });
        }
        pos += match enc {
            "utf8" | "utf8bom" => s.len(),
            _ => s.encode_utf16().count() * 2,
        };
        offs.push(pos);
    }
    offs
}

/// spec -> impl: every TLC-generated file, several spellings, four encodings.
pub fn replay(args: &Args, s: &mut Summary) {
    let prop = args.opt("prop").unwrap_or("C05").to_string();
    let spellings = args.opt_usize("spellings", 2);
    let mut rng = Rng::new(args.seed);
    // classifier/concretiser consistency first
    check_spelling_table(s);
    args.for_each_case(|_, c| {
        s.cases += 1;
        let kinds = geta(&c, "file").clone();
        let want_version = geti(&c, "version") as i32;
        let want_deliv: Vec<(String, usize)> = geta(&c, "deliv")
            .iter()
            .map(|d| (d[0].as_str().unwrap().to_string(), d[1].as_u64().unwrap() as usize))
            .collect();
        if !want_deliv.is_empty() {
            s.nontrivial_key(&c["file"].to_string());
        }
        for sp in 0..spellings {
            let lines = spell_file(&kinds, &mut rng);
            let crlf = rng.chance(1, 3);
            let fin = rng.chance(1, 2);
            let text = join_lines(&lines, crlf, fin);
            let deliv_text: Vec<(String, String)> =
                want_deliv.iter().map(|(sec, i)| (sec.clone(), lines[*i - 1].trim_end().to_string())).collect();
            if framing_ref(&lines) != (want_version, deliv_text.clone()) {
                s.mismatch("harness:framing_ref!=spec", json!({"case": c, "lines": lines}));
            }
            for enc in ENCODINGS {
                let bytes = encode_text(&text, enc);
                let label = format!("framing replay {} enc={enc} text={:?}", c, text);
                if prop == "C05" {
                    let r = guarded(&label, || record_decode(&bytes));
                    s.checks += 1;
                    match r {
                        Err(p) => s.mismatch("panic", json!({"case": c, "text": text, "enc": enc, "panic": p})),
                        Ok(Err(e)) => s.mismatch("io-error", json!({"case": c, "text": text, "enc": enc, "err": e})),
                        Ok(Ok((v, d))) => {
                            let got: Vec<(String, String)> = d.iter().map(|(a, b, _)| (a.clone(), b.clone())).collect();
                            if v != want_version {
                                s.mismatch("version", json!({"case": c, "text": text, "enc": enc, "got": v}));
                            } else if got != deliv_text {
                                s.mismatch("deliveries", json!({"case": c, "text": text, "enc": enc, "got": got, "want": deliv_text}));
                            } else {
                                // the consumed-offset observation must agree with the predicted line indices
                                let offs = line_end_offsets(&lines, crlf, fin, enc);
                                for ((_, _, at), (_, i)) in d.iter().zip(want_deliv.iter()) {
                                    if offs.get(*i - 1) != Some(at) {
                                        s.mismatch("delivery-position", json!({"case": c, "text": text, "enc": enc, "at": at, "want_line": i}));
                                        break;
                                    }
                                }
                            }
                        }
                    }
                    // Beatmap vs reference driver over the same public parsers
                    if sp == 0 || enc == "utf8" {
                        let r = guarded(&label, || {
                            let real = rosu_map::from_bytes::<Beatmap>(&bytes);
                            let refb = reference_beatmap(want_version, &deliv_text);
                            (real, refb)
                        });
                        s.checks += 1;
                        match r {
                            Err(p) => s.mismatch("panic", json!({"case": c, "text": text, "enc": enc, "panic": p})),
                            Ok((Err(e), _)) => s.mismatch("io-error", json!({"case": c, "text": text, "enc": enc, "err": e.to_string()})),
                            Ok((Ok(real), refb)) => {
                                if let Some(d) = beatmap_diff(&real, &refb) {
                                    s.mismatch("beatmap-vs-reference-driver", json!({"case": c, "text": text, "enc": enc, "diff": d}));
                                }
                            }
                        }
                    }
                } else {
                    // C07
                    if enc != "utf8" && sp > 0 {
                        continue;
                    }
                    let r = guarded(&label, || {
                        let mut d = c07_diffs(&bytes);
                        d.extend(c07_model_diffs(&bytes, want_version, &deliv_text));
                        d
                    });
                    s.checks += 17;
                    match r {
                        Err(p) => s.mismatch("panic", json!({"case": c, "text": text, "enc": enc, "panic": p})),
                        Ok(d) if !d.is_empty() => s.mismatch(&format!("c07:{}", d[0].split('.').next().unwrap_or("")),
                                                             json!({"case": c, "text": text, "enc": enc, "diffs": d})),
                        Ok(_) => {}
                    }
                }
            }
            if sp == 0 {
                s.sample(json!({"kinds": c["file"], "text": text, "version": want_version, "deliv": c["deliv"]}));
            }
        }
    });
}

fn check_spelling_table(s: &mut Summary) {
    let mut rng = Rng::new(7);
    let mut kinds: Vec<Value> = ["blank", "comment", "icomment", "verbad", "verindent", "hdrx", "rec", "recbad"]
        .iter()
        .map(|k| json!({"k": k, "v": 0, "s": ""}))
        .collect();
    for v in [14, 9, 3, 128] {
        kinds.push(json!({"k": "ver", "v": v, "s": ""}));
    }
    for sec in SECTIONS {
        kinds.push(json!({"k": "hdr", "v": 0, "s": sec}));
    }
    for k in &kinds {
        for _ in 0..200 {
            let t = spell(k, &mut rng);
            let c = classify(&t);
            if &c != k {
                s.mismatch("harness:classify(spell(k))!=k", json!({"kind": k, "text": t, "classified": c}));
                return;
            }
        }
    }
}

// ---------------------------------------------------------------------------
// impl -> spec: record what the real driver does on bundled and random files.
pub fn bundled_files() -> Vec<(String, Vec<u8>)> {
    let mut v = vec![];
    if let Ok(rd) = std::fs::read_dir("/repo/resources") {
        let mut names: Vec<_> = rd.filter_map(|e| e.ok()).map(|e| e.path()).collect();
        names.sort();
        for p in names {
            if let Ok(b) = std::fs::read(&p) {
                v.push((p.file_name().unwrap().to_string_lossy().to_string(), b));
            }
        }
    }
    v
}

pub fn text_of_bundled(bytes: &[u8]) -> Option<String> {
    // bundled files are UTF-8 (optionally with BOM) or UTF-16 with BOM
    if bytes.starts_with(&[0xEF, 0xBB, 0xBF]) {
        String::from_utf8(bytes[3..].to_vec()).ok()
    } else if bytes.starts_with(&[0xFF, 0xFE]) {
        let u: Vec<u16> = bytes[2..].chunks_exact(2).map(|c| u16::from_le_bytes([c[0], c[1]])).collect();
        String::from_utf16(&u).ok()
    } else if bytes.starts_with(&[0xFE, 0xFF]) {
        let u: Vec<u16> = bytes[2..].chunks_exact(2).map(|c| u16::from_be_bytes([c[0], c[1]])).collect();
        String::from_utf16(&u).ok()
    } else {
        String::from_utf8(bytes.to_vec()).ok()
    }
}

/// One recorded run = Open(kinds) ; Line(i, to)* ; Eof(version).
/// `to` is the section the line was delivered to, "-" when the driver kept it.
fn record_one(lines: &[String], crlf: bool, fin: bool, enc: &str, out: &mut Vec<Value>, s: &mut Summary, name: &str) {
    let text = join_lines(lines, crlf, fin);
    let bytes = encode_text(&text, enc);
    let offs = line_end_offsets(lines, crlf, fin, enc);
    let r = guarded(&format!("framing record {name}"), || record_decode(&bytes));
    s.checks += 1;
    match r {
        Err(p) => s.mismatch("panic", json!({"file": name, "panic": p})),
        Ok(Err(e)) => s.mismatch("io-error", json!({"file": name, "err": e})),
        Ok(Ok((v, d))) => {
            let kinds: Vec<Value> = lines.iter().map(|l| classify(l)).collect();
            out.push(json!({"ev": "Open", "name": name, "kinds": kinds}));
            let mut to = vec!["-".to_string(); lines.len()];
            for (sec, _, at) in &d {
                match offs.iter().position(|o| o == at) {
                    Some(i) => to[i] = sec.clone(),
                    None => {
                        s.mismatch("delivery-not-at-line-end", json!({"file": name, "at": at}));
                        return;
                    }
                }
            }
            for (i, t) in to.iter().enumerate() {
                out.push(json!({"ev": "Line", "i": i + 1, "to": t}));
            }
            out.push(json!({"ev": "Eof", "version": v}));
        }
    }
}

pub fn record(args: &Args, s: &mut Summary) {
    let trace = args.opt("trace").expect("--trace");
    let nrandom = args.opt_usize("random", 40);
    let maxlen = args.opt_usize("maxlen", 120);
    let mut rng = Rng::new(args.seed);
    let mut out: Vec<Value> = vec![];
    // bundled files as they are (re-encoded in a seeded encoding)
    for (name, bytes) in bundled_files() {
        let Some(text) = text_of_bundled(&bytes) else { continue };
        let lines: Vec<String> = text.split('\n').map(|l| l.trim_end_matches('\r').to_string()).collect();
        // drop the empty tail produced by a final newline
        let (lines, fin) = if lines.last().map(|l| l.is_empty()).unwrap_or(false) {
            (lines[..lines.len() - 1].to_vec(), true)
        } else {
            (lines, false)
        };
        if lines.len() > 400 {
            continue; // the big maps are covered by C08/C10; keep the trace small
        }
        let enc = ENCODINGS[rng.below(4)];
        // 0x0A inside a UTF-16 code unit is a C10 matter; keep such files in UTF-8 here
        let enc = if text.chars().any(|c| (c as u32) & 0xFF == 0x0A && c != '\n' || ((c as u32) >> 8) & 0xFF == 0x0A) { "utf8" } else { enc };
        record_one(&lines, false, fin, enc, &mut out, s, &name);
        s.cases += 1;
        s.nontrivial_key(&name);
    }
    // random long files over the whole alphabet
    let mut kinds_pool: Vec<Value> = ["blank", "comment", "icomment", "verbad", "verindent", "hdrx", "rec", "rec", "rec", "recbad"]
        .iter()
        .map(|k| json!({"k": k, "v": 0, "s": ""}))
        .collect();
    for v in [14, 9, 3, 128, 7, 5] {
        kinds_pool.push(json!({"k": "ver", "v": v, "s": ""}));
    }
    for sec in SECTIONS {
        kinds_pool.push(json!({"k": "hdr", "v": 0, "s": sec}));
    }
    for n in 0..nrandom {
        let len = rng.below(maxlen);
        let mut kinds: Vec<Value> = (0..len).map(|_| rng.pick(&kinds_pool).clone()).collect();
        // half of the files start the way real files do
        if rng.chance(1, 2) && !kinds.is_empty() {
            kinds[0] = json!({"k": "ver", "v": *rng.pick(&[14, 9, 5]), "s": ""});
        }
        let lines = spell_file(&kinds, &mut rng);
        let enc = ENCODINGS[rng.below(4)];
        record_one(&lines, rng.chance(1, 3), rng.chance(1, 2), enc, &mut out, s, &format!("random-{n}"));
        s.cases += 1;
        s.nontrivial_key(&format!("{:?}", lines));
        if n == 0 {
            s.sample(json!({"random_file": lines.iter().take(8).collect::<Vec<_>>(), "enc": enc}));
        }
    }
    s.extra.insert("events".into(), json!(out.len()));
    write_ndjson(trace, &out);
}
