//! C11 finding 2: `Bookmarks` entries bypass the +-(2^31-1) limit.
//!
//! Copy to `tests/finding2.rs` and run `cargo test --offline --test finding2`.

use rosu_map::section::editor::Editor;

fn editor(body: &str) -> Editor {
    rosu_map::from_str(&format!("osu file format v14\n\n[Editor]\n{body}\n")).unwrap()
}

/// Control: every other integer of the section rejects -2^31.
#[test]
fn control_other_integers_reject_i32_min() {
    let e = editor("GridSize: 4\nGridSize: -2147483648\nBeatDivisor: 8\nBeatDivisor: -2147483648");
    assert_eq!((e.grid_size, e.beat_divisor), (4, 8));
}

#[test]
fn bookmark_outside_the_limit_is_not_accepted() {
    // -2147483648 is outside +-(2^31-1); invalid entries are dropped
    // (like `x` or `2147483648` are), the valid ones are kept.
    let e = editor("Bookmarks: 1,x,2147483648,-2147483648,-2147483647,2");
    assert_eq!(
        e.bookmarks,
        vec![1, -2147483647, 2],
        "the entry -2147483648 is outside +-(2^31-1) and must not be accepted"
    );
}
