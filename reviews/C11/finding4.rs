//! C11 finding 4 (lower confidence, depends on reading `Mode`, `SampleSet`
//! and `Countdown` values as numbers): integers that every other integer key
//! accepts are rejected by the three enum-valued keys of `[General]`.
//!
//! Copy to `tests/finding4.rs` and run `cargo test --offline --test finding4`.

use rosu_map::section::{
    general::{CountdownType, GameMode, General},
    hit_objects::hit_samples::SampleBank,
};

fn general(body: &str) -> General {
    rosu_map::from_str(&format!("osu file format v14\n\n[General]\n{body}\n")).unwrap()
}

/// Control: the integer keys accept a sign and leading zeros.
#[test]
fn control_integer_keys_accept_sign_and_leading_zeros() {
    let g = general("PreviewTime: +1\nSampleVolume: 01\nCountdownOffset: +01\nEpilepsyWarning: 01");
    assert_eq!(
        (g.preview_time, g.default_sample_volume, g.countdown_offset, g.epilepsy_warning),
        (1, 1, 1, true)
    );
}

#[test]
fn mode_is_a_number() {
    for v in ["+1", "01", "001"] {
        let g = general(&format!("Mode: {v}"));
        assert_eq!(
            g.mode,
            GameMode::Taiko,
            "`Mode: {v}` is the number 1 and lies within the limit but was rejected"
        );
    }
}

#[test]
fn sample_set_and_countdown_digits_are_numbers() {
    for v in ["+2", "02"] {
        let g = general(&format!("SampleSet: {v}\nCountdown: {v}"));
        assert_eq!(g.default_sample_bank, SampleBank::Soft, "`SampleSet: {v}`");
        assert_eq!(g.countdown, CountdownType::HalfSpeed, "`Countdown: {v}`");
    }
}
