//! C11 finding 1: the f32 fields accept numbers outside +-(2^31-1).
//!
//! Copy to `tests/finding1.rs` and run `cargo test --offline --test finding1`.

use rosu_map::section::{difficulty::Difficulty, editor::Editor, general::General};

const HEADER: &str = "osu file format v14\n\n";

fn difficulty(body: &str) -> Difficulty {
    rosu_map::from_str(&format!("{HEADER}[Difficulty]\n{body}\n")).unwrap()
}

/// Control: the same texts are rejected for an i32 field and for f64 fields,
/// i.e. the earlier valid record survives.
#[test]
fn control_i32_and_f64_fields_reject_2_pow_31() {
    for v in ["2147483648", "2147483647.5", "-2147483648"] {
        let g: General =
            rosu_map::from_str(&format!("{HEADER}[General]\nPreviewTime: 3\nPreviewTime: {v}\n"))
                .unwrap();
        assert_eq!(g.preview_time, 3, "PreviewTime: {v}");

        let e: Editor = rosu_map::from_str(&format!(
            "{HEADER}[Editor]\nDistanceSpacing: 3\nDistanceSpacing: {v}\n"
        ))
        .unwrap();
        assert_eq!(e.distance_spacing, 3.0, "DistanceSpacing: {v}");

        let d = difficulty(&format!("SliderTickRate: 3\nSliderTickRate: {v}"));
        assert_eq!(d.slider_tick_rate, 3.0, "SliderTickRate: {v}");
    }
}

#[test]
fn f32_fields_reject_numbers_outside_the_i32_range() {
    // All of these are outside +-(2^31-1) = +-2147483647.
    for v in [
        "2147483648",
        "2147483647.5",
        "2147483649",
        "2147483776",
        "-2147483648",
        "-2147483776",
    ] {
        let d = difficulty(&format!("HPDrainRate: 3\nHPDrainRate: {v}"));
        assert_eq!(
            d.hp_drain_rate, 3.0,
            "`HPDrainRate: {v}` is outside +-(2^31-1) and must leave the field untouched"
        );

        let d = difficulty(&format!("CircleSize: 3\nCircleSize: {v}"));
        assert_eq!(d.circle_size, 3.0, "`CircleSize: {v}` must be rejected");

        let d = difficulty(&format!("ApproachRate: 3\nApproachRate: {v}"));
        assert_eq!(d.approach_rate, 3.0, "`ApproachRate: {v}` must be rejected");

        // A rejected overall difficulty must not drag the approach rate along.
        let d = difficulty(&format!("OverallDifficulty: 3\nOverallDifficulty: {v}"));
        assert_eq!(
            (d.overall_difficulty, d.approach_rate),
            (3.0, 3.0),
            "`OverallDifficulty: {v}` must be rejected"
        );

        let g: General = rosu_map::from_str(&format!(
            "{HEADER}[General]\nStackLeniency: 3\nStackLeniency: {v}\n"
        ))
        .unwrap();
        assert_eq!(g.stack_leniency, 3.0, "`StackLeniency: {v}` must be rejected");
    }
}
