//! C11 finding 3: a video event decides "video or image" by the last three
//! bytes of the file name instead of by its extension.
//!
//! Copy to `tests/finding3.rs` and run `cargo test --offline --test finding3`.

use rosu_map::section::events::Events;

fn background(body: &str) -> String {
    let events: Events =
        rosu_map::from_str(&format!("osu file format v14\n\n[Events]\n{body}\n")).unwrap();

    events.background_file
}

/// Control: real extensions are handled as documented, in any case.
#[test]
fn control_real_extensions() {
    assert_eq!(background("1,0,\"v.mp4\""), "");
    assert_eq!(background("Video,0,\"v.AVI\""), "");
    assert_eq!(background("1,0,\"v.jpg\""), "v.jpg");
    assert_eq!(background("1,0,\"v.PNG\""), "v.PNG");
}

/// None of these names has an extension at all so whatever the rule for
/// "video with image extension" is, it has to treat them the same way.
#[test]
fn names_without_extension_are_treated_alike() {
    let names = ["noext_file", "vmp4", "clipavi", "ab", "v"];

    let sets_background: Vec<bool> = names
        .iter()
        .map(|name| background(&format!("1,0,\"{name}\"")) == *name)
        .collect();

    assert!(
        sets_background.iter().all(|&b| b == sets_background[0]),
        "video events with the extension-less names {names:?} set the background: {sets_background:?}"
    );
}

/// `vmp4` does not have the extension `mp4` (there is no dot).
#[test]
fn extension_needs_a_dot() {
    assert_eq!(
        background("1,0,\"noext\"") == "noext",
        background("1,0,\"vmp4\"") == "vmp4",
        "`noext` and `vmp4` both lack an extension but only one of them becomes the background"
    );
}

/// A name shorter than three bytes can not have a video extension, yet it
/// is not taken over although `abc` is.
#[test]
fn short_names() {
    assert_eq!(
        background("1,0,\"abc\"") == "abc",
        background("1,0,\"ab\"") == "ab",
        "`abc` and `ab` both lack an extension but only one of them becomes the background"
    );
}
