//! C15 finding 1: the first object after a break is not given a new combo
//! when the `[Events]` break lines are not ordered by their end time
//! (non-chronological lines, or a break nested inside another one).
//!
//! Copy to `tests/finding1.rs` and run `cargo test --offline --test finding1`.

use rosu_map::{section::hit_objects::HitObjects, Beatmap};

fn map(events: &str, objects: &str) -> String {
    format!(
        "osu file format v14\n\n[Events]\n{events}\n\n[TimingPoints]\n0,500,4,1,0,100,1,0\n\n[HitObjects]\n{objects}\n"
    )
}

fn combos(src: &str) -> Vec<(f64, bool)> {
    let map: HitObjects = rosu_map::from_str(src).unwrap();

    // The full `Beatmap` goes through the same processing
    let full: Beatmap = rosu_map::from_str(src).unwrap();
    assert_eq!(map.hit_objects, full.hit_objects);

    map.hit_objects
        .iter()
        .map(|h| (h.start_time, h.new_combo()))
        .collect()
}

const OBJECTS: &str = "0,0,500,1,0\n0,0,3000,1,0\n0,0,3500,1,0\n0,0,7000,1,0\n0,0,8000,1,0";

#[test]
fn breaks_in_chronological_order_are_fine() {
    // control: same breaks, chronological order
    let src = map("2,1000,2000\n2,5000,6000", OBJECTS);

    assert_eq!(
        combos(&src),
        [
            (500.0, true),
            (3000.0, true),
            (3500.0, false),
            (7000.0, true),
            (8000.0, false)
        ]
    );
}

#[test]
fn breaks_in_non_chronological_order() {
    // the very same two breaks, later one listed first
    let src = map("2,5000,6000\n2,1000,2000", OBJECTS);
    let combos = combos(&src);

    assert!(
        combos[1].1,
        "the object at 3000 ms is the first object after the break 1000..2000 \
        but does not start a new combo: {combos:?}"
    );
}

#[test]
fn break_nested_in_another_break() {
    // break 2000..3000 lies inside break 1000..5000 (lines ordered by start time);
    // the object at 4000 ms is the first object after the break 2000..3000
    let src = map(
        "2,1000,5000\n2,2000,3000",
        "0,0,500,1,0\n0,0,4000,1,0\n0,0,4500,1,0\n0,0,7000,1,0",
    );
    let combos = combos(&src);

    assert!(
        combos[1].1,
        "the object at 4000 ms is the first object after the break 2000..3000 \
        but does not start a new combo: {combos:?}"
    );
}
