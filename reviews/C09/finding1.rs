//! C09 (write side): a transient `ErrorKind::Interrupted` reported by the
//! writer's `flush` is not retried. `Beatmap::encode` returns
//! `Err(Interrupted)` although every byte was accepted by the writer and a
//! second `flush` call would have succeeded.
//!
//! Copy to `tests/finding1.rs` and run
//! `cargo test --offline --test finding1`.

use std::io::{Error, ErrorKind, Result, Write};

use rosu_map::Beatmap;

/// Accepts every byte; the first `interrupts` calls of `flush` report a
/// transient `Interrupted`, every later call succeeds.
struct FlushInterrupted {
    out: Vec<u8>,
    interrupts: usize,
    flush_calls: usize,
}

impl Write for FlushInterrupted {
    fn write(&mut self, buf: &[u8]) -> Result<usize> {
        self.out.extend_from_slice(buf);

        Ok(buf.len())
    }

    fn flush(&mut self) -> Result<()> {
        self.flush_calls += 1;

        if self.flush_calls <= self.interrupts {
            // same as `Error::from_raw_os_error(libc::EINTR)`
            return Err(Error::new(ErrorKind::Interrupted, "EINTR in flush"));
        }

        Ok(())
    }
}

/// The same transient condition on `write` is retried, only shown to make
/// clear that the two paths behave differently.
struct WriteInterrupted {
    out: Vec<u8>,
    calls: usize,
}

impl Write for WriteInterrupted {
    fn write(&mut self, buf: &[u8]) -> Result<usize> {
        self.calls += 1;

        if self.calls % 2 == 1 {
            return Err(Error::new(ErrorKind::Interrupted, "EINTR in write"));
        }

        self.out.extend_from_slice(buf);

        Ok(buf.len())
    }

    fn flush(&mut self) -> Result<()> {
        Ok(())
    }
}

#[test]
fn interrupted_flush_is_retried() {
    let mut map = Beatmap::default();

    let mut reference = Vec::new();
    map.encode(&mut reference).unwrap();

    // Interrupted on `write` is transparent ...
    let mut writer = WriteInterrupted {
        out: Vec::new(),
        calls: 0,
    };
    map.encode(&mut writer)
        .expect("Interrupted from `write` is retried");
    assert_eq!(writer.out, reference);

    // ... Interrupted on `flush` is not.
    let mut writer = FlushInterrupted {
        out: Vec::new(),
        interrupts: 1,
        flush_calls: 0,
    };
    let res = map.encode(&mut writer);

    assert_eq!(
        writer.out, reference,
        "all bytes were handed to the writer before the flush"
    );

    assert!(
        res.is_ok(),
        "C09: a single transient `Interrupted` from `Write::flush` changed the outcome: \
        encode returned {res:?} after {} flush call(s) instead of retrying the flush \
        (a second call would have returned Ok)",
        writer.flush_calls,
    );
}
