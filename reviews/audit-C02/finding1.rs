//! C02, clause "identical effective slider-velocity ... timelines" and
//! "the same hit objects (... velocities ...)".
//!
//! A slider velocity that lies within `f64::EPSILON` of 1.0 at the time of an
//! uninherited (red) line is treated as "no change" by the encoder, so the
//! second decode reads 1.0 instead of 0.9999999999999999.

use rosu_map::{section::hit_objects::HitObjectKind, Beatmap};

const MAP: &str = "osu file format v14

[TimingPoints]
0,500,4,1,0,100,1,0
1000,-50,4,1,0,100,0,0
2000,500,4,1,0,100,1,0
2000,-100.00000000000001,4,1,0,100,0,0

[HitObjects]
0,0,2500,2,0,L|100:0,1,100
";

fn sv_at(map: &Beatmap, time: f64) -> f64 {
    map.control_points
        .difficulty_point_at(time)
        .map_or(1.0, |point| point.slider_velocity)
}

fn slider_velocity(map: &Beatmap) -> f64 {
    match map.hit_objects[0].kind {
        HitObjectKind::Slider(ref slider) => slider.velocity,
        _ => unreachable!(),
    }
}

#[test]
fn slider_velocity_next_to_one_on_a_red_line_survives() {
    let mut first = Beatmap::from_bytes(MAP.as_bytes()).unwrap();
    let text = first.encode_to_string().unwrap();
    let second = Beatmap::from_bytes(text.as_bytes()).unwrap();

    // The lines are in chronological order, the timing points are identical
    assert_eq!(
        first.control_points.timing_points,
        second.control_points.timing_points
    );

    for time in [0.0, 1000.0, 1999.0, 2000.0, 2500.0] {
        assert_eq!(
            sv_at(&first, time).to_bits(),
            sv_at(&second, time).to_bits(),
            "effective slider velocity at {time} differs: {:?} before, {:?} after the round trip\n{text}",
            sv_at(&first, time),
            sv_at(&second, time),
        );
    }

    assert_eq!(
        slider_velocity(&first).to_bits(),
        slider_velocity(&second).to_bits(),
        "velocity of the slider at 2500 differs: {:?} before, {:?} after the round trip",
        slider_velocity(&first),
        slider_velocity(&second),
    );
}

/// Same cause without a red line: the green line at 357 differs from the
/// NaN line at 100 (which reads as velocity 1) only by less than EPSILON.
#[test]
fn slider_velocity_next_to_one_after_a_nan_line_survives() {
    const MAP: &str = "osu file format v14

[TimingPoints]
100,NaN,4,1,0,100,0,0
357,-100.00000000000001,4,1,0,100,0,0
";

    let mut first = Beatmap::from_bytes(MAP.as_bytes()).unwrap();
    let text = first.encode_to_string().unwrap();
    let second = Beatmap::from_bytes(text.as_bytes()).unwrap();

    assert_eq!(
        sv_at(&first, 357.0).to_bits(),
        sv_at(&second, 357.0).to_bits(),
        "effective slider velocity at 357 differs: {:?} before, {:?} after the round trip\n{text}",
        sv_at(&first, 357.0),
        sv_at(&second, 357.0),
    );
}

/// In mania the same happens to the scroll speed.
#[test]
fn scroll_speed_next_to_one_on_a_red_line_survives() {
    const MAP: &str = "osu file format v14

[General]
Mode: 3

[TimingPoints]
0,500,4,1,0,100,1,0
1000,-50,4,1,0,100,0,0
2000,500,4,1,0,100,1,0
2000,-100.00000000000001,4,1,0,100,0,0
";

    let scroll_at = |map: &Beatmap, time: f64| {
        map.control_points
            .effect_point_at(time)
            .map_or(1.0, |point| point.scroll_speed)
    };

    let mut first = Beatmap::from_bytes(MAP.as_bytes()).unwrap();
    let text = first.encode_to_string().unwrap();
    let second = Beatmap::from_bytes(text.as_bytes()).unwrap();

    assert_eq!(
        scroll_at(&first, 2000.0).to_bits(),
        scroll_at(&second, 2000.0).to_bits(),
        "effective scroll speed at 2000 differs: {:?} before, {:?} after the round trip",
        scroll_at(&first, 2000.0),
        scroll_at(&second, 2000.0),
    );
}
