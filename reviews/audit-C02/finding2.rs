//! C02, clause "the same hit objects (... computed curves ...)".
//!
//! The game mode a slider path is computed with is the one known when the
//! hit-object LINE is read. If `[General]` (its `Mode` record) follows
//! `[HitObjects]` in the file, the first decode computes Catmull curves with
//! the osu!standard simplification; the encoder writes `[General]` first, so
//! the second decode computes them without.

use rosu_map::{
    section::{general::GameMode, hit_objects::HitObjectKind},
    Beatmap,
};

const MAP: &str = "osu file format v14

[HitObjects]
100,100,1000,2,0,C|200:200|300:100|400:300,1,350

[General]
Mode: 2
";

#[test]
fn catmull_curve_survives_when_mode_follows_the_objects() {
    let mut first = Beatmap::from_bytes(MAP.as_bytes()).unwrap();
    let text = first.encode_to_string().unwrap();
    let mut second = Beatmap::from_bytes(text.as_bytes()).unwrap();

    assert_eq!(first.mode, GameMode::Catch);
    assert_eq!(second.mode, GameMode::Catch);

    let (HitObjectKind::Slider(a), HitObjectKind::Slider(b)) =
        (&mut first.hit_objects[0].kind, &mut second.hit_objects[0].kind)
    else {
        unreachable!()
    };

    // Same control points, same requested length ...
    assert_eq!(a.path.control_points(), b.path.control_points());
    assert_eq!(a.path.expected_dist(), b.path.expected_dist());

    // ... but not the same curve
    let (a, b) = (a.path.curve().clone(), b.path.curve().clone());

    assert_eq!(
        a.path().len(),
        b.path().len(),
        "the computed curve has {} points before and {} points after the round trip",
        a.path().len(),
        b.path().len(),
    );
    assert_eq!(a, b, "the computed curves differ");
}
