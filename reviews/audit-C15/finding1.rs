//! C15, clause "the first object after each break starts a new combo":
//! a hold note (type 128) that is the first object after a break does not
//! start a new combo, and neither does any later object.

use rosu_map::{section::hit_objects::HitObjectKind, Beatmap};

const MAP: &str = "osu file format v14

[General]
Mode: 3

[Events]
2,1000,2000

[TimingPoints]
0,500,4,1,0,100,1,0

[HitObjects]
64,192,500,1,0,0:0:0:0:
64,192,3000,128,0,3500:0:0:0:0:
192,192,4000,1,0,0:0:0:0:
";

#[test]
fn hold_after_break_starts_no_new_combo() {
    let map: Beatmap = rosu_map::from_str(MAP).unwrap();

    assert_eq!(map.breaks.len(), 1);
    let break_end = map.breaks[0].end_time;

    let first_after = map
        .hit_objects
        .iter()
        .find(|h| h.start_time > break_end)
        .expect("there is an object after the break");

    assert_eq!(first_after.start_time, 3000.0);
    assert!(matches!(first_after.kind, HitObjectKind::Hold(_)));

    assert!(
        first_after.new_combo(),
        "the first object after the break 1000..2000 (a hold note at {}) does not start a new combo; \
         new_combo of all objects: {:?}",
        first_after.start_time,
        map.hit_objects.iter().map(|h| (h.start_time, h.new_combo())).collect::<Vec<_>>()
    );
}
