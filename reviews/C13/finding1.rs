//! C13 violation: `ControlPoints::add` / `*_point_at` treat the times `-0.0`
//! and `0.0` as two different points in time.
//!
//! Drop this file into `tests/` and run `cargo test --offline --test finding1`.

use rosu_map::section::hit_objects::hit_samples::SampleBank;
use rosu_map::section::timing_points::{
    ControlPoints, DifficultyPoint, EffectPoint, SamplePoint, TimeSignature, TimingPoint,
};

fn strictly_ordered(times: &[f64]) -> bool {
    times.windows(2).all(|w| w[0] < w[1])
}

#[test]
fn timing_point_at_minus_zero_does_not_replace_the_one_at_zero() {
    let mut cp = ControlPoints::default();
    cp.add(TimingPoint::new(0.0, 500.0, false, TimeSignature::new_simple_quadruple()));
    cp.add(TimingPoint::new(-0.0, 250.0, false, TimeSignature::new_simple_quadruple()));

    let times: Vec<f64> = cp.timing_points.iter().map(|p| p.time).collect();

    assert!(
        strictly_ordered(&times),
        "timing points are not strictly ordered by time (two points at the same time 0): {:?}",
        cp.timing_points
    );
    assert_eq!(
        cp.timing_points.len(),
        1,
        "a timing point added at an existing time (-0.0 == 0.0) must replace it"
    );
}

#[test]
fn lookups_at_equal_times_disagree() {
    let mut cp = ControlPoints::default();
    cp.add(TimingPoint::new(-0.0, 500.0, false, TimeSignature::new_simple_quadruple()));
    cp.add(TimingPoint::new(0.0, 250.0, false, TimeSignature::new_simple_quadruple()));

    // -0.0 == 0.0, so both lookups ask for the same point in time
    assert_eq!(
        cp.timing_point_at(-0.0).map(|p| p.beat_len),
        cp.timing_point_at(0.0).map(|p| p.beat_len),
        "timing_point_at(-0.0) and timing_point_at(0.0) return different points"
    );
}

#[test]
fn difficulty_effect_sample_points_are_duplicated_too() {
    let mut cp = ControlPoints::default();
    cp.add(DifficultyPoint::new(0.0, -50.0, 2.0));
    cp.add(DifficultyPoint::new(-0.0, -50.0, 3.0));

    let mut e0 = EffectPoint::new(0.0, true);
    e0.scroll_speed = 2.0;
    let e1 = EffectPoint::new(-0.0, false);
    cp.add(e0);
    cp.add(e1);

    cp.add(SamplePoint::new(0.0, SampleBank::Soft, 20, 0));
    cp.add(SamplePoint::new(-0.0, SampleBank::Drum, 30, 0));

    assert_eq!(cp.difficulty_points.len(), 1, "{:?}", cp.difficulty_points);
    assert_eq!(cp.effect_points.len(), 1, "{:?}", cp.effect_points);
    assert_eq!(cp.sample_points.len(), 1, "{:?}", cp.sample_points);
}

#[test]
fn point_at_zero_is_not_found_when_looking_up_minus_zero() {
    let mut cp = ControlPoints::default();
    cp.add(DifficultyPoint::new(0.0, -50.0, 2.0));
    cp.add(EffectPoint::new(0.0, true));

    // the point at 0.0 is "not after" -0.0, it must be the active one
    assert!(
        cp.difficulty_point_at(-0.0).is_some(),
        "difficulty_point_at(-0.0) returns nothing although a point exists at time 0.0"
    );
    assert!(
        cp.effect_point_at(-0.0).is_some(),
        "effect_point_at(-0.0) returns nothing although a point exists at time 0.0"
    );
}

#[test]
fn redundant_point_at_minus_zero_is_stored() {
    let mut cp = ControlPoints::default();
    cp.add(DifficultyPoint::new(0.0, -50.0, 2.0));
    // same values as the point that is active at time 0
    cp.add(DifficultyPoint::new(-0.0, -50.0, 2.0));

    assert_eq!(
        cp.difficulty_points.len(),
        1,
        "a difficulty point that repeats the point active at its time was stored: {:?}",
        cp.difficulty_points
    );
}
