//! C13 violation: a difficulty / effect point whose velocity differs from the
//! active one by less than `f64::EPSILON` is dropped by `ControlPoints::add`.
//!
//! Drop this file into `tests/` and run `cargo test --offline --test finding3`.

use rosu_map::section::timing_points::{ControlPoints, DifficultyPoint, EffectPoint};

#[test]
fn differing_slider_velocity_is_not_stored() {
    let a = 0.1_f64;
    let b = f64::from_bits(a.to_bits() + 4); // 0.10000000000000006
    assert!(a != b);

    let mut cp = ControlPoints::default();
    cp.add(DifficultyPoint::new(0.0, -1000.0, a));
    cp.add(DifficultyPoint::new(1.0, -1000.0, b));

    assert_eq!(
        cp.difficulty_point_at(1.0).map(|p| p.slider_velocity),
        Some(b),
        "the point with the differing velocity {b:?} was not stored: {:?}",
        cp.difficulty_points
    );
}

#[test]
fn differing_point_at_an_existing_time_does_not_replace_it() {
    let a = 0.1_f64;
    let b = f64::from_bits(a.to_bits() + 4);

    let mut cp = ControlPoints::default();
    cp.add(DifficultyPoint::new(0.0, -1000.0, a));
    cp.add(DifficultyPoint::new(0.0, -1000.0, b));

    assert_eq!(
        cp.difficulty_points[0].slider_velocity, b,
        "the point added at an existing time did not replace the stored one"
    );
}

#[test]
fn differing_scroll_speed_is_not_stored() {
    let a = 0.5_f64;
    let b = f64::from_bits(a.to_bits() + 1);
    assert!(a != b);

    let mut cp = ControlPoints::default();
    cp.add(EffectPoint {
        time: 0.0,
        kiai: false,
        scroll_speed: a,
    });
    cp.add(EffectPoint {
        time: 1.0,
        kiai: false,
        scroll_speed: b,
    });

    assert_eq!(
        cp.effect_point_at(1.0).map(|p| p.scroll_speed),
        Some(b),
        "the point with the differing scroll speed {b:?} was not stored: {:?}",
        cp.effect_points
    );
}
