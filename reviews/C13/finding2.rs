//! C13 violation: a difficulty / effect point whose velocity is infinite (or
//! NaN) is never recognised as repeating the active point.
//!
//! Drop this file into `tests/` and run `cargo test --offline --test finding2`.

use rosu_map::section::timing_points::{ControlPoints, DifficultyPoint, EffectPoint};

#[test]
fn repeated_infinite_scroll_speed_is_stored() {
    let mut cp = ControlPoints::default();

    cp.add(EffectPoint {
        time: 0.0,
        kiai: false,
        scroll_speed: f64::INFINITY,
    });

    let active = cp.effect_point_at(1.0).cloned().unwrap();
    let repeat = EffectPoint {
        time: 1.0,
        ..active.clone()
    };

    // same values as the active point
    assert_eq!(repeat.kiai, active.kiai);
    assert_eq!(repeat.scroll_speed, active.scroll_speed);

    cp.add(repeat);

    assert_eq!(
        cp.effect_points.len(),
        1,
        "an effect point that merely repeats the point active at its time was stored: {:?}",
        cp.effect_points
    );
}

#[test]
fn repeated_infinite_slider_velocity_is_stored() {
    let mut cp = ControlPoints::default();

    cp.add(DifficultyPoint {
        time: 0.0,
        slider_velocity: f64::NEG_INFINITY,
        generate_ticks: true,
    });
    cp.add(DifficultyPoint {
        time: 1.0,
        slider_velocity: f64::NEG_INFINITY,
        generate_ticks: true,
    });

    assert_eq!(
        cp.difficulty_points.len(),
        1,
        "a difficulty point that merely repeats the point active at its time was stored: {:?}",
        cp.difficulty_points
    );
}

#[test]
fn is_redundant_is_not_reflexive() {
    let p = EffectPoint {
        time: 0.0,
        kiai: true,
        scroll_speed: f64::INFINITY,
    };

    assert!(p == p.clone());
    assert!(
        p.is_redundant(&p.clone()),
        "a point is not redundant w.r.t. an identical point"
    );
}
