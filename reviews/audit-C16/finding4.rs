//! C16, clause "cumulative lengths start at 0, never decrease (beyond float
//! rounding of the order of 1e-5)" and C19, clause "the position at progress 0
//! is the first path point".
//!
//! In osu! mode the length "removed" by the Catmull simplification is
//! `sum of the small steps - direct distance`. For collinear control points
//! that difference is pure single-precision rounding noise and can be
//! negative; summed over all simplified pieces it reaches -1.5e-4. It is
//! booked on the first cumulative length, so when the path starts with two
//! identical points the second cumulative length is negative.

use rosu_map::{
    section::{
        general::GameMode,
        hit_objects::{Curve, CurveBuffers, HitObjectKind, HitObjects, PathControlPoint, PathType},
    },
    util::Pos,
};

fn check(curve: &Curve) {
    let lengths = curve.lengths();
    assert_eq!(lengths[0], 0.0);

    for (i, w) in lengths.windows(2).enumerate() {
        assert!(
            w[1] >= w[0] - 1e-5,
            "cumulative length decreases from lengths[{i}] = {:e} to lengths[{}] = {:e} \
            (by {:e}, more than rounding of the order of 1e-5)",
            w[0],
            i + 1,
            w[1],
            w[0] - w[1],
        );
    }

    assert_eq!(
        curve.position_at(0.0),
        curve.path()[0],
        "position at progress 0 is not the first path point; lengths start with {:?}",
        &lengths[..3],
    );
}

#[test]
fn through_the_api() {
    // (0,0) L, (0,0), then a straight Catmull (98,-228) + k * (-205,-21), k = 0..=9
    let mut points = vec![
        PathControlPoint {
            pos: Pos::new(0.0, 0.0),
            path_type: Some(PathType::LINEAR),
        },
        PathControlPoint {
            pos: Pos::new(0.0, 0.0),
            path_type: None,
        },
    ];

    for k in 0..10 {
        points.push(PathControlPoint {
            pos: Pos::new(98.0 - 205.0 * k as f32, -228.0 - 21.0 * k as f32),
            path_type: (k == 0).then_some(PathType::CATMULL),
        });
    }

    assert_eq!(points.len(), 12);
    let curve = Curve::new(GameMode::Osu, &points, None, &mut CurveBuffers::default());
    check(&curve);
}

#[test]
fn through_a_file() {
    let map = "osu file format v14\n\n[General]\nMode: 0\n\n[HitObjects]\n\
        1000,1000,0,2,0,L|1000:1000|C|1098:772|893:751|688:730|483:709|278:688|73:667|-132:646|-337:625|-542:604|-747:583,1\n";
    let mut hit_objects = rosu_map::from_str::<HitObjects>(map).unwrap().hit_objects;
    let HitObjectKind::Slider(ref mut slider) = hit_objects[0].kind else {
        panic!("expected a slider")
    };
    assert_eq!(slider.path.control_points().len(), 12);
    check(slider.path.curve());
}
