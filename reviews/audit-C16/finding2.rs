//! C16, clause "cumulative lengths ... stay finite" (and C19: positions).
//!
//! Three finite, moderate (<= 40000) control points of a perfect curve pass
//! the collinearity test, the circumcentre is finite (20000, -2e19) but the
//! radius `|a - centre|` overflows single precision when squared and becomes
//! `inf`. The arc is then built as `centre + (cos, sin) * inf`.

use rosu_map::{
    section::{
        general::GameMode,
        hit_objects::{Curve, CurveBuffers, PathControlPoint, PathType},
    },
    util::Pos,
};

#[test]
fn perfect_curve_with_finite_centre_and_infinite_radius() {
    let points = [
        PathControlPoint {
            pos: Pos::new(0.0, 0.0),
            path_type: Some(PathType::PERFECT_CURVE),
        },
        PathControlPoint {
            pos: Pos::new(20000.0, 1e-11),
            path_type: None,
        },
        PathControlPoint {
            pos: Pos::new(40000.0, 0.0),
            path_type: None,
        },
    ];

    for mode in [GameMode::Osu, GameMode::Taiko, GameMode::Catch, GameMode::Mania] {
        for len in [None, Some(100.0), Some(40000.0), Some(1e5)] {
            let curve = Curve::new(mode, &points, len, &mut CurveBuffers::default());

            assert!(
                curve.lengths().iter().all(|l| l.is_finite()),
                "{mode:?} L={len:?}: cumulative lengths are not finite: {:?}, path {:?}",
                curve.lengths(),
                curve.path(),
            );
            assert!(
                curve.path().iter().all(|p| p.x.is_finite() && p.y.is_finite()),
                "{mode:?} L={len:?}: path is not finite: {:?}",
                curve.path(),
            );

            if let Some(len) = len {
                assert_eq!(curve.dist(), len, "{mode:?}: distance is not the requested length");
            }
        }
    }
}
