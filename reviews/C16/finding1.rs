//! finding1: in osu! mode the length removed by the Catmull simplification is
//! booked onto the FIRST segment of the whole path, so a requested length that
//! falls into (|first segment|, |first segment| + removed length) puts the end
//! of the curve beyond the first vertex, off the natural curve.
use rosu_map::{
    section::{
        general::GameMode,
        hit_objects::{Curve, CurveBuffers, PathControlPoint, PathType},
    },
    util::Pos,
};

fn cp(x: f32, y: f32, t: Option<PathType>) -> PathControlPoint {
    PathControlPoint {
        pos: Pos::new(x, y),
        path_type: t,
    }
}

/// Distance of `p` to the segment `a`-`b`, in f64.
fn dist_to_segment(p: Pos, a: Pos, b: Pos) -> f64 {
    let (px, py) = (f64::from(p.x), f64::from(p.y));
    let (ax, ay) = (f64::from(a.x), f64::from(a.y));
    let (bx, by) = (f64::from(b.x), f64::from(b.y));
    let (dx, dy) = (bx - ax, by - ay);
    let len_sq = dx * dx + dy * dy;
    let t = if len_sq > 0.0 {
        (((px - ax) * dx + (py - ay) * dy) / len_sq).clamp(0.0, 1.0)
    } else {
        0.0
    };

    (px - (ax + t * dx)).hypot(py - (ay + t * dy))
}

fn dist_to_polyline(p: Pos, path: &[Pos]) -> f64 {
    path.windows(2)
        .map(|w| dist_to_segment(p, w[0], w[1]))
        .fold(f64::INFINITY, f64::min)
}

fn check(points: &[PathControlPoint], len: f64) {
    let mut bufs = CurveBuffers::default();
    let natural = Curve::new(GameMode::Osu, points, None, &mut bufs);
    let cut = Curve::new(GameMode::Osu, points, Some(len), &mut bufs);

    assert!(len < natural.dist());
    assert_eq!(cut.dist(), len);

    let end = *cut.path().last().unwrap();
    let off = dist_to_polyline(end, natural.path());

    assert!(
        off < 1e-3,
        "requested length {len} (natural {}): the cut curve ends at {end}, which is {off} px away \
         from the natural curve; natural path starts {:?} with lengths {:?}",
        natural.dist(),
        &natural.path()[..3],
        &natural.lengths()[..3],
    );
}

#[test]
fn osu_catmull_cut_behind_linear_segment_stays_on_the_curve() {
    // straight 10px segment, then a Catmull segment circling around (10, 0)
    let points = [
        cp(0.0, 0.0, Some(PathType::LINEAR)),
        cp(10.0, 0.0, Some(PathType::CATMULL)),
        cp(10.0, 5.0, None),
        cp(15.0, 0.0, None),
        cp(10.0, -5.0, None),
        cp(5.0, 0.0, None),
        cp(10.0, 5.0, None),
        cp(15.0, 0.0, None),
        cp(10.0, -5.0, None),
        cp(5.0, 0.0, None),
        cp(10.0, 5.0, None),
        cp(15.0, 0.0, None),
    ];

    check(&points, 10.5);
}

#[test]
fn osu_catmull_cut_in_first_simplified_piece_stays_on_the_curve() {
    let points = [
        cp(0.0, 0.0, Some(PathType::CATMULL)),
        cp(50.0, 80.0, None),
        cp(100.0, -80.0, None),
        cp(150.0, 80.0, None),
        cp(200.0, 0.0, None),
    ];

    check(&points, 7.0);
}
