//! C12 finding 5: the redundancy check of difficulty and effect points uses a
//! tolerance (`abs(a - b) < f64::EPSILON`) where the legacy model compares the
//! values exactly (`SliderVelocity == existing.SliderVelocity`,
//! `ScrollSpeed == existing.ScrollSpeed`). Below 1.0 neighbouring doubles are
//! closer than f64::EPSILON, so a point whose value DIFFERS from the one
//! active at its time is dropped. The tolerance is not transitive either, so
//! which points survive depends on the order of the lines.

use rosu_map::section::timing_points::TimingPoints;

fn decode(general: &str, lines: &[&str]) -> TimingPoints {
    let mut s = String::from("osu file format v14\n\n[General]\n");
    s.push_str(general);
    s.push_str("\n\n[TimingPoints]\n");
    for l in lines {
        s.push_str(l);
        s.push('\n');
    }
    rosu_map::from_str(&s).unwrap()
}

#[test]
fn slider_velocity_differing_from_the_default_is_dropped() {
    // 100 / 100.00000000000001 == 0.9999999999999999 != 1.0
    let sv = 100.0 / 100.00000000000001_f64;
    assert_ne!(sv, 1.0);

    let cp = decode("Mode: 0", &["0,-100.00000000000001,4,1,0,100,0,0"]).control_points;

    assert_eq!(
        cp.difficulty_points.len(),
        1,
        "slider velocity {sv:?} differs from the default 1.0, the point does not repeat the \
         active values and must be stored; got {:?}",
        cp.difficulty_points
    );
}

#[test]
fn slider_velocity_differing_from_the_active_point_is_dropped() {
    let a = 100.0 / 200.0_f64;
    let b = 100.0 / 199.99999999999997_f64;
    assert_ne!(a, b);

    let cp = decode(
        "Mode: 0",
        &["0,-200,4,1,0,100,0,0", "10,-199.99999999999997,4,1,0,100,0,0"],
    )
    .control_points;

    assert_eq!(
        cp.difficulty_points.len(),
        2,
        "velocities {a:?} and {b:?} differ, both points must be stored; got {:?}",
        cp.difficulty_points
    );
}

#[test]
fn scroll_speed_differing_from_the_active_point_is_dropped() {
    let cp = decode(
        "Mode: 1",
        &["0,-200,4,1,0,100,0,0", "10,-199.99999999999997,4,1,0,100,0,0"],
    )
    .control_points;

    assert_eq!(
        cp.effect_points.len(),
        2,
        "scroll speeds 0.5 and 0.5000000000000001 differ, both effect points must be stored; \
         got {:?}",
        cp.effect_points
    );
}

#[test]
fn tolerance_is_not_transitive() {
    // four pairwise different velocities, each within EPSILON of its neighbour
    let bls = [
        "-200",
        "-199.99999999999997",
        "-199.99999999999991",
        "-199.99999999999989",
    ];
    let svs: Vec<f64> = bls
        .iter()
        .map(|b| 100.0 / -b.parse::<f64>().unwrap())
        .collect();
    for w in svs.windows(2) {
        assert!(w[0] < w[1], "precondition: velocities strictly increase: {svs:?}");
    }

    let lines: Vec<String> = bls
        .iter()
        .enumerate()
        .map(|(i, b)| format!("{},{b},4,1,0,100,0,0", i * 10))
        .collect();
    let lines: Vec<&str> = lines.iter().map(String::as_str).collect();

    let cp = decode("Mode: 0", &lines).control_points;

    let times: Vec<f64> = cp.difficulty_points.iter().map(|p| p.time).collect();
    assert_eq!(
        times,
        vec![0.0, 10.0, 20.0, 30.0],
        "four different velocities {svs:?} => four points in the legacy model; the crate keeps \
         the ones at {times:?} only"
    );
}
