// C14: "an absent, zero or negative length means natural length" - any other length is the
// requested length. lazer: length = Math.Max(0, ParseDouble(..)); if (length == 0) length = null.
// The crate drops every length below f64::EPSILON.
#[allow(unused_imports)]
use rosu_map::section::hit_objects::{HitObjectKind, HitObjects};

#[allow(dead_code)]
fn decode_v(version: u32, lines: &[&str]) -> HitObjects {
    let mut s = format!("osu file format v{version}\n\n[HitObjects]\n");
    for l in lines {
        s.push_str(l);
        s.push(char::from(10u8));
    }
    rosu_map::from_str(&s).unwrap()
}

#[allow(dead_code)]
fn decode(lines: &[&str]) -> HitObjects {
    decode_v(14, lines)
}

#[test]
fn tiny_positive_length_is_kept() {
    let h = decode(&["0,0,0,2,0,L|100:0,1,1e-20"]);
    assert_eq!(h.hit_objects.len(), 1);
    let HitObjectKind::Slider(ref s) = h.hit_objects[0].kind else { panic!("slider expected") };
    assert_eq!(
        s.path.expected_dist(),
        Some(1e-20),
        "length 1e-20 is positive, so it is the requested length; the crate fell back to the natural length"
    );
}
