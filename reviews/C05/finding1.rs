//! C05 finding 1: a `//` comment line in front of the version line changes the
//! format version handed to `DecodeState::create` (and `Beatmap::format_version`).
//!
//! Copy to `tests/finding1.rs` and run `cargo test --offline --test finding1`.
//! Fails on the unmodified tree.

use rosu_map::{Beatmap, DecodeBeatmap, DecodeState};

#[derive(Debug, PartialEq, Eq)]
struct Rec {
    version: i32,
    calls: Vec<(&'static str, String)>,
}

struct RecState(Rec);

impl DecodeState for RecState {
    fn create(version: i32) -> Self {
        Self(Rec {
            version,
            calls: Vec::new(),
        })
    }
}

impl From<RecState> for Rec {
    fn from(state: RecState) -> Self {
        state.0
    }
}

#[derive(Debug)]
struct Never;

impl std::fmt::Display for Never {
    fn fmt(&self, f: &mut std::fmt::Formatter<'_>) -> std::fmt::Result {
        f.write_str("never")
    }
}

impl std::error::Error for Never {}

macro_rules! rec {
    ($($name:ident => $label:literal,)*) => {
        $(fn $name(state: &mut RecState, line: &str) -> Result<(), Never> {
            state.0.calls.push(($label, line.to_owned()));
            Ok(())
        })*
    };
}

impl DecodeBeatmap for Rec {
    type Error = Never;
    type State = RecState;

    rec! {
        parse_general => "General",
        parse_editor => "Editor",
        parse_metadata => "Metadata",
        parse_difficulty => "Difficulty",
        parse_events => "Events",
        parse_timing_points => "TimingPoints",
        parse_colors => "Colours",
        parse_hit_objects => "HitObjects",
        parse_variables => "Variables",
        parse_catch_the_beat => "CatchTheBeat",
        parse_mania => "Mania",
    }
}

fn encode(text: &str, enc: usize) -> Vec<u8> {
    match enc {
        0 => text.as_bytes().to_vec(),
        1 => [&[0xEF, 0xBB, 0xBF][..], text.as_bytes()].concat(),
        2 => [0xFF, 0xFE]
            .into_iter()
            .chain(text.encode_utf16().flat_map(u16::to_le_bytes))
            .collect(),
        _ => [0xFE, 0xFF]
            .into_iter()
            .chain(text.encode_utf16().flat_map(u16::to_be_bytes))
            .collect(),
    }
}

const BASE: &str = "osu file format v9\n[General]\nMode: 1\n";

#[test]
fn blank_line_before_version_line_is_ignored() {
    // sanity: this half of the sentence holds
    for enc in 0..4 {
        let base = Rec::decode(&encode(BASE, enc)[..]).unwrap();
        let with = Rec::decode(&encode(&format!("\n  \n\t\n{BASE}"), enc)[..]).unwrap();
        assert_eq!(base, with);
        assert_eq!(base.version, 9);
    }
}

#[test]
fn comment_line_before_version_line_must_not_change_the_outcome() {
    for enc in 0..4 {
        let base = Rec::decode(&encode(BASE, enc)[..]).unwrap();
        assert_eq!(base.version, 9);

        for comment in ["// c", "  // c", "//"] {
            let text = format!("{comment}\n{BASE}");
            let with = Rec::decode(&encode(&text, enc)[..]).unwrap();

            assert_eq!(
                with, base,
                "encoding #{enc}: inserting the comment line {comment:?} in front of \
                 {BASE:?} changed the outcome (C05: blank lines and comment lines never \
                 change the outcome)"
            );
        }
    }
}

#[test]
fn comment_line_before_version_line_with_beatmap() {
    let base: Beatmap = rosu_map::from_str("osu file format v4\n[Metadata]\nTitle:x\n").unwrap();
    let with: Beatmap =
        rosu_map::from_str("// c\nosu file format v4\n[Metadata]\nTitle:x\n").unwrap();

    assert_eq!(base.format_version, 4);
    assert_eq!(
        with.format_version, base.format_version,
        "a leading comment line turned format version 4 into the latest version"
    );
}
