//! finding3: the encoder emits an additional inherited timing line at the time
//! of every hit object sample change (`collect_samples`). If such a time lies
//! within `f64::EPSILON` of - but is not equal to - the time of an existing
//! timing group, the decoder merges the new line into that group
//! (`|time - pending| < f64::EPSILON`) and the group's slider velocity / kiai /
//! scroll speed now start at the later time. The input itself contains no two
//! timing lines at different times closer than `f64::EPSILON`.
//!
//! Copy to `tests/finding3.rs` and run `cargo test --offline --test finding3`.

use rosu_map::{section::hit_objects::HitObjectKind, Beatmap};

fn sv_at(map: &Beatmap, time: f64) -> f64 {
    map.control_points
        .difficulty_point_at(time)
        .map_or(1.0, |point| point.slider_velocity)
}

fn kiai_at(map: &Beatmap, time: f64) -> bool {
    map.control_points
        .effect_point_at(time)
        .map_or(false, |point| point.kiai)
}

fn velocity(map: &Beatmap, idx: usize) -> f64 {
    match map.hit_objects[idx].kind {
        HitObjectKind::Slider(ref slider) => slider.velocity,
        _ => unreachable!(),
    }
}

fn roundtrip(text: &str) -> (Beatmap, Beatmap) {
    let mut first = Beatmap::from_bytes(text.as_bytes()).unwrap();
    let encoded = first.encode_to_string().unwrap();
    let second = Beatmap::from_bytes(encoded.as_bytes()).unwrap();

    (first, second)
}

/// A circle (with its own sample volume so that the emitted line is not
/// redundant) one ulp after the timing group at 0.5.
#[test]
fn object_start_time_next_to_timing_group() {
    const INPUT: &str = "osu file format v14

[General]
Mode: 0

[TimingPoints]
0.5,500,4,1,0,100,1,0
0.5,-50,4,1,0,100,0,1

[HitObjects]
100,100,0.5,2,0,L|200:100,1,100
100,100,0.5000000000000001,1,0,0:0:0:50:
";

    let (first, second) = roundtrip(INPUT);

    assert_eq!(sv_at(&first, 0.5), 2.0, "sanity");
    assert!(kiai_at(&first, 0.5), "sanity");

    assert_eq!(
        sv_at(&first, 0.5),
        sv_at(&second, 0.5),
        "effective slider velocity at t=0.5 changed by decode -> encode -> decode"
    );
    assert_eq!(
        kiai_at(&first, 0.5),
        kiai_at(&second, 0.5),
        "kiai at t=0.5 changed by decode -> encode -> decode"
    );
    assert_eq!(
        velocity(&first, 0),
        velocity(&second, 0),
        "velocity of the slider at t=0.5 changed by decode -> encode -> decode"
    );
}

/// Same with the time `1e-300` next to the very common timing group at 0.
#[test]
fn object_start_time_next_to_timing_group_at_zero() {
    const INPUT: &str = "osu file format v14

[TimingPoints]
0,500,4,1,0,100,1,0
0,-50,4,1,0,100,0,0

[HitObjects]
100,100,0,2,0,L|200:100,1,100
100,100,1e-300,1,0,0:0:0:50:
";

    let (first, second) = roundtrip(INPUT);

    assert_eq!(
        sv_at(&first, 0.0),
        sv_at(&second, 0.0),
        "effective slider velocity at t=0 changed by decode -> encode -> decode"
    );
}

/// No hostile object time needed: the *end* time of the slider
/// (0 + 300 / 600 = 0.5000000000000001) is what lands next to the group at 0.5.
#[test]
fn slider_end_time_next_to_timing_group() {
    const INPUT: &str = "osu file format v14

[General]
Mode: 1

[Difficulty]
SliderMultiplier: 3.6

[TimingPoints]
0,-5,4,1,5,100,0,0
0.5,6,4,1,2,100,1,1
0.501,60000,4,1,0,50,1,1

[HitObjects]
0,-50,0,2,6,B|30:-25|30:-50,1,300
";

    let (first, second) = roundtrip(INPUT);

    assert_eq!(sv_at(&first, 0.5), 1.0, "sanity: the timing line at 0.5 resets the velocity");

    assert_eq!(
        sv_at(&first, 0.5),
        sv_at(&second, 0.5),
        "effective slider velocity at t=0.5 changed by decode -> encode -> decode"
    );
    assert_eq!(
        kiai_at(&first, 0.5),
        kiai_at(&second, 0.5),
        "kiai at t=0.5 changed by decode -> encode -> decode"
    );
}
