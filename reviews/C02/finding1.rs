//! finding1: the game mode is consulted while the `[TimingPoints]` lines are
//! being parsed, so a file whose `[General]` section comes after
//! `[TimingPoints]` decodes differently from its own re-encoding (which always
//! writes `[General]` first).
//!
//! Copy to `tests/finding1.rs` and run `cargo test --offline --test finding1`.

use rosu_map::{section::hit_objects::HitObjectKind, Beatmap};

fn sv_at(map: &Beatmap, time: f64) -> f64 {
    map.control_points
        .difficulty_point_at(time)
        .map_or(1.0, |point| point.slider_velocity)
}

fn scroll_at(map: &Beatmap, time: f64) -> f64 {
    map.control_points
        .effect_point_at(time)
        .map_or(1.0, |point| point.scroll_speed)
}

fn velocity(map: &Beatmap) -> f64 {
    match map.hit_objects[0].kind {
        HitObjectKind::Slider(ref slider) => slider.velocity,
        _ => unreachable!(),
    }
}

fn roundtrip(text: &str) -> (Beatmap, Beatmap) {
    let mut first = Beatmap::from_bytes(text.as_bytes()).unwrap();
    let encoded = first.encode_to_string().unwrap();
    let second = Beatmap::from_bytes(encoded.as_bytes()).unwrap();

    (first, second)
}

/// `[TimingPoints]` before `[General]` with `Mode: 3` (same with `Mode: 1`).
#[test]
fn mania_mode_after_timing_points_loses_slider_velocity() {
    const INPUT: &str = "osu file format v14

[TimingPoints]
0,500,4,1,0,100,1,0
1000,-50,4,1,0,100,0,0

[General]
Mode: 3

[HitObjects]
100,100,2000,2,0,L|200:100,1,100
";

    let (first, second) = roundtrip(INPUT);

    assert_eq!(sv_at(&first, 1000.0), 2.0, "sanity: the inherited line doubles the velocity");

    assert_eq!(
        sv_at(&first, 1000.0),
        sv_at(&second, 1000.0),
        "effective slider velocity at t=1000 changed by decode -> encode -> decode"
    );
    assert_eq!(
        velocity(&first),
        velocity(&second),
        "velocity of the slider at t=2000 changed by decode -> encode -> decode"
    );
}

/// The other direction: the lines are parsed as mania but the map ends up
/// as osu!standard because a second `[General]` section follows.
#[test]
fn mode_changed_after_timing_points_loses_scroll_speed() {
    const INPUT: &str = "osu file format v14

[General]
Mode: 3

[TimingPoints]
0,500,4,1,0,100,1,0
1000,-50,4,1,0,100,0,0

[General]
Mode: 0
";

    let (first, second) = roundtrip(INPUT);

    assert_eq!(
        scroll_at(&first, 1000.0),
        scroll_at(&second, 1000.0),
        "effective scroll speed at t=1000 changed by decode -> encode -> decode"
    );
}
