//! C01: encoding a 194 byte map needs about 1.8 * 10^9 slider events
//! (16 s in a release build, 70 s in a debug build on the test machine).
//!
//! Copy to `tests/finding5.rs` and run `cargo test --offline --test finding5`
//! (add `--release` for the release figure).

use std::{
    sync::mpsc,
    thread,
    time::{Duration, Instant},
};

use rosu_map::Beatmap;

const INPUT: &str = "osu file format v14

[General]
Mode: 0

[Difficulty]
SliderMultiplier:0.4
SliderTickRate:8

[TimingPoints]
0,6,4,1,0,100,1,0
0,-1000,4,1,0,100,0,0

[HitObjects]
0,0,0,2,0,L|100000:0,9000,100000
";

const LIMIT: Duration = Duration::from_secs(5);

#[test]
fn encoding_a_tiny_map_takes_reasonable_time() {
    let start = Instant::now();
    let mut map: Beatmap = rosu_map::from_str(INPUT).unwrap();
    let decode_time = start.elapsed();
    assert_eq!(map.hit_objects.len(), 1);

    let (tx, rx) = mpsc::channel();

    thread::spawn(move || {
        let start = Instant::now();
        let res = map.encode_to_string().map(|text| text.len());
        let _ = tx.send((res, start.elapsed()));
    });

    match rx.recv_timeout(LIMIT) {
        Ok((res, encode_time)) => {
            res.unwrap();
            println!("decode {decode_time:?}, encode {encode_time:?}");
        }
        Err(_) => panic!(
            "decoding the {} byte map took {decode_time:?} but encoding it did not finish \
            within {LIMIT:?} (the encoder walks through 9000 spans x 200000 slider ticks)",
            INPUT.len()
        ),
    }
}
