//! C01: decoding allocates (and keeps) about 1.8 MB for every 24 byte slider
//! line with the maximal repeat count, i.e. 72 MB for a 1 kB file and 3.6 GB
//! for a 48 kB file.
//!
//! Copy to `tests/finding6.rs` and run `cargo test --offline --test finding6`.

use std::{
    alloc::{GlobalAlloc, Layout, System},
    sync::atomic::{AtomicUsize, Ordering::SeqCst},
};

use rosu_map::Beatmap;

struct Tracking;

static CURRENT: AtomicUsize = AtomicUsize::new(0);
static PEAK: AtomicUsize = AtomicUsize::new(0);

unsafe impl GlobalAlloc for Tracking {
    unsafe fn alloc(&self, layout: Layout) -> *mut u8 {
        let now = CURRENT.fetch_add(layout.size(), SeqCst) + layout.size();
        PEAK.fetch_max(now, SeqCst);

        System.alloc(layout)
    }

    unsafe fn dealloc(&self, ptr: *mut u8, layout: Layout) {
        CURRENT.fetch_sub(layout.size(), SeqCst);
        System.dealloc(ptr, layout);
    }

    unsafe fn realloc(&self, ptr: *mut u8, layout: Layout, new_size: usize) -> *mut u8 {
        if new_size > layout.size() {
            let diff = new_size - layout.size();
            let now = CURRENT.fetch_add(diff, SeqCst) + diff;
            PEAK.fetch_max(now, SeqCst);
        } else {
            CURRENT.fetch_sub(layout.size() - new_size, SeqCst);
        }

        System.realloc(ptr, layout, new_size)
    }
}

#[global_allocator]
static ALLOC: Tracking = Tracking;

/// Bytes of heap the decoder may use per byte of input.
const ALLOWED_FACTOR: usize = 1000;

#[test]
fn decoding_allocates_in_proportion_to_the_input() {
    let mut input = String::from("osu file format v14\n\n[HitObjects]\n");

    for _ in 0..40 {
        input.push_str("0,0,0,2,14,L|1:0,9000,1\n");
    }

    let base = CURRENT.load(SeqCst);
    PEAK.store(base, SeqCst);

    let map: Beatmap = rosu_map::from_str(&input).unwrap();

    let peak = PEAK.load(SeqCst) - base;
    let held = CURRENT.load(SeqCst) - base;

    assert_eq!(map.hit_objects.len(), 40);

    assert!(
        peak <= ALLOWED_FACTOR * input.len(),
        "decoding {} bytes allocated {peak} bytes ({held} of them still held by the result), \
        that is {} bytes per byte of input",
        input.len(),
        peak / input.len(),
    );
}
