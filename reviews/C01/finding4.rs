//! C04: a spinner (or mania hold note) that ends exactly at the largest
//! accepted time is written with an end time the hit object parser rejects,
//! because the end time is re-computed as `start + (end - start)`.
//!
//! Copy to `tests/finding4.rs` and run `cargo test --offline --test finding4`.

use rosu_map::{Beatmap, BeatmapState, DecodeBeatmap, DecodeState};

fn check(mode: u8, object: &str) {
    let input =
        format!("osu file format v14\n\n[General]\nMode: {mode}\n\n[HitObjects]\n{object}\n");

    let mut decoded: Beatmap = rosu_map::from_str(&input).unwrap();
    assert_eq!(decoded.hit_objects.len(), 1, "the input object is accepted");

    let encoded = decoded.encode_to_string().unwrap();

    let line = encoded
        .lines()
        .skip_while(|line| *line != "[HitObjects]")
        .nth(1)
        .unwrap();

    let mut state = BeatmapState::create(decoded.format_version);
    let res = Beatmap::parse_hit_objects(&mut state, line);

    assert!(
        res.is_ok(),
        "`{object}` is written as `{line}` which the hit object parser rejects: {:?}",
        res.err()
    );

    let reread: Beatmap = rosu_map::from_str(&encoded).unwrap();
    assert_eq!(reread.hit_objects.len(), 1, "the object got lost");
}

#[test]
fn spinner_ending_at_the_time_limit() {
    check(0, "256,192,-1.3,12,0,2147483647");
}

#[test]
fn hold_note_ending_at_the_time_limit() {
    check(3, "256,192,-1.3,128,0,2147483647:0:0:0:0:");
}
