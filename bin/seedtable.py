#!/usr/bin/env python3
"""Print the markdown table of seeded changes (DESIGN.md I.7) from seeded/*/meta.json; `--write` replaces it in DESIGN.md."""
import json, os, re, sys
ROOT = os.path.dirname(os.path.dirname(os.path.abspath(__file__)))
rows = []
for name in sorted(os.listdir(os.path.join(ROOT, "seeded"))):
    m = json.load(open(os.path.join(ROOT, "seeded", name, "meta.json")))
    pid = m["property"]
    checks = dict(m.get("checks_before_strengthening", {}))
    checks.update(m.get("checks", {}))
    needs = re.sub(r"\s+", " ", m.get("needs", "")).replace("|", "\\|")[:230]
    tgt = checks.get(pid, {})
    if tgt.get("violation"):
        before = m.get("checks_before_strengthening", {}).get(pid)
        verdict = "caught by %s (quick)" % pid + (" after strengthening (first missed)" if before is not None and not before.get("violation") else "")
    else:
        verdict = "NOT reported: " + m.get("not_detected_reason", "?")
    others = ", ".join("%s %s" % (k, "also fires" if v.get("violation") else "silent") for k, v in sorted(checks.items()) if k != pid) or "-"
    rows.append("| %s | %s… | %s | %s |" % (name, needs, verdict, others))
table = "| change | what it needs to manifest (author's note, abridged) | target | other checks run |\n|---|---|---|---|\n" + "\n".join(rows)
if "--write" in sys.argv:
    # replace the table in DESIGN.md I.7 (from its header line to its last row)
    path = os.path.join(ROOT, "DESIGN.md")
    lines = open(path).read().split("\n")
    start = next(i for i, l in enumerate(lines) if l.startswith("| change | what it needs to manifest"))
    end = start
    while end < len(lines) and lines[end].startswith("|"):
        end += 1
    lines[start:end] = table.split("\n")
    open(path, "w").write("\n".join(lines))
    print("table of %d changes written to DESIGN.md" % len(rows))
else:
    print(table)
