#!/usr/bin/env python3
"""Re-run checks against an already stored seeded change after strengthening them.
usage: bin/seedretest.py <seeded-name> <property-id>...   (MUTATES /repo temporarily; never while a `vp run` is active)"""
import json, os, subprocess, sys, time
ROOT = os.path.dirname(os.path.dirname(os.path.abspath(__file__)))


def sh(cmd, timeout=3600):
    p = subprocess.run(cmd, cwd=ROOT, shell=True, stdout=subprocess.PIPE, stderr=subprocess.STDOUT, text=True, timeout=timeout,
                       env=dict(os.environ, CARGO_NET_OFFLINE="true"))
    return p.returncode, p.stdout


name, checks = sys.argv[1], sys.argv[2:]
d = os.path.join(ROOT, "seeded", name)
meta = json.load(open(d + "/meta.json"))
patch = d + ("/patch.adapted.diff" if os.path.exists(d + "/patch.adapted.diff") else "/patch.diff")
if sh("git -C /repo status --porcelain")[1].strip():
    sys.exit("/repo not clean")
rc, out = sh("git -C /repo apply %s" % patch)
if rc != 0:
    sys.exit("patch does not apply: " + out[:300])
res = {}
try:
    for chk in checks:
        t0 = time.time()
        rc, out = sh("bin/check %s quick" % chk)
        v = [l for l in out.splitlines() if l.startswith("VIOLATION")]
        first = next((l for l in out.splitlines() if "violation:" in l), "")
        res[chk] = dict(rc=rc, violation=bool(v), seconds=round(time.time() - t0, 1), first=first[:400])
finally:
    sh("git -C /repo checkout -- .")
if "checks_before_strengthening" not in meta:
    meta["checks_before_strengthening"] = meta.get("checks", {})
    meta["checks"] = {}
meta["checks"].update(res)
json.dump(meta, open(d + "/meta.json", "w"), indent=1)
print(name, {k: ("CAUGHT" if v["violation"] else "missed(rc=%d)" % v["rc"]) for k, v in res.items()})
