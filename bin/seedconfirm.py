#!/usr/bin/env python3
"""Confirm seeded changes written by independent sub-agents in scratch worktrees /tmp/wt-<id>/seed
(suite passes with the patch, demo fails with it and passes without), run our checks against each
and store them under /verif/seeded/<id>-<n>/ (SEED_WT = worktree prefix, SEED_OFFSET = added to n for later rounds).   usage: bin/seedconfirm.py C13 [C12 ...]"""
import json, os, shutil, subprocess, sys, time

ROOT = os.path.dirname(os.path.dirname(os.path.abspath(__file__)))
# which checks to run for a change meant to break property X (the property itself first)
ALSO = {"C05": ["C07"], "C06": ["C14", "C12"], "C14": ["C06"], "C08": ["C09", "C10"], "C10": ["C08"], "C02": ["C04"], "C04": ["C02"],
        "C16": ["C19"], "C19": ["C16"], "C12": ["C06"], "C11": ["C03"], "C03": ["C11"], "C09": ["C08"]}


def sh(cmd, cwd, env=None, timeout=1800):
    e = dict(os.environ, CARGO_NET_OFFLINE="true")
    if env:
        e.update(env)
    p = subprocess.run(cmd, cwd=cwd, shell=True, stdout=subprocess.PIPE, stderr=subprocess.STDOUT, text=True, env=e, timeout=timeout)
    return p.returncode, p.stdout


def main():
    for pid in sys.argv[1:]:
        wt = "%s-%s" % (os.environ.get("SEED_WT", "/tmp/wt"), pid)
        env = {"CARGO_TARGET_DIR": wt + "/target"}
        for n in (1, 2, 3):
            patch = "%s/seed/patch%d.diff" % (wt, n)
            if not os.path.exists(patch) and os.path.exists("%s/seed/mutant%d.diff" % (wt, n)):
                shutil.copy("%s/seed/mutant%d.diff" % (wt, n), patch)
            demo = "%s/seed/demo%d.rs" % (wt, n)
            if not os.path.exists(patch):
                continue
            name = "%s-%d" % (pid, n + int(os.environ.get("SEED_OFFSET", "0")))
            meta = dict(property=pid, name=name, ran=[])
            sh("git checkout -- . && rm -f tests/seed_demo*.rs", wt)
            rc, out = sh("git apply %s" % patch, wt)
            if rc != 0:
                print(name, "patch does not apply"); continue
            rc, out = sh("cargo test --offline 2>&1 | grep -E '^test result|FAILED' ", wt, env)
            suite_ok = "FAILED" not in out and out.count("test result: ok") >= 5
            meta["ran"].append("with patch: cargo test --offline -> %s" % ("all ok" if suite_ok else "FAILS"))
            shutil.copy(demo, "%s/tests/seed_demo%d.rs" % (wt, n))
            rc1, out1 = sh("cargo test --offline --test seed_demo%d 2>&1" % n, wt, env)
            meta["ran"].append("with patch: demo -> %s" % ("fails" if rc1 != 0 else "PASSES"))
            sh("git checkout -- src", wt)
            rc2, out2 = sh("cargo test --offline --test seed_demo%d 2>&1" % n, wt, env)
            meta["ran"].append("without patch: demo -> %s" % ("passes" if rc2 == 0 else "FAILS"))
            sh("rm -f tests/seed_demo*.rs && git checkout -- .", wt)
            confirmed = suite_ok and rc1 != 0 and rc2 == 0
            meta["confirmed"] = confirmed
            if not confirmed:
                print(name, "NOT confirmed", meta["ran"]); continue
            # our checks
            if subprocess.run("git -C /repo status --porcelain", shell=True, capture_output=True, text=True).stdout.strip():
                print("/repo not clean"); return
            rc_apply, out_apply = sh("git -C /repo apply %s" % patch, ROOT)
            if rc_apply != 0:
                # /repo has moved on (a later fix: commit touched the same lines): needs a hand-adapted patch
                alt = patch.replace(".diff", ".adapted.diff")
                if os.path.exists(alt):
                    rc_apply, out_apply = sh("git -C /repo apply %s" % alt, ROOT)
                    meta["adapted"] = "the original patch no longer applies to /repo after a later fix: commit; the same change was re-made by hand (patch.adapted.diff)"
                    patch_used = alt
                if rc_apply != 0:
                    print(name, "patch does not apply to /repo:", out_apply[:200]); continue
            caught = {}
            try:
                for chk in [pid] + ALSO.get(pid, []):
                    t0 = time.time()
                    rc, out = sh("bin/check %s quick" % chk, ROOT, timeout=3600)
                    v = [l for l in out.splitlines() if l.startswith("VIOLATION")]
                    first = next((l for l in out.splitlines() if "violation:" in l), "")
                    caught[chk] = dict(rc=rc, violation=bool(v), seconds=round(time.time() - t0, 1), first=first[:400])
            finally:
                sh("git -C /repo checkout -- .", ROOT)
            meta["checks"] = caught
            d = os.path.join(ROOT, "seeded", name)
            os.makedirs(d, exist_ok=True)
            shutil.copy(patch, d + "/patch.diff")
            if meta.get("adapted"):
                shutil.copy(patch.replace(".diff", ".adapted.diff"), d + "/patch.adapted.diff")
            shutil.copy(demo, d + "/demo.rs")
            notes = "%s/seed/notes%d.md" % (wt, n)
            if not os.path.exists(notes):
                notes = "%s/seed/needs%d.txt" % (wt, n)
            meta["needs"] = open(notes).read() if os.path.exists(notes) else ""
            json.dump(meta, open(d + "/meta.json", "w"), indent=1)
            print(name, "confirmed;", {k: ("CAUGHT" if v["violation"] else "missed(rc=%d)" % v["rc"]) for k, v in caught.items()})


main()
