#!/usr/bin/env python3
"""Regenerates /verif/MANIFEST.json from the table below (single source of truth)."""
import json
import os

ROOT = os.path.dirname(os.path.dirname(os.path.abspath(__file__)))
ALL = ["C%02d" % i for i in range(1, 21)]

CLAIMS = {
    "C13": dict(
        category="model_checking", design_ref="DESIGN.md section 4, C13",
        technique="TLA+ spec ControlPoints/ControlPointOps checked by TLC (complete reachable graph per kind + bounded combined sequences); one real-code test per TLC transition; trace validation of recorded random histories (Trace_ControlPoints)",
        text="TLC checks ordering, one-point-per-time, redundancy (as an action property) and lookup semantics on the complete reachable state graph of add operations over the property's alphabet; every transition of that graph is replayed through the real ControlPoints::add and *_point_at and compared state-for-state, and random long histories with fractional/negative times recorded from the real API are validated against the same spec.",
        note="Trusted: TLC, the harness projection (cp.rs, ~100 lines), times finite and not -0.0; values on a 1/1000 lattice."),
}

CLAIMS["C05"] = dict(
    category="model_checking", design_ref="DESIGN.md section 4, C05",
    technique="TLA+ spec Framing (one action per branch of the decode driver) refined to a declarative framing rule, checked by TLC on all files up to a length bound; every TLC-generated file replayed into rosu-map in 4 encodings through a recording DecodeBeatmap implementor; trace validation (Trace_Framing) of per-line deliveries recorded on bundled and random files",
    text="TLC proves, for every file of line kinds up to the bound, that the operational driver (version slot, use-current-line, first-section scan, section loop) computes exactly the declarative rule of the property, that blank/comment lines are outcome-neutral and that every behaviour terminates; the real driver is bound to the model in both directions: every enumerated file is decoded by the real code and compared with the predicted version and deliveries, and line-by-line recordings of the real driver on bundled and long random files must be behaviours of the same actions.",
    note="Trusted: TLC, the spelling table + classifier in harness/src/framing.rs (self-checked), the byte-counting BufRead used to attribute deliveries to lines. Text decoding/line splitting is C08/C10.")
CLAIMS["C07"] = dict(
    category="model_checking", design_ref="DESIGN.md section 4, C07",
    technique="TLA+ spec Framing with the decoder table Handles and invariant C07Projection checked by TLC; every TLC-generated file decoded by all nine real decoder types and compared field by field with Beatmap and with the fold over the decoder's handled deliveries",
    text="The model states that the driver is decoder-independent and that a specialised decoder applies exactly the deliveries of the sections it handles; TLC checks this on every file up to the bound and the harness checks on every such file (records of all sections, valid and invalid) that each of the eight specialised decoders returns Beatmap's values for all shared fields.",
    note="Trusted: TLC, the field lists in harness/src/framing.rs::c07_diffs (written from the public struct definitions). Deeper record contents are covered because the C06/C11/C12/C14 replays run the same comparison.")

CLAIMS["C12"] = dict(
    category="model_checking", design_ref="DESIGN.md section 4, C12",
    technique="TLA+ spec TimingLines (pending group + ControlPointOps) refined to the declarative legacy rule, checked by TLC on all line sequences up to a bound over factored alphabets; every TLC-generated sequence replayed through the real TimingPoints decoder; trace validation (Trace_TimingLines) of long random unsorted sequences with the flushed lists logged after every line",
    text="TLC shows that the operational decoder (pending time, push-front/push-back, flush, redundancy-aware add) computes exactly the declarative legacy rule (maximal runs of close times; last inherited else first timing-change per kind; add in order) for every sequence up to the bound, with sortedness and clamp invariants; the real decoder is compared with the model's predicted four lists on every enumerated sequence under two spellings, and long random sequences recorded from the real parser must be behaviours of the same operators.",
    note="Trusted: TLC, the spelling table harness/src/timing.rs, exactness rule (velocities on a 1/1000 lattice), times = whole ms plus 0+ (1e-17); -0 and NaN times are outside the alphabet.")

CLAIMS["C14"] = dict(
    category="model_checking", design_ref="DESIGN.md section 4, C14",
    technique="TLA+ specs HitObjectLine + PathString + Samples (abstract hit-object lines, path tokens, bank infos) with structural invariants checked by TLC; every TLC-generated line sequence replayed line by line into the real parse_hit_objects on its public state",
    text="The legacy grammar is transcribed as operators over abstract lines (type/sound bits, coordinate truncation and limits, repeat/length/duration rules, node lists, bank infos, the path-token decoder with its implicit-segment rules); TLC enumerates every type byte, every sound byte, combo sequences, numeric and rejection classes, bank-info shapes and every path token string up to the bound, checks the structural invariants of the decoded objects, and the real parser is compared with the predicted object after every line under two spellings.",
    note="Trusted: TLC, the spelling table and projection in harness/src/hitobj.rs; values are integers (fraction class only for truncation); paths are spelled around four named points.")
CLAIMS["C06"] = dict(
    category="model_checking", design_ref="DESIGN.md section 4, C06",
    technique="TLA+ spec HitObjectLine (Accept/Reject actions with the scratch state a line can pass on) and TimingLines (Reject = stutter): invariant 'result = fold of accepted lines' checked by TLC; replay of every generated sequence line by line plus the model-free relation decode(file) == decode(file minus rejected lines); a Neg config keeps the pinned (leaking) behaviour as a violated model",
    text="TLC checks over all sequences up to the bound (valid records x every rejection class, including failures deep inside multi-segment paths) that the decoded objects are a fold of the accepted lines only; the real parser is replayed on each sequence with per-line Ok/Err compared with the model's verdict, and the decoder's result is compared with that of the same file without the rejected lines.",
    note="Trusted: TLC, harness spelling tables. Key/value, event and colour sections are covered by C11's Records check.")

NOT_YET = "check not built yet in this round (planned, see DESIGN.md section 4)"
NA = {
    "C17": "real-valued geometry (Hausdorff distance to Bezier/arc/Catmull curves): no discrete state or history for a TLA+ specification to decide; see DESIGN.md section 4, C17",
}


def main():
    checks = []
    for pid in ALL:
        if pid not in CLAIMS:
            continue
        c = CLAIMS[pid]
        checks.append(dict(
            property_id=pid,
            quick_cmd="bin/check %s quick" % pid,
            thorough_cmd="bin/check %s thorough" % pid,
            evidence_file="evidence/%s.json" % pid,
            replay_cmd_template="cat {path}",
            engine="tla-conformance",
            level_claimed=dict(category=c["category"], text=c["text"], design_ref=c["design_ref"]),
            level_note=c["note"],
            technique=c["technique"],
        ))
    na = []
    for pid in ALL:
        if pid in CLAIMS:
            continue
        na.append(dict(property_id=pid, reason=NA.get(pid, NOT_YET)))
    man = dict(
        version=1,
        setup_cmd="bin/setup",
        hooks=dict(guard="rosu_map_verif",
                   enable="harness/.cargo/config.toml passes --cfg rosu_map_verif to every crate it builds (including the /repo path dependency); no hook is currently needed or present",
                   baseline_off_cmd="cd /repo && cargo test --workspace --no-fail-fast --offline",
                   source_commits=[], add_only=True),
        engines=[dict(name="tla-conformance", path="bin/check",
                      serves_properties=sorted(CLAIMS),
                      kind_free_text="explicit TLA+ specifications (spec/*.tla) model-checked with TLC; bound to the implementation by replaying TLC-generated behaviours into rosu-map (harness/) and validating traces recorded from rosu-map against the spec")],
        checks=checks,
        notes="All verdicts are taken at the public API of rosu-map; see DESIGN.md.",
        not_applicable=na,
    )
    with open(os.path.join(ROOT, "MANIFEST.json"), "w") as f:
        json.dump(man, f, indent=1)
        f.write("\n")


if __name__ == "__main__":
    main()
