#!/usr/bin/env python3
"""Regenerates /verif/MANIFEST.json from the table below (single source of truth)."""
import json
import os

ROOT = os.path.dirname(os.path.dirname(os.path.abspath(__file__)))
ALL = ["C%02d" % i for i in range(1, 21)]

CLAIMS = {
    "C13": dict(
        category="model_checking", design_ref="DESIGN.md section 4, C13",
        technique="TLA+ spec ControlPoints/ControlPointOps checked by TLC (complete reachable graph per kind + bounded combined sequences); one real-code test per TLC transition; trace validation of recorded random histories (Trace_ControlPoints; time pools contain ulp-neighbours, points are struct literals incl. out-of-range values); Apalache inductive-invariant check of strict sortedness for arbitrary integer times; seed-drawn value alphabets (RandCP.tla); both readings of a repeat of a non-finite velocity (DifRed/DifRedW) with the code's named as a known finding; fixed histories for the two zeros (cp negzero)",
        text="TLC checks ordering, one-point-per-time, redundancy (as an action property) and lookup semantics on the complete reachable state graph of add operations over the property's alphabet; every transition of that graph is replayed through the real ControlPoints::add and *_point_at and compared state-for-state, and random long histories with fractional/negative times recorded from the real API are validated against the same spec.",
        note="Trusted: TLC, the harness projection (cp.rs, ~100 lines), times finite (-0.0 only in the fixed histories); values on a 1/1000 lattice."),
}

CLAIMS["C05"] = dict(
    category="model_checking", design_ref="DESIGN.md section 4, C05",
    technique="TLA+ spec Framing (one action per branch of the decode driver) refined to a declarative framing rule, checked by TLC on all files up to a length bound; every TLC-generated file replayed into rosu-map in 4 encodings through a recording DecodeBeatmap implementor; trace validation (Trace_Framing) of per-line deliveries recorded on bundled and random files; seed-drawn format versions over the whole accepted range and headers (RandFraming.tla), seed-generated spellings of blanks and near-headers",
    text="TLC proves, for every file of line kinds up to the bound, that the operational driver (version slot, use-current-line, first-section scan, section loop) computes exactly the declarative rule of the property, that blank/comment lines are outcome-neutral and that every behaviour terminates; the real driver is bound to the model in both directions: every enumerated file is decoded by the real code and compared with the predicted version and deliveries, and line-by-line recordings of the real driver on bundled and long random files must be behaviours of the same actions.",
    note="Trusted: TLC, the spelling table + classifier in harness/src/framing.rs (self-checked), the byte-counting BufRead used to attribute deliveries to lines. Text decoding/line splitting is C08/C10.")
CLAIMS["C07"] = dict(
    category="model_checking", design_ref="DESIGN.md section 4, C07",
    technique="TLA+ spec Framing with the decoder table Handles and invariant C07Projection checked by TLC; every TLC-generated file decoded by all nine real decoder types and compared field by field with Beatmap and with the fold over the decoder's handled deliveries; the Records / TimingLines case streams and a whole-map corpus (bundled, generated, hostile, line-shuffled) decoded by all nine decoders; SectionFlow.tla (sections in any order and repeated, exhaustive short and simulated long item sequences) decoded by Beatmap, HitObjects and TimingPoints",
    text="The model states that the driver is decoder-independent and that a specialised decoder applies exactly the deliveries of the sections it handles; TLC checks this on every file up to the bound and the harness checks on every such file (records of all sections, valid and invalid) that each of the eight specialised decoders returns Beatmap's values for all shared fields.",
    note="Trusted: TLC, the field lists in harness/src/framing.rs::c07_diffs (written from the public struct definitions). Deeper record contents are covered because the C06/C11/C12/C14 replays run the same comparison.")

CLAIMS["C12"] = dict(
    category="model_checking", design_ref="DESIGN.md section 4, C12",
    technique="TLA+ spec TimingLines (pending group + ControlPointOps) refined to the declarative legacy rule, checked by TLC on all line sequences up to a bound over factored alphabets; every TLC-generated sequence replayed through the real TimingPoints decoder; trace validation (Trace_TimingLines) of long random unsorted sequences with the flushed lists logged after every line; SectionOrder.tla ([General] records between timing lines) replayed; tlc -simulate long behaviours replayed; invariant Shape evaluated on real output with exotic times; a seed-generated randomised alphabet (RandTiming.tla); SectionFlow.tla (sections in any order / repeated) replayed for the control points",
    text="TLC shows that the operational decoder (pending time, push-front/push-back, flush, redundancy-aware add) computes exactly the declarative legacy rule (maximal runs of close times; last inherited else first timing-change per kind; add in order) for every sequence up to the bound, with sortedness and clamp invariants; the real decoder is compared with the model's predicted four lists on every enumerated sequence under two spellings, and long random sequences recorded from the real parser must be behaviours of the same operators.",
    note="Trusted: TLC, the spelling table harness/src/timing.rs, exactness rule (velocities on a 1/1000 lattice), times = whole ms plus 0+ (1e-17); -0 and NaN times are outside the alphabet.")

CLAIMS["C14"] = dict(
    category="model_checking", design_ref="DESIGN.md section 4, C14",
    technique="TLA+ specs HitObjectLine + PathString + Samples (abstract hit-object lines, path tokens, bank infos) with structural invariants checked by TLC; every TLC-generated line sequence replayed line by line into the real parse_hit_objects on its public state; trace validation of long random line sequences (Trace_HitObjectLine); tlc -simulate long behaviours replayed; all two-line sequences over a seed-generated randomised alphabet (RandLines.tla: the model stays the oracle, values from wide ranges)",
    text="The legacy grammar is transcribed as operators over abstract lines (type/sound bits, coordinate truncation and limits, repeat/length/duration rules, node lists, bank infos, the path-token decoder with its implicit-segment rules); TLC enumerates every type byte, every sound byte, combo sequences, numeric and rejection classes, bank-info shapes and every path token string up to the bound, checks the structural invariants of the decoded objects, and the real parser is compared with the predicted object after every line under two spellings.",
    note="Trusted: TLC, the spelling table and projection in harness/src/hitobj.rs; values are integers (fraction class only for truncation); paths are spelled around four named points plus two far-away points exactly collinear with the object (products beyond 2^24).")
CLAIMS["C06"] = dict(
    category="model_checking", design_ref="DESIGN.md section 4, C06",
    technique="TLA+ spec HitObjectLine (Accept/Reject actions with the scratch state a line can pass on) and TimingLines (Reject = stutter): invariant 'result = fold of accepted lines' checked by TLC; replay of every generated sequence line by line plus the model-free relation decode(file) == decode(file minus rejected lines); a Neg config keeps the pinned (leaking) behaviour as a violated model; long random sequences with frequent rejections: state and decode result with vs. without the rejected lines",
    text="TLC checks over all sequences up to the bound (valid records x every rejection class, including failures deep inside multi-segment paths) that the decoded objects are a fold of the accepted lines only; the real parser is replayed on each sequence with per-line Ok/Err compared with the model's verdict, and the decoder's result is compared with that of the same file without the rejected lines.",
    note="Trusted: TLC, harness spelling tables. Key/value, event and colour sections are covered by C11's Records check.")

CLAIMS["C20"] = dict(
    category="model_checking", design_ref="DESIGN.md section 4, C20",
    technique="TLA+ spec SliderEvents (iterator state machine over a shared tick buffer, New from any state) refined to the declarative event stream, checked by TLC over a parameter grid; every behaviour replayed through the real SliderEventsIter; trace validation (Trace_SliderEvents) of random lattice parameters with random abandon points; the specification's declarative stream evaluated in f64 on seeded random real-valued parameters (tolerant at the exact 10 ms cut-off)",
    text="TLC checks on every parameter set of the grid and every abandon/restart history on one buffer that the iterator's output is exactly the declarative stream (head; per span chronological ticks then a repeat; legacy last tick; tail), with chronological order, tick placement facts and the size_hint lower bound; the real iterator is driven through the same histories and compared event by event, and call-by-call recordings on random lattice parameters must be explained by the composed iterator actions.",
    note="Trusted: TLC, the unit conversion in harness/src/events.rs. Parameters on a dyadic 1/8 lattice with integer velocities so that float and rational arithmetic take the same branches; off the lattice the declarative stream is re-evaluated in f64 and a tick within 1e-9 x length of the cut-off may be present or absent; velocity > 0.")
CLAIMS["C16"] = dict(
    category="model_checking", design_ref="DESIGN.md section 4, C16",
    technique="TLA+ spec CurveLength (calculate_path for vertex-exact segments + calculate_length branch by branch) with the length contract as invariants, checked by TLC over all lattice polylines up to a bound; every case replayed through Curve::new / BorrowedCurve::new / SliderPath::curve in four modes; the contract's clauses evaluated on the real natural polylines of seeded random control-point lists with Bezier / b-spline / perfect-curve / Catmull segments",
    text="On the sub-domain where the model is exact (Linear and two-point Bezier segments with integer segment lengths) TLC checks for every polyline, typing and requested length that the total distance is exactly L except for the two documented exceptions, that the adjusted curve is the natural one cut or extended along its last segment, and that cumulative lengths start at 0 and never decrease; the real code is compared with the predicted path and lengths on every case.",
    note="The MODEL is exact on straight segments only; for curved segments the natural polyline is taken from the code and the contract clauses (start at 0, finite, monotone within 1e-5, exact distance with its two exceptions, prefix-plus-end-point geometry, own polyline length, osu! Catmull simplification keeps the length within 1e-5 relative) are evaluated on it for random inputs - not exhaustive. Coordinates compared within 1e-3 + 1e-6|c|.")
CLAIMS["C19"] = dict(
    category="model_checking", design_ref="DESIGN.md section 4, C19",
    technique="TLA+ operator CurveLength!PosSeg (clamp, distance, segment index, interpolation weight) with clamping/end-point invariants checked by TLC on every lattice curve; replay through position_at, progress_to_dist, idx_of_dist, interpolate_vertices and the BorrowedCurve twins, plus vertex-fraction and arc-length relations on the real values; the statement's relations and PosSeg's index rule evaluated on real many-point curves (seeded random control-point lists with every segment type)",
    text="For every curve of the C16 enumeration TLC computes, for 13 progress values including negatives and values above 1, the clamped distance and the segment and weight of the position and checks clamping and end-point facts; the real accessors are compared with them in four modes, and the real values are additionally checked for 'vertex at its cumulative length' and 'never moves farther than the arc length'.",
    note="Sub-domain of C16; NaN / subnormal progress and off-lattice curves are not covered.")
CLAIMS["C18"] = dict(
    category="model_checking", design_ref="DESIGN.md section 4, C18",
    technique="TLA+ spec CurveCache (shared buffers, SliderPath cache, eight operations) with invariants Pure and CacheCoherent checked by TLC on all operation sequences up to a bound; every sequence executed on the real API with each result compared bit-for-bit with a fresh computation; Neg configs for the two deviations; operation CloneFrom; the abstract pool replayed under three concretisations (every segment type, fallbacks, early returns)",
    text="TLC enumerates every sequence of owned / borrowed / cached computations and mutations over a pool of control-point lists (including empty and single-point) sharing one buffer set and one SliderPath and checks that each computing call returns the curve of its own input and that the cache always belongs to the current inputs; the real API is driven through every sequence and must equal a fresh computation at every step.",
    note="Trusted: TLC; F(input) is realised as Curve::new on fresh buffers. The pool has 6 lists x 3 length choices; bounds 3-6 operations.")

CLAIMS["C08"] = dict(
    category="model_checking", design_ref="DESIGN.md section 4, C08",
    technique="TLA+ spec Reader (BufRead as environment: chunk schedule, Interrupted; decoder: BOM sniffing + line splitting as actions) with invariant ScheduleIndependent checked by TLC on every short file x every schedule; replay through a scheduled BufRead and a recording DecodeBeatmap implementor; the same relation evaluated on bundled/random files under many delivery schedules",
    text="TLC proves on the model that for every short byte string and every way a BufRead may cut it into chunks (down to single bytes, a first chunk shorter than a BOM) and interleave Interrupted results, the decoder yields the same encoding and lines (files: every BOM-ish prefix, with and without an empty first line, x header x payload; BOM-region byte strings; UTF-16 code-unit strings whose 0A/00 bytes meet across units); the real decoder is replayed on each file under the model's witness schedule and seeded others and must equal its own single-chunk result, and on bundled and random files in four encodings all of: fixed chunk sizes, random schedules with interruptions, BufReader capacities 1..16, from_str and from_path must equal from_bytes.",
    note="Trusted: TLC, harness ScheduledReader (BufRead contract), Beatmap's PartialEq plus expected_dist comparison.")
CLAIMS["C09"] = dict(
    category="fault_enumeration", design_ref="DESIGN.md section 4, C09",
    technique="TLA+ spec Reader with a fault environment (failure at any offset x kind, Interrupted budget): invariant ErrorProvenance and liveness FaultSurfaces/Terminates checked by TLC; replay through a faulting BufRead; systematic fault injection at every read offset and every write offset of real files (FaultWriter: error kinds, zero-length writes, short writes, Interrupted, flush failure); Writer.tla (the Write object as environment of write_all/flush) with every script of per-call answers (incl. a transient Interrupted from flush) replayed into Beatmap::encode; schedules with interruptions compared with the same chunks without them; Apalache inductive-invariant check of the writer-side invariants for every total length / acceptance / interruption count (spec/apalache/WriterInd.tla, with a negative control); the model's fault kind concretised as ten different io::ErrorKinds",
    text="On the model TLC enumerates every fault offset and kind under every schedule and checks that decoding ends with exactly that error iff the fault is reached, that Interrupted never surfaces and that no error appears without a reader failure; the real code is replayed on those behaviours, and on bundled/random files a fault is injected at every byte offset (sampled for large files) x five kinds on read and at every output offset on write (hard error, zero-length write), with short writes and Interrupted writes required to be transparent and a flush failure required to be returned.",
    note="Fault enumeration is exhaustive on the model's short files and on small real files; large files use sampled offsets. The write side is bound by injection only (no TLA+ model of std's write_all).")
CLAIMS["C10"] = dict(
    category="model_checking", design_ref="DESIGN.md section 4, C10",
    technique="TLA+ spec Reader: the operational line reader refined to a declarative rule that splits UTF-16 on the code unit U+000A only, checked by TLC over payloads containing 0x0A-bearing units, surrogate halves and invalid UTF-8; replay comparing delivered text with std's lossy conversion of the model's raw lines; cross-encoding equality and lossy-reference relations on real texts; exhaustive Unicode scalar sweep in the thorough tier; units file set: payloads of whole UTF-16 code units whose 0x00 / 0x0A bytes meet inside and across unit boundaries; line sweep against std's lossy conversions (prefix lengths, invalid UTF-8 patterns, surrogate sequences, 64 KiB lines, unterminated last lines)",
    text="TLC checks that the byte-level reader and the text-level rule agree for every payload up to the bound in UTF-8, UTF-16LE and UTF-16BE (including an LE stream cut inside its final newline); the real reader must deliver, for each such file, exactly std's lossy text of the model's lines; bundled and random texts with hostile characters (U+4E0A, U+0A41, U+0A0A, U+FEFF, astral) must decode identically in all four encodings, invalid UTF-8 and unpaired surrogates must equal the per-line lossy reference, and the thorough tier sweeps every Unicode scalar value as metadata content in the three BOM encodings.",
    note="Trusted: TLC, std's lossy conversions as the reference. An odd trailing byte of a UTF-16 stream is dropped (not determined by the statement; the model follows the code).")

CLAIMS["C11"] = dict(
    category="model_checking", design_ref="DESIGN.md section 4, C11",
    technique="TLA+ spec Records: table-driven format rules (type per key, conversion per type, defaults, event and colour rules) with invariants LastWins, ARRule, Ranges and the action property RejectStutters checked by TLC on all record sequences up to a bound; every sequence replayed through the section's own decoder and Beatmap with field-by-field and per-line verdict comparison; trace validation of long random record sequences per section (Trace_Records); seed-generated randomised alphabets for the key/value sections (RandRecords.tla); the two number limits carried in both readings (ParseF/ParseFW, ConvBm/ConvBmW), the code's named as known findings",
    text="The rules of the statement are written as TLA+ tables independent of the Rust call graph; TLC enumerates every sequence of up to 2-3 records over every recognised key x value class (valid, boundary, overflow, NaN/inf, empty, padded, comment-suffixed, extra colon, enum names) plus unknown keys, duplicates, all event kinds and colour shapes, and checks last-valid-wins, the AR-follows-OD rule, clamps, break ordering and that a rejected record is a stutter; the real decoders must produce exactly the predicted struct and verdicts.",
    note="Trusted: TLC, the spelling table and projections in harness/src/records.rs. Floats on a 1/100 lattice; +-2^31 in a single-precision field is a sentinel in the model (hundredths of it do not fit TLC's integers).")

CLAIMS["C02"] = dict(
    category="model_checking", design_ref="DESIGN.md section 4, C02 and section 7",
    technique="TLA+ codec compositions PathCodec (path decoder o encoder o decoder), SampleCodec (hit samples) and TimingEncode (encode_timing_points composed with the TimingLines decoder) model-checked by TLC; the real encoder's path tokens and [TimingPoints] lines compared with the models' predictions and the second decode with the predicted result; whole bundled/generated maps round-tripped on the statement's field list; SampleCodec bound by replay (hit-sound byte and bank info the encoder writes, re-decoded names and banks); HitObjectLine!LineCodec (whole-line encoder model) with the encoder's text compared field by field, also on the randomised alphabet",
    text="TLC checks that every decodable path token string, every bank-info x sound x sample-point combination and every chronological timing-line sequence in four modes survives decode -> encode -> decode (paths: outside five listed shapes the legacy text cannot carry); the real encoder must write exactly the predicted tokens/lines and the second decode must give the predicted result; bundled maps and maps from a structured generator (all sections, modes, versions, object kinds, multi-segment paths, same-time groups) are compared field by field per the statement, twice.",
    note="Number formatting (shortest round-trip Display) is assumed from the Rust standard library. Known findings (recorded, not repaired): four control-point shapes and sub-EPSILON times, see known_findings.json. Section writers other than paths/samples/timing are bound by the whole-map comparison only.")
CLAIMS["C04"] = dict(
    category="model_checking", design_ref="DESIGN.md section 4, C04",
    technique="TLA+ invariants PathCodec!Accepted and TimingEncode!EncAccepted (every encoded path / timing line is accepted by the decoder model) checked by TLC; the real encoder's output compared token by token with the models; the encoded text of bundled, generated, hostile and non-chronological maps validated line by line against the public section parsers (the encoded text is the trace); Encoder.tla (state machine over emitted lines) with the encoded text of every corpus map validated as its trace (Trace_Encoder)",
    text="TLC shows on the models that the encoder never writes a slider path or timing line its decoder rejects; the real encoder's path text must equal the model's tokens for every decodable path string, and for every map of the corpus the encoded text must start with a version line, contain each header once in canonical order, have every record line accepted by its section's parse function, and re-decode to the same number of objects, timing points, breaks and colours.",
    note="Trusted: TLC, harness/src/roundtrip.rs::c04_problems (line classification). Key/value section writers are bound by the line-by-line validation only (no TLA+ model of their text).")

CLAIMS["C03"] = dict(
    category="model_checking", design_ref="DESIGN.md section 4, C03",
    technique="TLA+ spec StrCodec (per text field: encoder line, reader trim, comment stripping, first-colon split, comma split, clean_filename as sequence operators over an 8-symbol alphabet) with invariant Survives checked by TLC on all strings up to a bound; every string replayed as an edit through the real encode -> decode with the spec's predicted read-back value; numeric / flag / list edits checked as a relation",
    text="TLC checks for every string up to the bound (colons, `//`, commas, quotes, backslashes, spaces, non-ASCII) and every kind of text field that a representable value comes back unchanged, and predicts the exact read-back of every other value; the real pair encode/decode must return the predicted string for each (metadata texts, audio file name, background file, custom colour name) with all other preserved fields unchanged; about 100 single- and multi-field numeric, flag, enum, bookmark, colour and break edits per generated base map must survive as well.",
    note="Representable sets per field are an interpretation written down in StrCodec!Representable. Derived values (slider velocities after a slider-multiplier edit, combo flags after a break edit) are excluded from the frame condition.")

CLAIMS["C15"] = dict(
    category="model_checking", design_ref="DESIGN.md section 4, C15",
    technique="TLA+ spec MapPost (TimingLines decoder composed with stable sort, break sweep, slider velocity/duration and sample-point defaults at end+5 ms / node+5 ms) with invariants SortedStable, ComboAfterBreak, ClosedForms and ShiftInvariant checked by TLC over all small maps; replay through HitObjects and Beatmap (a sample also shifted); SectionFlow.tla (sections in any order and repeated) replayed for the objects; text-level shift relation on bundled and generated files; SortedStable evaluated on generated files with 25-95 objects, few distinct times (incl. signed zero), shuffled order; seed-generated sample values (RandPost.tla); a relation placing sample points around node + 5 ms at fractional node times",
    text="TLC enumerates every map of up to two objects (four kinds, equal and boundary start times, flags, sample shapes) x seven timing sections (velocity multipliers inside and beyond their clamp) x five break lists x multipliers x modes, and in a second `wide` profile every map of exactly three objects (incl. three-span sliders, hit-sound additions, file samples, custom indices 1/2/4) in all four modes, and checks that objects come out in stable time order, that the first object after a break starts a combo, the closed forms of velocity and duration, and that processing commutes with shifting all times by +-1, -7 and +-10^6 ms; the real decoders are compared with the predicted objects (combo flags, velocity, duration, and for every sample of the object and of each slider node: name, bank, bank-specified, volume, custom index, suffix, layering) on every case, and on real files with whole-millisecond times a text-level shift by seven different offsets must change nothing but the times.",
    note="Exactness rule: dyadic velocities and durations so that the `+5 ms` lookups are decided exactly; breaks in chronological file order; at most 3 objects per enumerated map.")

CLAIMS["C01"] = dict(
    category="exploration", design_ref="DESIGN.md section 4, C01",
    technique="model-generated and seeded exploration: Reader/Framing TLA+ models re-checked for termination and error provenance; hostile line classes from HitObjectLine.tla replayed under catch_unwind; random noise, hostile grammar, mutations, splices, truncations and encodings through all nine decoders, re-encode and re-decode, with a watchdog, for both feature sets",
    text="The statement quantifies over all byte strings, which no bounded model can exhaust: the models contribute exhaustive termination / error-provenance checking of the driver on short inputs and systematic generation of every guard of the hit-object grammar; the rest is seeded exploration (tens of thousands of inputs per quick run, hundreds of thousands per thorough run) with the oracle 'all nine decoders return Ok, re-encoding returns valid UTF-8, the second decode returns Ok, no panic, no hang', run with default features and with the tracing feature and a formatting subscriber.",
    note="Exploration, not proof. Memory safety of the unsafe blocks is not observable by this family of technique and is not claimed.")

NOT_YET = "check not built yet in this round (planned, see DESIGN.md section 4)"
NA = {
    "C17": "real-valued geometry (Hausdorff distance to Bezier/arc/Catmull curves): no discrete state or history for a TLA+ specification to decide; see DESIGN.md section 4, C17",
}


def main():
    checks = []
    for pid in ALL:
        if pid not in CLAIMS:
            continue
        c = CLAIMS[pid]
        checks.append(dict(
            property_id=pid,
            quick_cmd="bin/check %s quick" % pid,
            thorough_cmd="bin/check %s thorough" % pid,
            evidence_file="evidence/%s.json" % pid,
            replay_cmd_template="cat {path}",
            engine="tla-conformance",
            level_claimed=dict(category=c["category"], text=c["text"], design_ref=c["design_ref"]),
            level_note=c["note"],
            technique=c["technique"],
        ))
    na = []
    for pid in ALL:
        if pid in CLAIMS:
            continue
        na.append(dict(property_id=pid, reason=NA.get(pid, NOT_YET)))
    man = dict(
        version=1,
        setup_cmd="bin/setup",
        hooks=dict(guard="rosu_map_verif",
                   enable="harness/.cargo/config.toml passes --cfg rosu_map_verif to every crate it builds (including the /repo path dependency); no hook is currently needed or present",
                   baseline_off_cmd="cd /repo && cargo test --workspace --no-fail-fast --offline",
                   source_commits=[], add_only=True),
        engines=[dict(name="tla-conformance", path="bin/check",
                      serves_properties=sorted(CLAIMS),
                      kind_free_text="explicit TLA+ specifications (spec/*.tla) model-checked with TLC; bound to the implementation by replaying TLC-generated behaviours into rosu-map (harness/) and validating traces recorded from rosu-map against the spec")],
        checks=checks,
        notes="All verdicts are taken at the public API of rosu-map; see DESIGN.md.",
        not_applicable=na,
    )
    with open(os.path.join(ROOT, "MANIFEST.json"), "w") as f:
        json.dump(man, f, indent=1)
        f.write("\n")


if __name__ == "__main__":
    main()
