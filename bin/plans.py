"""Per-property check plans.  Each check_<id>(ctx) runs TLC on the spec modules,
replays TLC-generated behaviours into rosu-map, validates traces recorded from
rosu-map against the spec, and writes evidence."""
import json
import os

from vlib import (SPEC, ToolError, apalache, build_harness, finish, harness, report_mismatches, sany, tlc,
                  tlc_trace)

ALLKINDS = '{"tim", "dif", "eff", "smp"}'


def trace_step(ctx, module, cfgname, cfg, summ_args, what, name):
    """record with the harness, validate with TLC; a rejection is a violation."""
    trace = os.path.join(ctx.work, "%s.ndjson" % name)
    summ = harness(ctx, summ_args + ["--trace", trace], name=name)
    report_mismatches(ctx, summ, what + " (while recording)")
    res = tlc_trace(ctx, module, cfgname, cfg, trace)
    if not res["accepted"]:
        keep = os.path.join(os.path.dirname(ctx.work), "..", "replays", "%s-%s-trace.ndjson" % (ctx.pid, name))
        keep = os.path.abspath(keep)
        os.replace(trace, keep)
        tail = ""
        with open(res["out"], errors="replace") as f:
            for ln in f:
                if "TRACE-REJECTED" in ln:
                    tail = ln.strip()[:1500]
        ctx.violations.append(dict(sig="trace-rejected:" + name, what=what,
                                   detail=dict(trace=keep, first_unmatched=tail)))
    else:
        selftest_trace(ctx, module, cfgname, cfg, trace, name)
    return res


def selftest_trace(ctx, module, cfgname, cfg, trace, name):
    """Binding self-test: corrupt one logged field of an accepted trace; TLC must reject it.
    If it does not, green runs of this trace check would mean nothing -> tool error."""
    with open(trace) as f:
        lines = [json.loads(x) for x in f if x.strip()]
    idxs = [i for i, e in enumerate(lines) if e.get("ev") != "Reset"]
    if not idxs:
        raise ToolError("empty trace %s" % trace)
    def bump(v):
        # corrupt the last scalar leaf
        if isinstance(v, dict):
            for k in reversed(sorted(v)):
                if k == "ev":
                    continue
                ok, nv = bump(v[k])
                if ok:
                    v[k] = nv
                    return True, v
            return False, v
        if isinstance(v, list):
            for j in range(len(v) - 1, -1, -1):
                ok, nv = bump(v[j])
                if ok:
                    v[j] = nv
                    return True, v
            return False, v
        if isinstance(v, bool):
            return True, (not v)
        if isinstance(v, int):
            return True, v + 1
        return False, v

    def corrupt(e):
        if isinstance(e.get("ok"), bool):
            e["ok"] = not e["ok"]                        # the verdict always matters
            return True
        if e.get("ev") == "Look" and isinstance(e.get("i"), int):
            e["i"] += 1                                  # the RESULT of a lookup
            return True
        return bump(e)[0]

    # A corruption may turn the trace into another VALID trace (e.g. the time of an add that is dropped as a repeat
    # anyway, a parameter of an iterator that is abandoned at once).  Up to six different events are tried, spread
    # over the trace; the binding is void only if NO corruption is ever rejected.
    mid = len(idxs) // 2
    order = idxs[mid:] + idxs[:mid]
    step = max(1, len(order) // 6)
    tried = []
    for start in range(0, len(order), step):
        cand = next((i for i in order[start:] if corrupt(json.loads(json.dumps(lines[i])))), None)
        if cand is None or cand in tried:
            continue
        tried.append(cand)
        mutated = [json.loads(json.dumps(e)) for e in lines]
        corrupt(mutated[cand])
        bad = trace + ".corrupt"
        with open(bad, "w") as f:
            for e in mutated:
                f.write(json.dumps(e, separators=(",", ":")) + "\n")
        st0, tr0 = ctx.states, ctx.transitions
        res = tlc_trace(ctx, module, cfgname + "_selftest", cfg, bad, tag="selftest")
        ctx.states, ctx.transitions = st0, tr0
        if not res["accepted"]:
            ctx.runs.append(dict(step="selftest", trace=name, corrupted_event=cand, rejected=True, attempts=len(tried)))
            return
        if len(tried) >= 6:
            break
    if not tried:
        raise ToolError("selftest: nothing to corrupt in %s" % trace)
    raise ToolError("binding self-test failed: %d corrupted versions of %s (events %s) were all ACCEPTED" % (len(tried), trace, tried))


# ----------------------------------------------------------------------------
def rand_cp_module(ctx, salt=0):
    """Seed-drawn VALUES for ControlPoints.tla (times stay {-1, 0, 1, 2}): per kind the default-equal value, a random one
    and a special one (a non-finite velocity / scroll speed = negative abstract value, bank None, a volume beyond 100)."""
    import random
    rnd = random.Random(ctx.seed * 9176 + 3 + salt * 15485867)
    text = ("------------------------------- MODULE RandCP -------------------------------\n"
            "(* generated by bin/plans.py (rand_cp_module) from VERIF_SEED = %d - do not edit. *)\n"
            "EXTENDS ControlPoints\n\n"
            "RandPointsOf(k) ==\n"
            "    CASE k = \"tim\" -> {[t |-> t, bl |-> v[1], omit |-> v[2], sig |-> v[3]] : t \\in Times, v \\in {<<500, FALSE, 4>>, <<%d, %s, %d>>}}\n"
            "      [] k = \"dif\" -> {[t |-> t, sv |-> v[1], ticks |-> v[2]] : t \\in Times, v \\in {<<1000, TRUE>>, <<%d, %s>>, <<%d, TRUE>>}}\n"
            "      [] k = \"eff\" -> {[t |-> t, kiai |-> v[1], scroll |-> v[2]] : t \\in Times, v \\in {<<FALSE, 1000>>, <<%s, %d>>, <<FALSE, %d>>}}\n"
            "      [] k = \"smp\" -> {[t |-> t, bank |-> v[1], vol |-> v[2], custom |-> v[3]] : t \\in Times, v \\in {<<1, 100, 0>>, <<%d, %d, %d>>, <<%d, %d, 0>>}}\n"
            "=============================================================================\n") % (
                ctx.seed, rnd.choice([250, 6, 60000, rnd.randint(1, 99999)]), rnd.choice(["FALSE", "TRUE"]), rnd.choice([4, 3, 7]),
                rnd.choice([2000, 500, 50, 20000, rnd.randint(1, 30000)]), rnd.choice(["TRUE", "FALSE"]), rnd.choice([-1, -2]),
                rnd.choice(["TRUE", "FALSE"]), rnd.choice([250, 5, 20000, 1000, rnd.randint(1, 30000)]), rnd.choice([-1, -2]),
                rnd.choice([1, 2, 3]), rnd.choice([50, 0, 100, rnd.randint(0, 100)]), rnd.choice([2, 1, 0, rnd.randint(1, 500)]),
                rnd.choice([0, 1]), rnd.choice([150, -20, 100, rnd.randint(-100, 300)]))
    path = os.path.join(SPEC, "RandCP.tla")
    old = open(path).read() if os.path.exists(path) else None
    if old != text:
        with open(path, "w") as fh:
            fh.write(text)
    sany(ctx, "RandCP")


def check_C13(ctx):
    thorough = ctx.tier == "thorough"
    for m in ("ControlPointOps", "ControlPoints", "Trace_ControlPoints"):
        sany(ctx, m)
    base = dict(spec="Spec", invariants=["Sorted", "LookupSound"], properties=["AddProps"])
    times = "<-TimesC13"
    # (1) complete reachable graph per kind, one replay test per transition
    cases = []
    for k in ("tim", "dif", "eff", "smp"):
        cfg = dict(base, constants=dict(Times=times, KindSet='{"%s"}' % k, MaxOps="0", Emit="TRUE"))
        r = tlc(ctx, "ControlPoints", "MC_ControlPoints_%s" % k, cfg, workers=1, coverage=False)
        cases += r["lines"]
    # (2) all combined add sequences up to a bound
    depth = 4 if thorough else 3
    cfg = dict(base, constants=dict(Times=times, KindSet=ALLKINDS, MaxOps=str(depth), Emit="TRUE"))
    r = tlc(ctx, "ControlPoints", "MC_ControlPoints_all%d" % depth, cfg, workers=1)
    cases += r["lines"]
    # (2b) the same graphs over seed-drawn VALUES (incl. non-finite velocities, bank None, volumes beyond 100)
    for salt in ([2, 1, 0] if thorough else [0]):
        rand_cp_module(ctx, salt)
        for k in ("tim", "dif", "eff", "smp"):
            cfg = dict(base, constants=dict(Times=times, KindSet='{"%s"}' % k, MaxOps="0", Emit="TRUE", PointsOf="<-RandPointsOf"))
            r = tlc(ctx, "RandCP", "MC_RandCP_%s" % k, cfg, workers=1, coverage=False)
            cases += r["lines"]
    # (3) negative control: "no adjacent repeat" as a state invariant must be violated
    cfg = dict(spec="Spec", invariants=["NegNoAdjacentRepeat"],
               constants=dict(Times=times, KindSet='{"dif"}', MaxOps="0", Emit="FALSE"))
    tlc(ctx, "ControlPoints", "Neg_ControlPoints_repeat", cfg, workers=1, expect_violation=True, count=False)
    # (4) spec -> impl: one test per transition
    summ = harness(ctx, ["cp", "replay"], stdin_lines=cases, name="cp-replay")
    report_mismatches(ctx, summ, "ControlPoints::add / *_point_at differ from the specification")
    # (5) impl -> spec: recorded random histories
    runs, ops = (400, 120) if thorough else (60, 80)
    trace_step(ctx, "Trace_ControlPoints", "Trace_ControlPoints",
               dict(spec="TrSpec", invariants=["Sorted"], postcondition="Accepted"),
               ["cp", "record", "--runs", str(runs), "--ops", str(ops)],
               "recorded ControlPoints history is not a behaviour of the specification", "cp-trace")
    # (5b) the two zeros are one time (fixed histories per kind)
    summ = harness(ctx, ["cp", "negzero"], name="cp-negzero")
    report_mismatches(ctx, summ, "a point at -0.0 and a point at 0.0 are not treated as points at one time")
    # (6) beyond the finite time alphabet: strict sortedness is an inductive invariant of insertion for ARBITRARY integer
    #     times (Apalache, lists of up to 5 entries): base case and inductive step
    apalache(ctx, "ControlPointsInd", ["--cinit=ConstInit", "--init=IndInit", "--inv=IndInv", "--length=0"])
    apalache(ctx, "ControlPointsInd", ["--cinit=ConstInit", "--init=IndInit", "--inv=IndInv", "--length=1"])
    ctx.assumptions += ["times passed to the API are finite; -0.0 only in the fixed histories of `cp negzero`",
                        "slider velocity / scroll speed values are multiples of 1/1000"]
    return finish(ctx, "model_checking",
                  "TLC enumerates the complete reachable graph of add operations per kind over times {-1,0,1,2} x 2 values "
                  "and all combined sequences up to the depth bound; every generated transition is replayed through the real "
                  "ControlPoints::add followed by the four lookups at every probe time; non-trivial = distinct (pre-state, op) "
                  "pairs whose add changes the state or is dropped as redundant; random recorded histories are validated by "
                  "Trace_ControlPoints")


# ----------------------------------------------------------------------------
FRAMING_INV = ["Refines", "Insensitive", "Shape", "C07Projection", "EmitCase"]


def rand_framing_module(ctx, salt=0):
    """Randomised alphabet for Framing.tla: three format versions drawn from the whole accepted range (negative, one digit,
    thousands, up to 2^31-1) and four of the eleven headers; the plain kinds stay.  The model is the oracle."""
    import random
    rnd = random.Random(ctx.seed * 15485863 + 101 + salt * 32452843)
    vers = set()
    while len(vers) < 3:
        vers.add(rnd.choice([rnd.randint(0, 20), rnd.randint(-30, -1), rnd.randint(21, 70000), rnd.randint(70001, 2147483647),
                             -rnd.randint(31, 2147483647), 2147483647, -2147483647, 127, 128, 255, 256, 65535, 65536]))
    secs = rnd.sample(["General", "Editor", "Metadata", "Difficulty", "Events", "TimingPoints", "Colours", "HitObjects",
                       "Variables", "CatchTheBeat", "Mania"], 4)
    text = ("----------------------------- MODULE RandFraming -----------------------------\n"
            "(* generated by bin/plans.py (rand_framing_module) from VERIF_SEED = %d - do not edit.  Randomised alphabet for\n"
            "   Framing: the model is the oracle. *)\n"
            "EXTENDS Framing\n\n"
            "RandKinds == PlainKinds \\cup {%s} \\cup {%s}\n"
            "=============================================================================\n") % (
                ctx.seed, ", ".join("Ver(%d)" % v for v in sorted(vers)), ", ".join('Hdr("%s")' % x for x in secs))
    path = os.path.join(SPEC, "RandFraming.tla")
    old = open(path).read() if os.path.exists(path) else None
    if old != text:
        with open(path, "w") as fh:
            fh.write(text)
    sany(ctx, "RandFraming")


def framing_cases(ctx, kinds, maxlen, emit=True, liveness=True, rand=None):
    cfg = dict(spec="Spec", invariants=FRAMING_INV, properties=["StepAgrees"] + (["Terminates"] if liveness else []),
               constants=dict(LineKinds="<-" + kinds, MaxLen=str(maxlen), Emit="TRUE" if emit else "FALSE"))
    module = "Framing"
    if rand is not None:
        rand_framing_module(ctx, rand)
        module = "RandFraming"
    r = tlc(ctx, module, "MC_%s_%s_%d%s" % (module, kinds, maxlen, "_s%d" % rand if rand else ""), cfg, workers=12, timeout=2400)
    return r["lines"]


def check_C05(ctx):
    thorough = ctx.tier == "thorough"
    for m in ("Framing", "Trace_Framing"):
        sany(ctx, m)
    # (1) exhaustive: all files up to the bound; refinement to the declarative rule,
    #     blank/comment insensitivity, termination; one CASE line per file
    cases = framing_cases(ctx, "SmallKinds", 4)
    if thorough:
        cases += framing_cases(ctx, "AllKinds", 4, liveness=False)
        cases += framing_cases(ctx, "SmallKinds", 5, liveness=False)
    else:
        cases += framing_cases(ctx, "AllKinds", 3)
    # seed-drawn versions (the whole accepted range) and headers
    for salt in ((0, 1, 2, 3) if thorough else (0,)):
        cases += framing_cases(ctx, "RandKinds", 4 if thorough else 3, liveness=False, rand=salt)
    # (2) spec -> impl: every file, several spellings, four encodings, RecordingDecoder + Beatmap vs reference driver
    summ = harness(ctx, ["framing", "replay", "--prop", "C05", "--spellings", "3" if thorough else "2"],
                   stdin_lines=cases, name="framing-replay", timeout=3600)
    report_mismatches(ctx, summ, "decode driver differs from the Framing specification")
    # (3) impl -> spec: bundled and long random files
    tcfg = dict(spec="TrSpec", invariants=["TrRefines", "Shape"], postcondition="Accepted",
                constants=dict(LineKinds="<-SmallKinds", MaxLen="0", Emit="FALSE"))
    nrand, maxlen = (300, 300) if thorough else (60, 150)
    trace_step(ctx, "Trace_Framing", "Trace_Framing", tcfg,
               ["framing", "record", "--random", str(nrand), "--maxlen", str(maxlen)],
               "recorded driver behaviour is not a behaviour of the Framing specification", "framing-trace")
    ctx.assumptions += ["line splitting and text decoding are C08/C10 matters; files here contain no UTF-16 unit with a 0x0A byte",
                        "the spelling table harness/src/framing.rs (checked: classify(spell(k)) = k)"]
    return finish(ctx, "model_checking",
                  "TLC enumerates every file (sequence of line kinds) up to the length bound and checks refinement of the "
                  "operational driver to the declarative framing rule; each file is spelled several ways, encoded in 4 encodings and "
                  "decoded by a recording DecodeBeatmap implementor and by Beatmap (compared with a reference driver over the same "
                  "public parsers); non-trivial = distinct files with at least one delivery; bundled + random long files are recorded "
                  "line by line and validated by Trace_Framing")


def check_C07(ctx):
    thorough = ctx.tier == "thorough"
    for m in ("Framing", "Records", "TimingLines"):
        sany(ctx, m)
    cases = framing_cases(ctx, "SmallKinds", 4 if thorough else 3)
    cases += framing_cases(ctx, "AllKinds", 3 if thorough else 2)
    cases += framing_cases(ctx, "RandKinds", 3, liveness=False, rand=0)      # seed-drawn versions and headers
    summ = harness(ctx, ["framing", "replay", "--prop", "C07", "--spellings", "3" if thorough else "2"],
                   stdin_lines=cases, name="framing-c07", timeout=3600)
    report_mismatches(ctx, summ, "a specialised decoder disagrees with Beatmap / with the projection the spec states")
    # record contents: the Records / TimingLines case streams, every file decoded by all nine decoders
    for sec in RECORD_SECTIONS:
        f = records_cases(ctx, sec, 2)
        summ = harness(ctx, ["records", "replay", "--prop", "C07", "--spellings", "1"], cases_file=f, name="records-c07-" + sec, timeout=3600)
        report_mismatches(ctx, summ, "a specialised decoder disagrees with Beatmap on [%s] records" % sec)
    f = timing_cases(ctx, "AlphaShape", "GensTwo", 2)
    summ = harness(ctx, ["timing", "replay", "--prop", "C07", "--spellings", "1"], cases_file=f, name="timing-c07", timeout=3600)
    report_mismatches(ctx, summ, "a specialised decoder disagrees with Beatmap on timing lines")
    # sections in any order and repeated, feeding each other (SectionFlow.tla): HitObjects / TimingPoints / Beatmap must agree
    f = flow_cases(ctx, 5 if thorough else 4)
    summ = harness(ctx, ["flow", "replay", "--prop", "C07"], cases_file=f, name="flow-c07", timeout=3600)
    report_mismatches(ctx, summ, "HitObjects / TimingPoints disagree with Beatmap on a file with interleaved sections")
    os.remove(f)
    # long behaviours of the same specification (tlc -simulate): 30 records, sections switching all the time
    f = flow_cases(ctx, 30, simulate=2000 if thorough else 300)
    summ = harness(ctx, ["flow", "replay", "--prop", "all"], cases_file=f, name="flow-sim", timeout=3600)
    summ["mismatches"] = [m for m in summ.get("mismatches", []) if str(m.get("sig", "")).startswith(("c07:", "panic", "hang", "io-error"))]
    summ["mismatch_count"] = len(summ["mismatches"])
    summ["mismatch_sigs"] = {k: v for k, v in summ.get("mismatch_sigs", {}).items() if k.startswith(("c07:", "panic", "hang", "io-error"))}
    report_mismatches(ctx, summ, "HitObjects / TimingPoints disagree with Beatmap on a long file with interleaved sections")
    os.remove(f)
    summ = harness(ctx, ["c07", "relations", "--tier", ctx.tier], name="c07-rel", timeout=3600)
    report_mismatches(ctx, summ, "a specialised decoder disagrees with Beatmap on a whole map")
    ctx.assumptions += ["shared fields as listed in harness/src/framing.rs::c07_diffs"]
    return finish(ctx, "model_checking",
                  "Framing's invariant C07Projection (each decoder applies exactly the deliveries of the sections it handles) is "
                  "checked by TLC on every file up to the bound; every file is spelled with records of all sections and decoded by all "
                  "nine decoder types: shared fields compared with Beatmap and each decoder compared with the fold of its handled "
                  "deliveries; non-trivial = distinct files with at least one delivery")


# ----------------------------------------------------------------------------
TIMING_INV = ["Refines", "Shape", "PendingClose", "NoNaNTiming"]


def timing_cases(ctx, alpha, gens, maxlines, emit=True, workers=14, simulate=None):
    """MC + emission for one alphabet; returns the cases file (first line = the alphabet)."""
    name = "%s_TimingLines_%s_%s_%d" % ("Sim" if simulate else "MC", alpha, gens, maxlines)
    cases = os.path.join(ctx.work, name + ".ndjson")
    body = cases + ".body"
    for p in (cases, body):
        if os.path.exists(p):
            os.remove(p)
    cfg = dict(spec="Spec", invariants=TIMING_INV,
               constants=dict(Alpha="<-" + alpha, Gens="<-" + gens, MaxLines=str(maxlines), MinLines=str(maxlines if simulate else 0),
                              Emit="TRUE" if emit else "FALSE"))
    r = tlc(ctx, "TimingLines", name, cfg, workers=1 if simulate else workers, timeout=3000, cases_file=body if emit else None,
            simulate=simulate, depth=maxlines + 3)
    if not emit:
        return None
    if r["alpha"] is None:
        raise ToolError("TimingLines did not print its alphabet")
    with open(cases, "w") as f:
        f.write(json.dumps({"alpha": r["alpha"]}) + "\n")
        with open(body) as b:
            for ln in b:
                f.write(ln)
    os.remove(body)
    return cases


def rand_timing_module(ctx, nlines, salt=0, module="RandTiming", base="TimingLines"):
    """Randomised alphabet for TimingLines (see rand_lines_module): times from a small pool (so that groups form), beat
    lengths of every sign and magnitude (inside the velocity / scroll clamps only values that divide 100000, the model's
    exactness rule), meters, banks, custom indices, volumes and flag bytes from wide ranges, 2..8 fields."""
    import random
    rnd = random.Random(ctx.seed * 6007 + 5 + salt * 15485863)
    pool = [0, 1] + [2 * rnd.randint(-5000, 5000) for _ in range(4)]
    exact_neg = [-25, -40, -50, -80, -100, -125, -200, -250, -400, -500, -800, -1000, -1250, -2000, -2500, -4000, -5000, -10000]
    lines = []
    for _ in range(nlines):
        unin = rnd.random() < 0.45
        if unin:
            # (a negative beat length on a timing line still sets a velocity: same exactness rule)
            bl = rnd.choice([500, 250, 400, rnd.randint(1, 70000), rnd.choice(exact_neg), -rnd.randint(1, 9), -rnd.randint(10001, 2000000), 0, 6, 60000, 60001, 5])
        else:
            bl = rnd.choice([rnd.choice(exact_neg), rnd.choice(exact_neg), -rnd.randint(1, 9), -rnd.randint(10001, 2000000), 500, rnd.randint(1, 100000)])
        f = ['!.bl = %d' % bl, '!.unin = %s' % ("TRUE" if unin else "FALSE"), '!.nf = %d' % rnd.choice([2, 3, 4, 5, 6, 7, 8, 8, 8, 8])]
        sig = rnd.choice([4, 3, 7, rnd.randint(1, 40), 0, -2])
        f.append('!.sigc = "%s"' % ("zero" if sig == 0 else "num"))
        f.append('!.sig = %d' % (4 if sig == 0 else sig))
        f.append('!.bank = %d' % rnd.choice([0, 1, 2, 3, rnd.randint(-4, 9)]))
        f.append('!.custom = %d' % rnd.choice([0, 0, 1, 2, rnd.randint(-5, 300)]))
        f.append('!.vol = %d' % rnd.choice([100, 60, 0, rnd.randint(-50, 250)]))
        f.append('!.flags = %d' % rnd.choice([0, 1, 8, 9, rnd.randint(0, 255), rnd.randint(-300, 70000)]))
        if not unin and rnd.random() < 0.08:
            f.append('!.blc = "nan"')
        lines.append("[Base(%d) EXCEPT %s]" % (rnd.choice(pool), ", ".join(f)))
    text = ("----------------------------- MODULE %s -----------------------------\n"
            "(* generated by bin/plans.py (rand_timing_module) from VERIF_SEED = %d - do not edit.  A randomised alphabet for\n"
            "   %s: the model is the oracle, the values it is asked about change with the seed. *)\n"
            "EXTENDS %s\n\nRandTAlpha == <<\n    %s >>\n"
            "=============================================================================\n") % (module, ctx.seed, base, base, ",\n    ".join(lines))
    path = os.path.join(SPEC, module + ".tla")
    old = open(path).read() if os.path.exists(path) else None
    if old != text:
        with open(path, "w") as fh:
            fh.write(text)


def timing_rand_cases(ctx, nlines, maxlines, gens="GensModes", salt=0):
    rand_timing_module(ctx, nlines, salt)
    sany(ctx, "RandTiming")
    name = "MC_RandTiming_%d_%d" % (nlines, maxlines)
    cases = os.path.join(ctx.work, name + ".ndjson")
    body = cases + ".body"
    cfg = dict(spec="Spec", invariants=TIMING_INV,
               constants=dict(Alpha="<-RandTAlpha", Gens="<-" + gens, MaxLines=str(maxlines), MinLines="0", Emit="TRUE"))
    r = tlc(ctx, "RandTiming", name, cfg, workers=14, timeout=3000, cases_file=body)
    if r["alpha"] is None:
        raise ToolError("RandTiming did not print its alphabet")
    with open(cases, "w") as f:
        f.write(json.dumps({"alpha": r["alpha"]}) + "\n")
        with open(body) as b:
            for ln in b:
                f.write(ln)
    os.remove(body)
    return cases


def check_C12(ctx):
    thorough = ctx.tier == "thorough"
    for m in ("ControlPointOps", "TimingLines", "Trace_TimingLines"):
        sany(ctx, m)
    files = []
    if thorough:
        for a in ("AlphaVel", "AlphaEff"):
            files.append(timing_cases(ctx, a, "GensModes", 3))
        files.append(timing_cases(ctx, "AlphaShape", "GensTwo", 3))
        files.append(timing_cases(ctx, "AlphaSmp", "GensTwo", 2))
        files.append(timing_cases(ctx, "AlphaAll", "GensAll", 2))
    else:
        files.append(timing_cases(ctx, "AlphaVel", "GensTwo", 3))
        files.append(timing_cases(ctx, "AlphaAll", "GensTwo", 2))
    # long behaviours of the specification itself (tlc -simulate): 40-line sequences over the whole alphabet
    # (TLC computes every successor at every step of a simulation: keep the alphabet small in the quick tier)
    if thorough:
        files.append(timing_cases(ctx, "AlphaAll", "GensModes", 40, simulate=300))
    files.append(timing_cases(ctx, "AlphaVel", "GensModes", 30, simulate=300 if thorough else 40))
    for f in files:
        summ = harness(ctx, ["timing", "replay", "--spellings", "2"], cases_file=f,
                       name="timing-replay", timeout=3600)
        report_mismatches(ctx, summ, "timing-point decoding differs from the TimingLines specification")
    # [General] records arriving between timing lines (sections repeat / any order): SectionOrder.tla
    sany(ctx, "SectionOrder")
    for a in (("AlphaShape", "AlphaVel") if thorough else ("AlphaShape",)):
        name = "MC_SectionOrder_%s" % a
        ocases = os.path.join(ctx.work, name + ".ndjson")
        body = ocases + ".body"
        cfg = dict(spec="OSpec", invariants=["OrderRefines", "OrderShape", "EmitOrderCase"],
                   constants=dict(Alpha="<-" + a, Gens="<-GensFour", MaxLines="2", MinLines="0", Emit="TRUE", MaxSwitches="2" if thorough else "1", EmitOrder="TRUE"))
        r = tlc(ctx, "SectionOrder", name, cfg, workers=14, timeout=3000, cases_file=body)
        with open(ocases, "w") as fo:
            fo.write(json.dumps({"alpha": r["alpha"]}) + "\n")
            with open(body) as b:
                for ln in b:
                    if '"gh":' in ln:
                        fo.write(ln)
        os.remove(body)
        summ = harness(ctx, ["timing", "order"], cases_file=ocases, name="timing-order", timeout=3600)
        report_mismatches(ctx, summ, "timing lines decoded with [General] values other than those in effect when the line is read")
    # the invariant Shape (strictly increasing, clamps) on real output far outside the model's time alphabet
    # randomised alphabet (values drawn with the seed from wide ranges; the model is the oracle): all sequences of two lines
    for salt in ([4, 3, 2, 1, 0] if thorough else [0]):
        f = timing_rand_cases(ctx, 60, 2, salt=salt)
        summ = harness(ctx, ["timing", "replay", "--spellings", "2"], cases_file=f, name="timing-rand", timeout=3600)
        report_mismatches(ctx, summ, "timing-point decoding differs from the TimingLines specification (randomised alphabet %d)" % salt)
        os.remove(f)
    # ... and the whole data flow between sections (SectionFlow.tla), with the negative control that the FINAL [General]
    # values are not what a timing line sees
    flow_cases(ctx, 3, expect_violation=True)
    f = flow_cases(ctx, 5 if thorough else 4)
    summ = harness(ctx, ["flow", "replay", "--prop", "C12"], cases_file=f, name="flow-c12", timeout=3600)
    report_mismatches(ctx, summ, "control points of a file with interleaved sections differ from the SectionFlow specification")
    os.remove(f)
    for salt in ([2, 1, 0] if thorough else [0]):
        f = flow_cases(ctx, 4, rand=salt)
        summ = harness(ctx, ["flow", "replay", "--prop", "all"], cases_file=f, name="flow-rand", timeout=3600)
        summ["mismatches"] = [m for m in summ.get("mismatches", []) if not str(m.get("sig", "")).startswith(("c07:", "flow:objects"))]
        summ["mismatch_count"] = len(summ["mismatches"])
        summ["mismatch_sigs"] = {k: v for k, v in summ.get("mismatch_sigs", {}).items() if not k.startswith(("c07:", "flow:objects"))}
        report_mismatches(ctx, summ, "control points / [General] values of a file with interleaved sections differ from SectionFlow (randomised values %d)" % salt)
        os.remove(f)
    summ = harness(ctx, ["timing", "shape", "--runs", "3000" if thorough else "400"], name="timing-shape", timeout=3600)
    report_mismatches(ctx, summ, "a control-point list is not strictly increasing in time / violates a clamp")
    tcfg = dict(spec="TrSpec", invariants=["TrShape"], postcondition="Accepted",
                constants=dict(Alpha="<-AlphaShape", Gens="<-GensTwo", MaxLines="0", MinLines="0", Emit="FALSE"))
    runs, lines = (40, 250) if thorough else (8, 150)
    trace_step(ctx, "Trace_TimingLines", "Trace_TimingLines", tcfg,
               ["timing", "record", "--runs", str(runs), "--lines", str(lines)],
               "recorded timing-line decoding is not a behaviour of the TimingLines specification", "timing-trace")
    ctx.assumptions += ["beat lengths whose velocity 100/-bl is a multiple of 1/1000 (exactness rule, DESIGN 2.1)",
                        "times are whole milliseconds plus the single sub-EPSILON value 0+ = 1e-17; -0 is not generated",
                        "the spelling table harness/src/timing.rs"]
    return finish(ctx, "model_checking",
                  "TLC enumerates every sequence of timing lines up to the bound over factored alphabets (velocity/ticks, flags/meter, "
                  "sample fields, field presence + rejection classes) and their union, in the listed [General] settings, and checks that the "
                  "pending-group machinery refines the declarative legacy rule; every enumerated sequence is spelled twice and decoded by "
                  "the real TimingPoints decoder (and via the public state API, HitObjects and Beatmap) and the four lists compared with "
                  "the prediction; non-trivial = distinct ([General], sequence) with at least one accepted line; long random unsorted "
                  "sequences are validated line by line by Trace_TimingLines")


# ----------------------------------------------------------------------------
def hitobj_cases(ctx, alpha, n, maxlines, clear=True, bykind=True, emit=True, invariants=("RejectedHaveNoEffect", "ObjShape"),
                 expect_violation=False, simulate=None):
    name = "%s_HitObjectLine_%s%d_%d%s%s%s" % ("Sim" if simulate else "MC", alpha, n, maxlines, "" if clear else "_noclear", "" if bykind else "_flag",
                                              "_codec" if tuple(invariants) == ("LineCodec",) else "")
    cases = os.path.join(ctx.work, name + ".ndjson")
    body = cases + ".body"
    for p in (cases, body):
        if os.path.exists(p):
            os.remove(p)
    cfg = dict(spec="Spec", invariants=list(invariants),
               constants=dict(AlphaName='"%s"' % alpha, AlphaN=str(n), MaxLines=str(maxlines), MinLines=str(maxlines if simulate else 0),
                              ClearOnEntry="TRUE" if clear else "FALSE", LastByKind="TRUE" if bykind else "FALSE",
                              Emit="TRUE" if emit else "FALSE"))
    r = tlc(ctx, "HitObjectLine", name, cfg, workers=1 if simulate else 14, timeout=3000, cases_file=body if emit else None,
            expect_violation=expect_violation, count=not expect_violation, simulate=simulate, depth=maxlines + 3)
    if not emit:
        return None
    if r["alpha"] is None:
        raise ToolError("HitObjectLine did not print its alphabet")
    with open(cases, "w") as f:
        f.write(json.dumps({"alpha": r["alpha"]}) + "\n")
        with open(body) as b:
            for ln in b:
                f.write(ln)
    os.remove(body)
    return cases


def rand_lines_module(ctx, nlines, salt=0):
    """Randomised alphabet: abstract hit-object lines whose VALUES are drawn from wide ranges with the run's seed (type
    fields beyond a byte and negative, any hit-sound integer, custom indices / volumes / banks far outside the usual
    ones, coordinates up to the limit ...).  The TLA+ model stays the oracle; which values it is asked about changes
    with VERIF_SEED.  Written as spec/RandLines.tla (EXTENDS HitObjectLine; the cfg overrides Alpha with RandAlpha)."""
    import random
    rnd = random.Random(ctx.seed * 7919 + 17 + salt * 104729)

    def bi():
        n = rnd.choice([0, 2, 2, 3, 4, 5, 5])
        return 'Bi(%d, %d, %d, %d, %d, "%s")' % (n, rnd.choice([0, 1, 2, 3, rnd.randint(-3, 9)]), rnd.choice([0, 1, 2, 3, rnd.randint(-3, 9)]),
                                              rnd.choice([0, 1, 2, rnd.randint(-6, 6), 2147483647, -2147483647]),
                                              rnd.choice([0, 40, 100, rnd.randint(-50, 250)]), rnd.choice(["", "", "f.wav"]))

    def high():
        return rnd.choice([0, 0, 0, 256, 65536, 256 * rnd.randint(1, 4000000), -2147483648])

    lines = []
    for _ in range(nlines):
        kind = rnd.choice(["circle", "circle", "slider", "slider", "spinner", "hold"])
        low = {"circle": 1, "slider": 2, "spinner": 8, "hold": 128}[kind] | rnd.choice([0, 0, 4]) | (rnd.randint(0, 7) << 4)
        if rnd.random() < 0.15:
            low |= rnd.choice([1, 2, 8, 128, 64])         # more than one kind bit / the unused bit
        ty = low + high()
        snd = rnd.choice([rnd.randint(0, 15), rnd.randint(0, 15), rnd.randint(0, 255), 256 + rnd.randint(0, 15), -1, -rnd.randint(2, 300), 1000])
        x, y = rnd.randint(-131072, 131072), rnd.randint(-131072, 131072)
        if rnd.random() < 0.6:
            x, y = rnd.randint(0, 512), rnd.randint(0, 384)
        if low & 1 == 0 and low & 2 != 0:
            x, y = 10, 10                                  # decoded as a slider: path tokens are named points around (10, 10)
        t = rnd.choice([rnd.randint(-1000000, 1000000), 1000, 0])
        f = ['!.x = %d' % x, '!.y = %d' % y, '!.t = %d' % t, '!.ty = %d' % ty, '!.snd = %d' % snd, '!.bi = %s' % bi()]
        if kind == "circle":
            f.append('!.nf = %d' % rnd.choice([5, 6, 6, 7]))
        elif kind == "slider":
            path = rnd.choice(['<<"L", "A">>', '<<"B", "A", "Cn">>', '<<"P", "A", "Cn">>', '<<"B", "A", "B", "Cn">>', '<<"C", "A", "A", "Cn">>', '<<"B0", "A">>'])
            rep = rnd.choice([1, 1, 2, 3, rnd.randint(-3, 12), 0])
            nn = max(0, rep - 1) + 2
            nsnd = [rnd.choice([0, 2, 4, 8, rnd.randint(0, 300), -1]) for _ in range(rnd.choice([0, nn, nn, rnd.randint(0, nn + 1)]))]
            nbank = [bi() if rnd.random() < 0.7 else 'Bi(2, %d, %d, 0, 0, "")' % (rnd.randint(0, 3), rnd.randint(0, 3)) for _ in range(rnd.choice([0, nn, nn, rnd.randint(0, nn + 1)]))]
            f += ['!.path = %s' % path, '!.rep = %d' % rep, '!.len = %d' % rnd.choice([100, 35, 0, rnd.randint(-10, 131072)]),
                  '!.nsnd = <<%s>>' % ", ".join(map(str, nsnd)), '!.nbank = <<%s>>' % ", ".join(nbank), '!.nf = %d' % rnd.choice([7, 8, 8, 9, 10, 11, 11, 12])]
        else:
            f += ['!.end = %d' % (t + rnd.choice([0, 500, rnd.randint(-500, 5000)])), '!.nf = %d' % rnd.choice([5, 6, 7, 7, 8])]
        lines.append("[BaseLine EXCEPT %s]" % ", ".join(f))
    text = ("------------------------------ MODULE RandLines ------------------------------\n"
            "(* generated by bin/plans.py (rand_lines_module) from VERIF_SEED = %d - do not edit.  A randomised alphabet for\n"
            "   HitObjectLine: the model is the oracle, the values it is asked about change with the seed. *)\n"
            "EXTENDS HitObjectLine\n\nRandAlpha == <<\n    %s >>\n"
            "=============================================================================\n") % (ctx.seed, ",\n    ".join(lines))
    path = os.path.join(SPEC, "RandLines.tla")
    old = open(path).read() if os.path.exists(path) else None
    if old != text:
        with open(path, "w") as fh:
            fh.write(text)


def hitobj_rand_cases(ctx, nlines, maxlines, invariants=("RejectedHaveNoEffect", "ObjShape", "LineCodec"), salt=0):
    rand_lines_module(ctx, nlines, salt)
    sany(ctx, "RandLines")
    name = "MC_RandLines_%d_%d" % (nlines, maxlines)
    cases = os.path.join(ctx.work, name + ".ndjson")
    body = cases + ".body"
    cfg = dict(spec="Spec", invariants=list(invariants),
               constants=dict(AlphaName='"combo"', AlphaN="0", MaxLines=str(maxlines), MinLines="0", ClearOnEntry="TRUE", LastByKind="TRUE",
                              Emit="TRUE", Alpha="<-RandAlpha"))
    r = tlc(ctx, "RandLines", name, cfg, workers=14, timeout=3000, cases_file=body)
    if r["alpha"] is None:
        raise ToolError("RandLines did not print its alphabet")
    with open(cases, "w") as f:
        f.write(json.dumps({"alpha": r["alpha"]}) + "\n")
        with open(body) as b:
            for ln in b:
                f.write(ln)
    os.remove(body)
    return cases


def check_C14(ctx):
    thorough = ctx.tier == "thorough"
    for m in ("PathString", "Samples", "HitObjectLine", "Trace_HitObjectLine"):
        sany(ctx, m)
    plan = [("typesquick", 0, 1), ("combo", 0, 3), ("num", 0, 2), ("bank", 0, 1), ("nodes", 0, 1), ("nodes2", 0, 2),
            ("pathx", 3, 1), ("path", 4, 1), ("pseg", 0, 1), ("pbig", 0, 1), ("pdeep", 7, 1)]
    if thorough:
        plan = [("typesfull", 0, 1), ("typesquick", 0, 1), ("combo", 0, 4), ("num", 0, 2), ("bank", 0, 2), ("nodes", 0, 2), ("nodes2", 0, 3),
                ("pathx", 4, 1), ("path", 5, 1), ("pathr", 6, 1), ("pseg", 0, 2), ("pbig", 0, 2), ("pdeep", 8, 1)]
    # (three-line histories over the 41-letter numeric alphabet - sliders with 9000 nodes among them - print 5 GB of cases and
    #  exhaust TLC's heap while serialising them; what carries over between lines is exercised by `combo` at four lines)
    for (a, n, ml) in plan:
        f = hitobj_cases(ctx, a, n, ml)
        summ = harness(ctx, ["hitobj", "replay", "--prop", "C14", "--spellings", "2"], cases_file=f, name="hitobj-" + a,
                       timeout=3600)
        report_mismatches(ctx, summ, "hit-object decoding differs from the HitObjectLine specification (alphabet %s)" % a)
    # randomised alphabet (values drawn with the seed from wide ranges; the model is the oracle): all sequences of two lines
    # (the thorough tier draws six alphabets; the last one is the every-change one, so that spec/RandLines.tla ends as committed)
    for salt in ([5, 4, 3, 2, 1, 0] if thorough else [0]):
        f = hitobj_rand_cases(ctx, 150 if salt else 120, 2, salt=salt)
        summ = harness(ctx, ["hitobj", "replay", "--prop", "C14", "--spellings", "2"], cases_file=f, name="hitobj-rand", timeout=3600)
        report_mismatches(ctx, summ, "hit-object decoding differs from the HitObjectLine specification (randomised alphabet %d)" % salt)
        os.remove(f)
    # long behaviours of the specification itself (tlc -simulate): 30-line sequences mixing all kinds
    # (not the `num` alphabet: its 9000-repeat sliders carry 9002 node sample lists per successor)
    for (a, num) in ((("combo", 600), ("nodes", 25)) if thorough else (("combo", 60),)):
        f = hitobj_cases(ctx, a, 0, 30, simulate=num)
        summ = harness(ctx, ["hitobj", "replay", "--prop", "C14", "--spellings", "1"], cases_file=f, name="hitobj-sim-" + a, timeout=3600)
        report_mismatches(ctx, summ, "hit-object decoding differs from the HitObjectLine specification (simulated long sequences, %s)" % a)
    tcfg = dict(spec="TrSpec", invariants=["TrShape"], postcondition="Accepted",
                constants=dict(AlphaName='"combo"', AlphaN="0", MaxLines="0", MinLines="0", ClearOnEntry="TRUE", LastByKind="TRUE", Emit="FALSE"))
    runs, lines = (60, 300) if thorough else (12, 150)
    trace_step(ctx, "Trace_HitObjectLine", "Trace_HitObjectLine", tcfg,
               ["hitobj", "record", "--runs", str(runs), "--lines", str(lines)],
               "recorded hit-object parsing is not a behaviour of the HitObjectLine specification", "hitobj-trace")
    ctx.assumptions += ["slider paths are spelled relative to an object at (10,10) with the four named points of PathString",
                        "the spelling table harness/src/hitobj.rs", "numeric values are integers (plus a truncated fraction class)"]
    return finish(ctx, "model_checking",
                  "TLC enumerates abstract hit-object lines (every type byte, every sound byte, combo sequences, numeric classes, bank-info "
                  "shapes, node lists, every path token string up to the bound) and checks the structural invariants of the decoded "
                  "objects; each enumerated line sequence is spelled twice and fed to the real parse_hit_objects on its public state with the "
                  "newest object compared field by field after every line; non-trivial = distinct sequences producing at least one object")


def check_C06(ctx):
    thorough = ctx.tier == "thorough"
    for m in ("PathString", "Samples", "HitObjectLine", "TimingLines"):
        sany(ctx, m)
    # the model of the code as pinned (scratch list not cleared) violates the property: keep that on record
    hitobj_cases(ctx, "residue", 4, 2, clear=False, emit=False, invariants=("RejectedHaveNoEffect",), expect_violation=True)
    plan = [("residue", 4, 2), ("combo", 0, 3), ("num", 0, 2), ("nodes", 0, 2 if thorough else 1), ("bank", 0, 2 if thorough else 1),
            ("nodes2", 0, 3 if thorough else 2)]
    if thorough:
        plan += [("path", 4, 1)]
        # three-line histories over the reduced residue alphabet: model checking only (5 M states; the replay of the two-line
        # histories and the long random relations below bind the same actions to the code)
        hitobj_cases(ctx, "residuesmall", 4, 3, emit=False, invariants=("RejectedHaveNoEffect",))
    for (a, n, ml) in plan:
        f = hitobj_cases(ctx, a, n, ml)
        summ = harness(ctx, ["hitobj", "replay", "--prop", "C06", "--spellings", "2"], cases_file=f, name="hitobj-" + a,
                       timeout=3600)
        report_mismatches(ctx, summ, "a rejected hit-object line has an effect (alphabet %s)" % a)
    # timing section: Reject is a stutter in TimingLines; the replay compares the lists
    f = timing_cases(ctx, "AlphaShape", "GensTwo", 3 if thorough else 2)
    summ = harness(ctx, ["timing", "replay", "--prop", "C06", "--spellings", "2"], cases_file=f, name="timing-replay", timeout=3600)
    report_mismatches(ctx, summ, "a rejected timing line has an effect")
    # long random sequences with frequent rejections: with == without the rejected lines
    summ = harness(ctx, ["hitobj", "c06rel", "--runs", "200" if thorough else "40", "--lines", "150"], name="hitobj-c06rel", timeout=3600)
    report_mismatches(ctx, summ, "a rejected hit-object line has an effect (long random sequences)")
    summ = harness(ctx, ["timing", "c06rel", "--runs", "400" if thorough else "80", "--lines", "60"], name="timing-c06rel", timeout=3600)
    report_mismatches(ctx, summ, "a rejected timing line has an effect (long random sequences)")
    # key/value, event and colour records: every two-record sequence of Records.tla, decode(file) == decode(file minus rejected records)
    sany(ctx, "Records")
    for sec in RECORD_SECTIONS:
        f = records_cases(ctx, sec, 3 if thorough and sec != "General" else 2)
        summ = harness(ctx, ["records", "replay", "--prop", "C06", "--spellings", "1"], cases_file=f, name="records-c06-" + sec, timeout=3600)
        report_mismatches(ctx, summ, "a rejected [%s] record has an effect" % sec)
    ctx.assumptions += ["for key/value, event and colour sections the value semantics is C11's; here only the with/without-rejected relation is evaluated "
                        "on the Records.tla sequences"]
    return finish(ctx, "model_checking",
                  "HitObjectLine models the state one line can pass to the next (last object, scratch control-point list); TLC checks that "
                  "the object list is a fold of the accepted lines only, for all sequences up to the bound over alphabets of valid records and "
                  "every rejection class (including failures deep inside multi-segment paths); each sequence is replayed line by line on the "
                  "public parser state (verdict, objects, scratch list) and through decode(file) == decode(file minus rejected lines); "
                  "non-trivial = distinct sequences containing at least one rejected line")


# ----------------------------------------------------------------------------
EVENTS_INV = ["Refines", "PrefixOk", "Chrono", "TickFacts", "SizeHintSound"]


def events_run(ctx, params, iters, cases, clear=True, expect_violation=False, emit=True):
    cfg = dict(spec="Spec", invariants=EVENTS_INV if not expect_violation else ["PrefixOk"], properties=["NextFAgrees"] if not expect_violation else [],
               constants=dict(Params="<-" + params, MaxIters=str(iters), ClearOnNew="TRUE" if clear else "FALSE",
                              Emit="TRUE" if emit and not expect_violation else "FALSE"))
    return tlc(ctx, "SliderEvents", "MC_SliderEvents_%s_%d%s" % (params, iters, "" if clear else "_noclear"), cfg, workers=14,
               timeout=3000, cases_file=cases if emit and not expect_violation else None, expect_violation=expect_violation,
               count=not expect_violation)


def rand_events_module(ctx, nparams, salt=0):
    """Randomised parameter sets for SliderEvents.tla on the dyadic lattice (lengths 16 k eighths, tick distances a multiple of
    length / 16 or 0 / infinite / beyond the length, even span durations, velocities from the usual set, 1..7 spans)."""
    import random
    rnd = random.Random(ctx.seed * 3571 + 41 + salt * 67867967)
    recs = set()
    while len(recs) < nparams:
        ln = 16 * rnd.randint(1, 120)
        td = rnd.choice([0, 99999999, ln * 2, (ln // 16) * rnd.randint(1, 16), (ln // 16) * rnd.randint(1, 16), (ln // 16) * rnd.randint(1, 16)])
        recs.add("[start |-> %d, sd |-> %d, md |-> %d, td |-> %d, len |-> %d, spans |-> %d]" % (
            rnd.randint(-40000, 160000), 2 * rnd.randint(1, 1500), rnd.choice([0, 80, 160, 400, 800, 1600, 4000]), td, ln, rnd.randint(1, 7)))
    text = ("----------------------------- MODULE RandEvents -----------------------------\n"
            "(* generated by bin/plans.py (rand_events_module) from VERIF_SEED = %d - do not edit.  Randomised parameter sets\n"
            "   for SliderEvents on the dyadic lattice: the model is the oracle. *)\n"
            "EXTENDS SliderEvents\n\nRandParams == {\n    %s }\n"
            "=============================================================================\n") % (ctx.seed, ",\n    ".join(sorted(recs)))
    path = os.path.join(SPEC, "RandEvents.tla")
    old = open(path).read() if os.path.exists(path) else None
    if old != text:
        with open(path, "w") as fh:
            fh.write(text)
    sany(ctx, "RandEvents")


def check_C20(ctx):
    thorough = ctx.tier == "thorough"
    for m in ("SliderEvents", "Trace_SliderEvents"):
        sany(ctx, m)
    cases = os.path.join(ctx.work, "events.ndjson")
    events_run(ctx, "ParamsFull" if thorough else "ParamsQuick", 1, cases)
    events_run(ctx, "ParamsBig", 2, cases)
    events_run(ctx, "ParamsSmall", 2, cases)
    if thorough:
        # (ParamsSmall at three iterators is 66 M states and never finished inside its time limit)
        events_run(ctx, "ParamsTiny", 3, cases)
    # seed-generated parameter sets on the lattice (the model stays the oracle): every behaviour incl. one abandoned predecessor
    for salt in ([3, 2, 1, 0] if thorough else [0]):
        rand_events_module(ctx, 24, salt)
        cfg = dict(spec="Spec", invariants=EVENTS_INV, properties=["NextFAgrees"],
                   constants=dict(Params="<-RandParams", MaxIters="2", ClearOnNew="TRUE", Emit="TRUE"))
        tlc(ctx, "RandEvents", "MC_RandEvents", cfg, workers=14, timeout=3000, cases_file=cases)
    # negative control: without ticks.clear() a stale buffer corrupts the next stream
    events_run(ctx, "ParamsSmall", 2, None, clear=False, expect_violation=True)
    summ = harness(ctx, ["events", "replay"], cases_file=cases, name="events-replay", timeout=3600)
    report_mismatches(ctx, summ, "SliderEventsIter differs from the SliderEvents specification")
    tcfg = dict(spec="TrSpec", invariants=["TrPrefix"], postcondition="Accepted",
                constants=dict(Params="<-ParamsSmall", MaxIters="1", ClearOnNew="TRUE", Emit="FALSE"))
    runs, iters = (300, 8) if thorough else (40, 6)
    trace_step(ctx, "Trace_SliderEvents", "Trace_SliderEvents", tcfg,
               ["events", "record", "--runs", str(runs), "--iters", str(iters)],
               "recorded SliderEventsIter calls are not a behaviour of the SliderEvents specification", "events-trace")
    # the declarative stream on real-valued parameters off the lattice
    summ = harness(ctx, ["events", "relations", "--iters", "500000" if thorough else "100000"], name="events-relations", timeout=3600)
    report_mismatches(ctx, summ, "the event stream for real-valued parameters is not the declarative stream of the specification")
    ctx.assumptions += ["MODEL: parameters on the dyadic 1/8 lattice with integer velocities (exactness rule): float and rational arithmetic agree on every branch",
                        "real-valued parameters (decimal velocities, lengths, tick distances as produced by decimal slider multipliers and bpm) are "
                        "checked against the declarative stream evaluated in f64; a candidate tick within 1e-9 x length of the 10 ms cut-off may be "
                        "present or absent (float rounding at the exact boundary is not a violation)",
                        "velocity > 0 (a decoded map cannot produce another one: slider multiplier and beat length are clamped positive)"]
    return finish(ctx, "model_checking",
                  "TLC explores the iterator state machine (head / pop / refill / last tick / tail, and New on a shared buffer from any "
                  "state) over a parameter grid and checks refinement to the declarative stream, chronological order, tick placement and "
                  "the size_hint lower bound; every completed behaviour (including the abandoned iterators before it) is replayed through "
                  "the real SliderEventsIter on one buffer; non-trivial = distinct (history, parameters) with ticks/repeats or an abandoned "
                  "predecessor; random lattice parameters with random abandon points are validated call by call by Trace_SliderEvents; "
                  "SliderEvents!RefStream is also evaluated in f64 for seeded random real-valued parameters (tolerant at the exact cut-off)")


# ----------------------------------------------------------------------------
def curve_cases(ctx, steps, stepset, cases):
    cfg = dict(spec="Spec", invariants=["Contract", "CutOrExtend", "PosFacts"],
               constants=dict(MaxSteps=str(steps), StepSet='"%s"' % stepset, Emit="TRUE"))
    return tlc(ctx, "CurveLength", "MC_CurveLength_%s_%d" % (stepset, steps), cfg, workers=14, timeout=3000, cases_file=cases)


def check_curve(ctx, prop):
    thorough = ctx.tier == "thorough"
    sany(ctx, "CurveLength")
    cases = os.path.join(ctx.work, "curve.ndjson")
    if thorough:
        # (four steps over the small step set add little to three steps over the full one and cost 40 minutes of
        # single-threaded initial-state enumeration)
        curve_cases(ctx, 3, "full", cases)
    else:
        curve_cases(ctx, 2, "full", cases)
        curve_cases(ctx, 3, "small", cases)
    summ = harness(ctx, ["curve", "replay", "--prop", prop], cases_file=cases, name="curve-replay", timeout=3600)
    return summ


def check_C16(ctx):
    summ = check_curve(ctx, "C16")
    report_mismatches(ctx, summ, "computed curve differs from the CurveLength specification")
    # CurveLength!Contract / CutOrExtend evaluated on the REAL natural polyline of curved segments
    summ = harness(ctx, ["curve", "relations", "--iters", "400000" if ctx.tier == "thorough" else "30000"], name="curve-relations", timeout=3600)
    report_mismatches(ctx, summ, "the length contract fails on a curve with Bezier / perfect-curve / Catmull segments")
    ctx.exhaustive = False
    ctx.assumptions += ["the MODEL covers the lattice sub-domain: Linear and two-point Bezier segments with integer segment lengths",
                        "for Bezier (>= 3 points), b-spline, perfect-curve and Catmull segments the natural polyline is taken from the code "
                        "(Curve::new without a length) and the contract's clauses are evaluated on it for seeded random control-point lists: "
                        "the approximation quality of those polylines is not a subject of this property",
                        "coordinates compared within 1e-3 + 1e-6*|c| (f32 resolution), lengths within 1e-9 relative; the osu! Catmull "
                        "simplification is compared with the unsimplified length within 1e-5 relative"]
    return finish(ctx, "model_checking",
                  "TLC enumerates every lattice polyline up to the step bound x every typing of its points (segment splits, two-point "
                  "Bezier) x requested lengths {none, <=0, 1, each vertex length +-1, natural, natural+1/+7, 100000} and checks the length "
                  "contract (exact distance, the two exceptions, cut/extend geometry, monotone cumulative lengths); every case is replayed "
                  "through Curve::new, BorrowedCurve::new and SliderPath::curve in all four modes; the same contract clauses (start at 0, "
                  "finite, monotone, exact distance and its two exceptions, prefix-plus-end-point geometry, natural distance = own polyline "
                  "length, osu! Catmull simplification keeps the length) are then evaluated on the real curves of seeded random control-point "
                  "lists of 1..12 points with every segment type, duplicates, collinear runs and almost flat arcs x 11 requested lengths x "
                  "four modes; non-trivial = distinct cases whose adjusted path has at least two points")


def check_C19(ctx):
    summ = check_curve(ctx, "C19")
    report_mismatches(ctx, summ, "position along the curve differs from the CurveLength!PosSeg specification")
    # the statement's relations and PosSeg (first index reaching d, by linear scan) on real curves with many points
    summ = harness(ctx, ["curve", "posrel", "--iters", "600000" if ctx.tier == "thorough" else "60000"], name="curve-posrel", timeout=3600)
    report_mismatches(ctx, summ, "position along a real curve breaks the statement's relations / is not at the first index reaching the distance")
    ctx.assumptions += ["MODEL: lattice sub-domain of C16; progress values k/8 for k in -2..10 and exact vertex fractions",
                        "on real curves (seeded random control-point lists with every segment type, up to hundreds of path points, four modes, "
                        "natural / cut / extended / tiny requested lengths) the relations are evaluated within f32 resolution for progress values "
                        "-1, -0, 0, subnormals, k/16, 1 +- epsilon, 2.5, +-infinity, 24 random values and exact vertex fractions; NaN progress is not covered"]
    return finish(ctx, "model_checking",
                  "for every lattice curve of the C16 enumeration (zero-length, duplicate-vertex, truncated and extended curves, the "
                  "extra-length-entry shape) TLC computes the clamped distance, segment index and interpolation weight for 13 progress values "
                  "and checks clamping / end-point facts; the real position_at, progress_to_dist, idx_of_dist, interpolate_vertices and their "
                  "BorrowedCurve twins are compared with them in four modes, plus the vertex-at-its-length and arc-length (Lipschitz) relations "
                  "on the real values; the same relations and PosSeg's index rule (by linear scan) are evaluated on real many-point curves "
                  "with curved segments; non-trivial = distinct cases whose adjusted path has at least two points")


# ----------------------------------------------------------------------------
def check_C18(ctx):
    thorough = ctx.tier == "thorough"
    sany(ctx, "CurveCache")
    cases = os.path.join(ctx.work, "cache.ndjson")
    consts = dict(NPool="6", NLen="2", MaxOps="3", EmptyClears="TRUE", MutClears="TRUE", Emit="TRUE")
    inv = ["Pure", "CacheCoherent", "EmitCase"]
    if thorough:
        # (four operations over the full pool are > 13 M sequences since clone_from was added: the full pool at three, half of it at four)
        tlc(ctx, "CurveCache", "MC_CurveCache_6_2_3", dict(spec="Spec", invariants=inv, constants=consts), workers=14, timeout=3000,
            cases_file=cases)
        tlc(ctx, "CurveCache", "MC_CurveCache_3_2_4", dict(spec="Spec", invariants=inv, constants=dict(consts, NPool="3", MaxOps="4")),
            workers=14, timeout=3000, cases_file=cases)
        tlc(ctx, "CurveCache", "MC_CurveCache_2_1_4", dict(spec="Spec", invariants=inv, constants=dict(consts, NPool="2", NLen="1", MaxOps="4")),
            workers=14, timeout=3000, cases_file=cases)
    else:
        tlc(ctx, "CurveCache", "MC_CurveCache_6_2_3", dict(spec="Spec", invariants=inv, constants=consts), workers=14, timeout=3000,
            cases_file=cases)
        tlc(ctx, "CurveCache", "MC_CurveCache_2_1_4", dict(spec="Spec", invariants=inv, constants=dict(consts, NPool="2", NLen="1", MaxOps="4")),
            workers=14, timeout=3000, cases_file=cases)
    # negative controls: the two deviations the property rules out are violations of the model
    tlc(ctx, "CurveCache", "Neg_CurveCache_emptykeeps", dict(spec="Spec", invariants=["Pure"],
        constants=dict(consts, EmptyClears="FALSE", Emit="FALSE")), workers=4, expect_violation=True, count=False)
    tlc(ctx, "CurveCache", "Neg_CurveCache_mutkeeps", dict(spec="Spec", invariants=["CacheCoherent"],
        constants=dict(consts, MutClears="FALSE", Emit="FALSE")), workers=4, expect_violation=True, count=False)
    summ = harness(ctx, ["cache", "replay"], cases_file=cases, name="cache-replay", timeout=3600)
    report_mismatches(ctx, summ, "a curve depends on the API used or on what the buffers/cache held before")
    ctx.assumptions += ["F(input) is realised as Curve::new on fresh buffers (purity = equality with the fresh computation)",
                        "the abstract pool of 7 inputs x 3 length choices is replayed under three concretisations: (a) empty, single point, linear, "
                        "two-segment, bezier+catmull, perfect, small bezier x {none, 25, 500}; (b) Catmull, 14-point bezier, degree-3 b-spline, "
                        "collinear perfect curve (bezier fallback) x {none, -1 (early return), 0.001}; (c) an arc beyond 1000 sub-points "
                        "(fallback), linear+Catmull, duplicated end, 25-point bezier x {none, 100000, 61.5}; (d) control-point lists and lengths drawn "
                        "with the seed (every segment type); modes rotate"]
    return finish(ctx, "model_checking",
                  "TLC enumerates every sequence of {owned, borrowed, path cache (3 accessors), mutate points, mutate length, clear} "
                  "operations up to the bound over the input pool sharing one buffer set and one SliderPath, with invariants Pure and "
                  "CacheCoherent (and two Neg configs showing that a stale buffer for an empty list / a non-invalidating mutator violate "
                  "them); every sequence is executed on the real API with each result compared bit-for-bit with a fresh computation; "
                  "non-trivial = distinct operation sequences")


# ----------------------------------------------------------------------------
READER_INV = ["ScheduleIndependent", "ErrorProvenance", "Conservation", "EmitCase"]


def reader_run(ctx, fileset, n, faults, cases, keep=True, unit=True, chunk=4, intr=1, expect_violation=False, inv=None):
    cfg = dict(spec="Spec", invariants=inv or READER_INV, properties=[] if expect_violation else ["Terminates", "FaultSurfaces"],
               view="View",
               constants=dict(FileSet='"%s"' % fileset, FileN=str(n), MaxChunk=str(chunk), MaxIntr=str(intr), FaultSet='"%s"' % faults,
                              KeepShortChunks="TRUE" if keep else "FALSE", UnitAware="TRUE" if unit else "FALSE",
                              Emit="TRUE" if cases and not expect_violation else "FALSE"))
    name = "MC_Reader_%s%d_%s%s%s" % (fileset, n, faults, "" if keep else "_shortloses", "" if unit else "_bytesplit")
    return tlc(ctx, "Reader", name, cfg, workers=14, timeout=3000, cases_file=None if expect_violation else cases,
               expect_violation=expect_violation, count=not expect_violation)


def reader_rand_run(ctx, fileset, n, cases, chunk=2, intr=0, salt=0, faults="none"):
    """Reader.tla over a seed-generated byte alphabet: eight random payload bytes besides LF, CR, NUL, and seven random
    UTF-16 code units of which some carry a 0x0A byte (module RandReader, overriding PayloadBytes / Units)."""
    import random
    rnd = random.Random(ctx.seed * 1009 + 29 + salt * 86028121)
    payload = sorted(set([10, 13, 0] + [rnd.randint(1, 255) for _ in range(8)]))
    units = set()
    while len(units) < 7:
        u = (rnd.choice([10, 10, 0, rnd.randint(0, 255)]), rnd.choice([10, 0, 0, rnd.randint(0, 255)]))
        units.add(u)
    units |= {(10, 0), (0, 10)}
    text = ("----------------------------- MODULE RandReader -----------------------------\n"
            "(* generated by bin/plans.py (reader_rand_run) from VERIF_SEED = %d - do not edit.  A randomised byte / code-unit\n"
            "   alphabet for Reader: the model is the oracle, the bytes it is asked about change with the seed. *)\n"
            "EXTENDS Reader\n\nRandPayload == {%s}\nRandUnits == {%s}\n"
            "=============================================================================\n") % (
                ctx.seed, ", ".join(map(str, payload)), ", ".join("<<%d, %d>>" % u for u in sorted(units)))
    path = os.path.join(SPEC, "RandReader.tla")
    old = open(path).read() if os.path.exists(path) else None
    if old != text:
        with open(path, "w") as fh:
            fh.write(text)
    sany(ctx, "RandReader")
    cfg = dict(spec="Spec", invariants=READER_INV, properties=["Terminates", "FaultSurfaces"], view="View",
               constants=dict(FileSet='"%s"' % fileset, FileN=str(n), MaxChunk=str(chunk), MaxIntr=str(intr), FaultSet='"%s"' % faults,
                              KeepShortChunks="TRUE", UnitAware="TRUE", Emit="TRUE", PayloadBytes="<-RandPayload", Units="<-RandUnits"))
    return tlc(ctx, "RandReader", "MC_RandReader_%s%d_c%d_i%d_%s" % (fileset, n, chunk, intr, faults), cfg, workers=14, timeout=3000, cases_file=cases)


def check_C08(ctx):
    thorough = ctx.tier == "thorough"
    sany(ctx, "Reader")
    cases = os.path.join(ctx.work, "reader.ndjson")
    reader_run(ctx, "hdr", 3 if thorough else 2, "none", cases, chunk=5 if thorough else 4, intr=2 if thorough else 1)
    reader_run(ctx, "tiny", 5 if thorough else 4, "none", cases, chunk=4, intr=1)
    # UTF-16 code units whose bytes 0A / 00 meet across unit boundaries, every chunking into 1..3 bytes
    reader_run(ctx, "units", 3 if thorough else 2, "none", cases, chunk=3, intr=0)
    # seed-generated byte / code-unit alphabets, every chunking into 1..3 bytes with one Interrupted
    for salt in ([2, 1, 0] if thorough else [0]):
        reader_rand_run(ctx, "hdr", 2, cases, chunk=3, intr=1, salt=salt)
        reader_rand_run(ctx, "units", 2, cases, chunk=3, intr=1, salt=salt)
    # the pinned reader (a first chunk of 1-2 bytes is consumed while sniffing the BOM) violates the model's invariant
    reader_run(ctx, "tiny", 3, "none", None, keep=False, expect_violation=True, inv=["ScheduleIndependent"])
    summ = harness(ctx, ["reader", "replay", "--prop", "C08"], cases_file=cases, name="reader-replay", timeout=3600)
    report_mismatches(ctx, summ, "decoded lines depend on how the bytes are delivered / differ from the Reader specification")
    summ = harness(ctx, ["reader", "relations", "--prop", "C08", "--tier", ctx.tier], name="reader-rel", timeout=7000)
    report_mismatches(ctx, summ, "decoding a real file depends on the delivery schedule")
    ctx.assumptions += ["the BufRead contract (fill_buf returns a non-empty slice unless at end of input)",
                        "text decoding of each line is std's lossy conversion (C10)"]
    return finish(ctx, "model_checking",
                  "Reader.tla models the BufRead as an environment (chunk sizes, Interrupted, failure) and the decoder's BOM sniffing and "
                  "line splitting as actions; TLC checks on every short file x every schedule that the lines are a function of the bytes only "
                  "(and terminates); each file is replayed with the model's witness schedule and seeded others through a scheduled BufRead and "
                  "a recording DecodeBeatmap implementor; the same relation is evaluated on bundled and random files in four encodings under "
                  "fixed chunk sizes, random schedules with Interrupted results, BufReader capacities 1..16, from_str and from_path; "
                  "non-trivial = distinct (file, fault) cases with more than one line / distinct (file, encoding) pairs")


def check_C09(ctx):
    thorough = ctx.tier == "thorough"
    sany(ctx, "Reader")
    cases = os.path.join(ctx.work, "reader.ndjson")
    reader_run(ctx, "hdr", 2 if thorough else 1, "all", cases, chunk=3, intr=1)
    reader_run(ctx, "tiny", 4 if thorough else 3, "all", cases, chunk=3, intr=1)
    # seed-generated byte alphabets: a failure at every offset of every short random file
    for salt in ([1, 0] if thorough else [0]):
        reader_rand_run(ctx, "hdr", 1, cases, chunk=3, intr=1, salt=salt, faults="all")
    # pinned LE handling: an UnexpectedEof that no reader failure caused
    reader_run(ctx, "hdr", 1, "none", None, unit=False, expect_violation=True, inv=["ErrorProvenance"])
    summ = harness(ctx, ["reader", "replay", "--prop", "C09"], cases_file=cases, name="reader-replay", timeout=3600)
    report_mismatches(ctx, summ, "an I/O fault is not surfaced as the Reader specification requires")
    # write side: Writer.tla (the writer as environment of write_all / flush), every script replayed into Beatmap::encode
    sany(ctx, "Writer")
    wcases = os.path.join(ctx.work, "writer.ndjson")
    tlc(ctx, "Writer", "MC_Writer", dict(spec="Spec", invariants=["OkMeansComplete", "ErrorIsTheWriters", "NeverMoreThanAsked", "EmitCase"],
        properties=["Terminates"], constants=dict(Total="6" if thorough else "5", MaxAccept="3", MaxIntr="2", Emit="TRUE")),
        workers=8, timeout=1800, cases_file=wcases)
    # beyond the small constants: the same invariants are inductive for EVERY total, acceptance and interruption count
    # (Apalache, integers only); the negative control (an interrupted write taken for success) must break the step
    apalache(ctx, "WriterInd", ["--init=Init", "--inv=IndInv", "--length=0"])
    apalache(ctx, "WriterInd", ["--init=IndInit", "--inv=IndInv", "--length=1"])
    apalache(ctx, "WriterInd", ["--init=IndInit", "--next=NextBad", "--inv=IndInv", "--length=1"], expect_error=True)
    summ = harness(ctx, ["writer", "replay"], cases_file=wcases, name="writer-replay", timeout=3600)
    report_mismatches(ctx, summ, "Beatmap::encode does not treat the writer's answers as Writer.tla requires")
    summ = harness(ctx, ["reader", "relations", "--prop", "C09", "--tier", ctx.tier], name="reader-rel", timeout=7000)
    report_mismatches(ctx, summ, "an injected read/write fault is swallowed, altered or followed by further I/O")
    ctx.assumptions += ["faults are injected at the BufRead / Write traits, where the crate's responsibility starts"]
    return finish(ctx, "fault_enumeration",
                  "TLC enumerates every fault offset x {Other, UnexpectedEof} x every schedule on short files and checks that the result is "
                  "that error iff the fault is reached, that Interrupted never surfaces and that every behaviour ends; the behaviours are "
                  "replayed through a faulting BufRead; on bundled and random files every byte offset (sampled for large files) x 5 error kinds "
                  "is injected on read, and every output offset x {error kinds, zero-length write}, short writes, Interrupted writes and a flush "
                  "failure on write; non-trivial = distinct (file, fault) / (file, encoding) cases")


def check_C10(ctx):
    thorough = ctx.tier == "thorough"
    sany(ctx, "Reader")
    cases = os.path.join(ctx.work, "reader.ndjson")
    reader_run(ctx, "hdr", 4 if thorough else 3, "none", cases, chunk=2, intr=0)
    reader_run(ctx, "units", 4 if thorough else 3, "none", cases, chunk=2, intr=0)
    # seed-generated byte and code-unit alphabets (the model stays the oracle)
    for salt in ([2, 1, 0] if thorough else [0]):
        reader_rand_run(ctx, "hdr", 2, cases, chunk=2, intr=0, salt=salt)
        reader_rand_run(ctx, "units", 3, cases, chunk=2, intr=0, salt=salt)
    # the pinned reader splits UTF-16 text after every 0x0A byte: a violation of the model's invariant
    reader_run(ctx, "hdr", 2, "none", None, unit=False, expect_violation=True, inv=["ScheduleIndependent"])
    summ = harness(ctx, ["reader", "replay", "--prop", "C10"], cases_file=cases, name="reader-replay", timeout=3600)
    report_mismatches(ctx, summ, "line splitting / lossy decoding differs from the Reader specification")
    summ = harness(ctx, ["reader", "relations", "--prop", "C10", "--tier", ctx.tier], name="reader-rel", timeout=7000)
    report_mismatches(ctx, summ, "the same text decodes differently in another encoding / lossy replacement differs from std")
    ctx.assumptions += ["reference for replacement characters: String::from_utf8_lossy / from_utf16_lossy applied per line",
                        "an odd trailing byte of a UTF-16 stream is dropped (the statement does not determine it; the model follows the code)"]
    return finish(ctx, "model_checking",
                  "Reader.tla's declarative rule splits UTF-16 payloads on the code unit U+000A only; TLC checks the operational reader "
                  "against it for every payload over a byte alphabet containing 0x0A-bearing units, surrogate halves and invalid UTF-8; each "
                  "file is replayed and the delivered text compared with std's lossy conversion of the model's raw lines; bundled and random "
                  "texts (with hostile characters injected) are decoded in four encodings and must agree, invalid UTF-8 / unpaired surrogates "
                  "must equal the per-line lossy reference, and (thorough) every Unicode scalar value is swept as metadata content")


# ----------------------------------------------------------------------------
RECORD_SECTIONS = ["General", "Editor", "Metadata", "Difficulty", "Events", "Colours"]


def records_cases(ctx, section, maxrecs, colon="first", expect_violation=False, inv=None):
    name = "MC_Records_%s_%d%s" % (section, maxrecs, "" if colon == "first" else "_secondcolon")
    cases = os.path.join(ctx.work, name + ".ndjson")
    body = cases + ".body"
    for p in (cases, body):
        if os.path.exists(p):
            os.remove(p)
    cfg = dict(spec="Spec", invariants=inv or ["LastWins", "ARRule", "Ranges"], properties=[] if expect_violation else ["RejectStutters"],
               constants=dict(Section='"%s"' % section, MaxRecs=str(maxrecs), Emit="FALSE" if expect_violation else "TRUE",
                              ColonSplit='"%s"' % colon))
    r = tlc(ctx, "Records", name, cfg, workers=14, timeout=3000, cases_file=None if expect_violation else body,
            expect_violation=expect_violation, count=not expect_violation)
    if expect_violation:
        return None
    with open(cases, "w") as f:
        f.write(json.dumps({"alpha": r["alpha"]}) + "\n")
        with open(body) as b:
            for ln in b:
                f.write(ln)
    os.remove(body)
    return cases


KV_TYPES = {
    "General": dict(AudioFilename="path", AudioLeadIn="i32", PreviewTime="i32", SampleSet="bank", SampleVolume="i32", StackLeniency="f32",
                    Mode="mode", LetterboxInBreaks="flag", SpecialStyle="flag", WidescreenStoryboard="flag", EpilepsyWarning="flag",
                    SamplesMatchPlaybackRate="flag", Countdown="countdown", CountdownOffset="i32"),
    "Editor": dict(DistanceSpacing="f64", BeatDivisor="i32", GridSize="i32", TimelineZoom="f64"),
    "Metadata": dict(Title="str", Artist="str", Creator="str", Version="str", Source="str", Tags="str", BeatmapID="i32", BeatmapSetID="i32"),
    "Difficulty": dict(HPDrainRate="f32", CircleSize="f32", OverallDifficulty="f32", ApproachRate="f32", SliderMultiplier="f64", SliderTickRate="f64"),
}


def rand_records_module(ctx, section, nrecs, salt=0):
    """Randomised alphabet for the key/value sections of Records.tla: integer payloads of every magnitude, decimals around the
    clamp bounds, every value class; single-precision fields stay below 100 (two decimals are then exact to 1e-3 in the
    projection), decimals of double-precision fields below 200000."""
    import random
    rnd = random.Random(ctx.seed * 4409 + 3 + salt * 32452843 + sum(map(ord, section)))
    types = KV_TYPES[section]
    keys = sorted(types)
    recs = []
    for _ in range(nrecs):
        k = rnd.choice(keys)
        ty = types[k]
        if ty in ("str", "path"):
            v = ("str", 0, rnd.choice(["a", "a b", "x:y", "p\\\\q", "\\\"q\\\"", "Soft", "[General]", "7", "-1"]))
        else:
            cls = rnd.choice(["int", "int", "int", "float", "float", "max", "min", "over", "under", "big", "nan", "inf", "empty", "garbage", "cmt", "colon", "name"])
            if ty in ("f32", "f64") and cls in ("max", "min"):
                cls = "float"                      # (2^31-1) * 100 does not fit TLC's integers
            if cls == "int":
                lim = 99 if ty == "f32" else (200000 if ty == "f64" else 2147483647)
                v = ("int", rnd.choice([0, 1, 2, 3, 4, 5, 6, 7, 8, -1, rnd.randint(-lim, lim), rnd.randint(-min(lim, 300), min(lim, 300))]), "")
            elif cls == "float":
                lim = 9999 if ty == "f32" else 19999999
                v = ("float", rnd.choice([25, 39, 40, 41, 49, 50, 51, 359, 360, 361, 799, 800, 801, 950, 1000, rnd.randint(-lim, lim), rnd.randint(0, 1100)]), "")
            elif cls in ("cmt", "colon"):
                v = (cls, rnd.randint(0, 9), "")
            elif cls == "name":
                v = ("str", 0, rnd.choice(["Soft", "Half speed", "Normal", "Drum", "None", "soft", "Double speed", "half speed"]))
            else:
                v = (cls, 0, "")
        if rnd.random() < 0.05:
            k = rnd.choice(["Foo", "mode", k.lower(), k + "x"])
        recs.append('[k |-> "%s", vc |-> "%s", vi |-> %d, vs |-> "%s"]' % (k, v[0], v[1], v[2]))
    text = ("----------------------------- MODULE RandRecords -----------------------------\n"
            "(* generated by bin/plans.py (rand_records_module) from VERIF_SEED = %d for section %s - do not edit.  A randomised\n"
            "   alphabet for Records: the model is the oracle, the values it is asked about change with the seed. *)\n"
            "EXTENDS Records\n\nRandRAlpha == <<\n    %s >>\n"
            "=============================================================================\n") % (ctx.seed, section, ",\n    ".join(recs))
    path = os.path.join(SPEC, "RandRecords.tla")
    old = open(path).read() if os.path.exists(path) else None
    if old != text:
        with open(path, "w") as fh:
            fh.write(text)


def rand_events_colours_module(ctx, section, nrecs, salt=0):
    """Randomised alphabets for the [Events] / [Colours] records of Records.tla: break times of every sign and order, every
    event kind x file x field count; colour components 0..255, 2..5 components, combo and named keys."""
    import random
    rnd = random.Random(ctx.seed * 5323 + 7 + salt * 73939133 + len(section))
    recs = set()
    while len(recs) < nrecs:
        if section == "Events":
            if rnd.random() < 0.5:
                a = rnd.choice([0, 100, rnd.randint(-5000, 100000)])
                b = rnd.choice([a, a + rnd.randint(-300, 5000), rnd.randint(-5000, 100000)])
                recs.add('E("break", "", %d, "%s", %d, "%s", %d)' % (rnd.choice([2, 3, 3, 3, 4]), rnd.choice(["num", "num", "num", "bad"]), a,
                                                                    rnd.choice(["num", "num", "num", "bad"]), b))
            else:
                recs.add('E("%s", "%s", %d, "num", 0, "num", 0)' % (rnd.choice(["bg", "video", "sprite", "other", "bad"]),
                                                                  rnd.choice(["a.jpg", "b.png", "v.mp4", "V.AVI", "ab", "p\\\\q.jpg", ""]), rnd.choice([1, 2, 3, 4, 5, 6])))
        else:
            k = rnd.choice(["Combo1", "Combo2", "Combo", "Combo%d" % rnd.randint(0, 99), "SliderBorder", "SliderTrackOverride", "X", "Y"])
            recs.add('C("%s", %s, %d, %d, %d, %d, "%s")' % (k, "TRUE" if k.startswith("Combo") else "FALSE", rnd.randint(0, 255), rnd.randint(0, 255),
                                                          rnd.randint(0, 255), rnd.choice([2, 3, 3, 3, 4, 4, 5]), rnd.choice(["ok", "ok", "ok", "ok", "bad"])))
    text = ("----------------------------- MODULE RandRecords -----------------------------\n"
            "(* generated by bin/plans.py (rand_events_colours_module) from VERIF_SEED = %d for section %s - do not edit. *)\n"
            "EXTENDS Records\n\nRandRAlpha == <<\n    %s >>\n"
            "=============================================================================\n") % (ctx.seed, section, ",\n    ".join(sorted(recs)))
    path = os.path.join(SPEC, "RandRecords.tla")
    old = open(path).read() if os.path.exists(path) else None
    if old != text:
        with open(path, "w") as fh:
            fh.write(text)


def records_rand_cases(ctx, section, nrecs, maxrecs, salt=0):
    if section in ("Events", "Colours"):
        rand_events_colours_module(ctx, section, nrecs, salt)
    else:
        rand_records_module(ctx, section, nrecs, salt)
    sany(ctx, "RandRecords")
    name = "MC_RandRecords_%s_%d_%d" % (section, nrecs, maxrecs)
    cases = os.path.join(ctx.work, name + ".ndjson")
    body = cases + ".body"
    cfg = dict(spec="Spec", invariants=["LastWins", "ARRule", "Ranges"], properties=["RejectStutters"],
               constants=dict(Section='"%s"' % section, MaxRecs=str(maxrecs), Emit="TRUE", ColonSplit='"first"', Alpha="<-RandRAlpha"))
    r = tlc(ctx, "RandRecords", name, cfg, workers=14, timeout=3000, cases_file=body)
    with open(cases, "w") as f:
        f.write(json.dumps({"alpha": r["alpha"]}) + "\n")
        with open(body) as b:
            for ln in b:
                f.write(ln)
    os.remove(body)
    return cases


def check_C11(ctx):
    thorough = ctx.tier == "thorough"
    sany(ctx, "Records")
    for sec in RECORD_SECTIONS:
        n = 2
        if thorough and sec != "General":
            n = 3
        f = records_cases(ctx, sec, n)
        summ = harness(ctx, ["records", "replay", "--spellings", "2"], cases_file=f, name="records-" + sec, timeout=3600)
        report_mismatches(ctx, summ, "[%s] records decode differently from the format rules of Records.tla" % sec)
    # randomised alphabets for all six sections (values drawn with the seed; the model is the oracle)
    for sec in ("General", "Editor", "Metadata", "Difficulty", "Events", "Colours"):
        for salt in ([2, 1, 0] if thorough else [0]):
            f = records_rand_cases(ctx, sec, 50 if sec in ("Events", "Colours") else 70, 2, salt=salt)
            summ = harness(ctx, ["records", "replay", "--spellings", "1"], cases_file=f, name="records-rand-" + sec, timeout=3600)
            report_mismatches(ctx, summ, "[%s] records decode differently from the format rules of Records.tla (randomised alphabet %d)" % (sec, salt))
            os.remove(f)
    # impl -> spec: long random record sequences per section
    sany(ctx, "Trace_Records")
    for sec in RECORD_SECTIONS:
        tcfg = dict(spec="TrSpec", postcondition="Accepted",
                    constants=dict(Section='"%s"' % sec, MaxRecs="0", Emit="FALSE", ColonSplit='"first"'))
        runs, lines = (40, 120) if thorough else (8, 60)
        trace_step(ctx, "Trace_Records", "Trace_Records_%s" % sec, tcfg,
                   ["records", "record", "--section", sec, "--runs", str(runs), "--lines", str(lines)],
                   "recorded [%s] decoding is not a behaviour of Records.tla" % sec, "records-trace-" + sec)
    ctx.assumptions += ["value alphabets of Records.tla (integers, hundredths, boundary classes, text pool); f32 fields are not given the "
                        "classes 2^31 / 2^31-1 (not representable in f32: outcome not determined by the statement)",
                        "[Editor] Bookmarks is covered by the C03 check"]
    return finish(ctx, "model_checking",
                  "Records.tla states the format rules as tables (type per key, conversion per type, defaults) and TLC checks, on every "
                  "sequence of records up to the bound over every recognised key x value class (plus unknown keys, duplicates, event and "
                  "colour shapes), that last-valid-occurrence-wins, the AR/OD rule, clamps and reject-is-a-stutter hold; every sequence is "
                  "spelled twice and decoded by the section's own decoder and by Beatmap, the decoded struct compared field by field with "
                  "the predicted state and the per-line Ok/Err with the predicted verdicts; non-trivial = distinct non-empty sequences")


# ----------------------------------------------------------------------------
def pathcodec_cases(ctx, maxtoks, tokset, cases, fixed=True, force=True, expect_violation=False, inv=None):
    cfg = dict(spec="Spec", invariants=inv or ["Accepted", "RoundTrip"],
               constants=dict(MaxToks=str(maxtoks), TokSet='"%s"' % tokset, FixedSep="TRUE" if fixed else "FALSE",
                              ForceLast="TRUE" if force else "FALSE", Emit="FALSE" if expect_violation else "TRUE"))
    name = "MC_PathCodec_%s_%d%s" % (tokset, maxtoks, "" if fixed and force else "_pinned")
    return tlc(ctx, "PathCodec", name, cfg, workers=14, timeout=3000, cases_file=None if expect_violation else cases,
               expect_violation=expect_violation, count=not expect_violation)


def check_C04(ctx):
    thorough = ctx.tier == "thorough"
    for m in ("PathString", "PathCodec", "TimingLines", "TimingEncode"):
        sany(ctx, m)
    cases = os.path.join(ctx.work, "pathcodec.ndjson")
    pathcodec_cases(ctx, 6 if thorough else 5, "full", cases)
    pathcodec_cases(ctx, 5 if thorough else 4, "degree", cases)
    # the pinned encoder writes `<letter>,` for a typed last control point: the decoder model rejects that
    pathcodec_cases(ctx, 4, "full", None, fixed=False, force=False, expect_violation=True, inv=["Accepted"])
    summ = harness(ctx, ["pathcodec", "replay", "--prop", "C04"], cases_file=cases, name="pathcodec", timeout=3600)
    report_mismatches(ctx, summ, "the encoder writes a slider path its own decoder rejects / differs from PathString.EncPath")
    # timing sections (chronological or not): every encoded line accepted, nothing dropped
    f = timingenc_cases(ctx, "AlphaVel", "GensModes", 3 if thorough else 2)
    summ = harness(ctx, ["timingcodec", "replay", "--prop", "C04"], cases_file=f, name="timingcodec", timeout=3600)
    report_mismatches(ctx, summ, "the encoder writes a timing line its own decoder rejects / loses a timing point")
    # the encoder as a state machine over emitted lines; the encoded text of real maps is its trace
    for m in ("Encoder", "Trace_Encoder"):
        sany(ctx, m)
    tlc(ctx, "Encoder", "MC_Encoder", dict(spec="ESpec", invariants=["Wellformed", "OnlyAccepted"], constants=dict(MaxRecords="2")),
        workers=4, timeout=600)
    trace_step(ctx, "Trace_Encoder", "Trace_Encoder", dict(spec="TrSpec", postcondition="Accepted", constants=dict(MaxRecords="0")),
               ["encoder", "trace", "--tier", ctx.tier],
               "the encoder's output is not a behaviour of Encoder.tla (header order / uniqueness / a rejected record)", "encoder-trace")
    # every encoded line of real and generated maps is fed back to its section parser
    summ = harness(ctx, ["encoder", "relations", "--prop", "C04", "--tier", ctx.tier], name="encoder-rel", timeout=7000)
    report_mismatches(ctx, summ, "the encoder's output is not accepted line by line / loses records")
    ctx.assumptions += ["number formatting (Display of f32/f64 round-trips) is a guarantee of the Rust standard library"]
    return finish(ctx, "model_checking",
                  "PathCodec.tla composes the path encoder and decoder transcriptions: TLC checks for every decodable token string up to the "
                  "bound that the encoded path is accepted again; the real encoder's path text is compared token by token with the model's "
                  "and every line it writes is fed to the section's public parse function; the same line-by-line validation (version line "
                  "first, each header once in canonical order, every record accepted, object/timing/break/colour counts preserved) runs on "
                  "the encodings of bundled, generated, hostile and non-chronological maps; non-trivial = distinct decodable path strings / maps")


def timingenc_cases(ctx, alpha, gens, maxlines, scroll=True, expect_violation=False, module="TimingEncode"):
    name = "MC_%s_%s_%s_%d%s" % (module, alpha, gens, maxlines, "" if scroll else "_pinned")
    cases = os.path.join(ctx.work, name + ".ndjson")
    body = cases + ".body"
    for p in (cases, body):
        if os.path.exists(p):
            os.remove(p)
    cfg = dict(spec="Spec", invariants=["EncAccepted", "RoundTrip", "EmitEncCase"],
               constants=dict(Alpha="<-" + alpha, Gens="<-" + gens, MaxLines=str(maxlines), MinLines="0", Emit="TRUE" if not expect_violation else "FALSE",
                              ScrollAsVelocity="TRUE" if scroll else "FALSE", EmitEnc="FALSE" if expect_violation else "TRUE"))
    r = tlc(ctx, module, name, cfg, workers=14, timeout=3000, cases_file=None if expect_violation else body,
            expect_violation=expect_violation, count=not expect_violation)
    if expect_violation:
        return None
    # TimingLines' own CASE lines (from Finish) are in the same stream: keep the TimingEncode ones (they carry `enc`)
    with open(cases, "w") as f:
        f.write(json.dumps({"alpha": r["alpha"]}) + "\n")
        with open(body) as b:
            for ln in b:
                if '"enc":' in ln:
                    f.write(ln)
    os.remove(body)
    return cases


def check_C02(ctx):
    thorough = ctx.tier == "thorough"
    for m in ("PathString", "PathCodec", "Samples", "SampleCodec", "TimingLines", "TimingEncode"):
        sany(ctx, m)
    # (1) slider paths
    cases = os.path.join(ctx.work, "pathcodec.ndjson")
    pathcodec_cases(ctx, 6 if thorough else 5, "full", cases)
    pathcodec_cases(ctx, 6 if thorough else 5, "degree", cases)          # b-splines of different degree next to each other
    summ = harness(ctx, ["pathcodec", "replay", "--prop", "C02"], cases_file=cases, name="pathcodec", timeout=3600)
    report_mismatches(ctx, summ, "a slider path does not survive decode -> encode -> decode (outside the listed shapes)")
    # (2) hit samples: names and banks survive for every bank info x sound byte x sample point x mania; every case is replayed:
    #     the hit-sound byte and bank info the encoder writes, and what the second decode makes of them
    scases = os.path.join(ctx.work, "samplecodec.ndjson")
    tlc(ctx, "SampleCodec", "MC_SampleCodec", dict(spec="Spec", invariants=["EncodedAccepted", "NamesAndBanksSurvive", "NodeNamesAndBanksSurvive"],
        constants=dict(Dummy="1")), workers=14, timeout=1800, cases_file=scases)
    summ = harness(ctx, ["samplecodec", "replay"], cases_file=scases, name="samplecodec", timeout=3600)
    report_mismatches(ctx, summ, "the encoder's hit-sound byte / bank info differ from SampleCodec, or sample names and banks do not survive")
    os.remove(scases)
    # (2b) whole hit-object lines: HitObjectLine!LineCodec (type byte, hit-sound byte, ends, span count, node lists) on the
    #      line alphabets, and the encoder's text compared field by field with HitObjectLine!EncOf
    for (a, n, ml) in [("combo", 0, 3 if thorough else 2), ("typesquick", 0, 1), ("nodes", 0, 1), ("nodes2", 0, 2), ("bank", 0, 1)]:
        f = hitobj_cases(ctx, a, n, ml, invariants=("LineCodec",))
        summ = harness(ctx, ["hitobj", "codec"], cases_file=f, name="hitobj-codec-" + a, timeout=3600)
        report_mismatches(ctx, summ, "the encoder's hit-object line differs from HitObjectLine!EncOf (alphabet %s)" % a)
        os.remove(f)
    for salt in ([5, 4, 3, 2, 1, 0] if thorough else [0]):
        f = hitobj_rand_cases(ctx, 150 if salt else 120, 2, salt=salt)
        summ = harness(ctx, ["hitobj", "codec"], cases_file=f, name="hitobj-codec-rand", timeout=3600)
        report_mismatches(ctx, summ, "the encoder's hit-object line differs from HitObjectLine!EncOf (randomised alphabet %d)" % salt)
        os.remove(f)
    # (2c) files whose sections come in any order and repeat (SectionFlow.tla): decode -> encode -> decode
    f = flow_cases(ctx, 5 if thorough else 4)
    summ = harness(ctx, ["flow", "replay", "--prop", "C02"], cases_file=f, name="flow-roundtrip", timeout=3600)
    report_mismatches(ctx, summ, "a file with interleaved sections does not survive decode -> encode -> decode")
    os.remove(f)
    # (3) timing points: encoder transcription composed with the decoder
    plan = [("AlphaVel", "GensModes", 3), ("AlphaAll", "GensTwo", 2)] if thorough else [("AlphaVel", "GensModes", 2), ("AlphaEff", "GensTwo", 2)]
    for (a, g, n) in plan:
        f = timingenc_cases(ctx, a, g, n)
        summ = harness(ctx, ["timingcodec", "replay", "--prop", "C02"], cases_file=f, name="timingcodec", timeout=3600)
        report_mismatches(ctx, summ, "timing points do not survive decode -> encode -> decode / the encoder differs from TimingEncode")
    # the same over a seed-generated alphabet (RandTimingEnc = TimingEncode + random lines)
    for salt in ([2, 1, 0] if thorough else [0]):
        rand_timing_module(ctx, 45, salt, module="RandTimingEnc", base="TimingEncode")
        sany(ctx, "RandTimingEnc")
        f = timingenc_cases(ctx, "RandTAlpha", "GensModes", 2, module="RandTimingEnc")
        summ = harness(ctx, ["timingcodec", "replay", "--prop", "C02"], cases_file=f, name="timingcodec-rand", timeout=3600)
        report_mismatches(ctx, summ, "timing points do not survive decode -> encode -> decode / the encoder differs from TimingEncode (randomised alphabet %d)" % salt)
        os.remove(f)
    # the pinned encoder (velocity written instead of scroll speed in taiko/mania) violates the model's round trip
    timingenc_cases(ctx, "AlphaVel", "GensModes", 2, scroll=False, expect_violation=True)
    # (4) whole maps: bundled + structured generator, field list of the statement
    summ = harness(ctx, ["encoder", "relations", "--prop", "C02", "--tier", ctx.tier], name="encoder-rel", timeout=7000)
    report_mismatches(ctx, summ, "a map does not survive decode -> encode -> decode on the fields the statement lists")
    ctx.assumptions += ["number formatting: Display of f32/f64 is shortest round-trip (Rust standard library guarantee), not modelled",
                        "control-point shapes the legacy text cannot carry are listed in PathCodec!Unencodable and in known_findings.json",
                        "times closer than f64::EPSILON (0 and 1e-17) are outside the claim (known finding)"]
    return finish(ctx, "model_checking",
                  "three codec compositions are model-checked: PathCodec (every decodable path token string: Dec(Enc(Dec(s))) = Dec(s) outside the "
                  "listed shapes), SampleCodec (names and banks survive for every bank info x sound x sample point) and TimingEncode (every "
                  "chronological line sequence in four modes: identical timing points and velocity/kiai/scroll timelines); the real encoder's "
                  "path tokens and [TimingPoints] lines are compared with the models' predictions and the second decode with the predicted "
                  "result; whole bundled and generated maps are round-tripped and compared on the statement's field list (twice: stability); "
                  "non-trivial = distinct grammatical paths / line sequences / maps")


# ----------------------------------------------------------------------------
def check_C03(ctx):
    thorough = ctx.tier == "thorough"
    sany(ctx, "StrCodec")
    cases = os.path.join(ctx.work, "strcodec.ndjson")
    for f in ("meta", "audio", "bg", "colour"):
        cfg = dict(spec="Spec", invariants=["Survives"], constants=dict(MaxLen="5" if thorough else "4", Field='"%s"' % f, Emit="TRUE"))
        tlc(ctx, "StrCodec", "MC_StrCodec_%s" % f, cfg, workers=14, timeout=3000, cases_file=cases)
    summ = harness(ctx, ["edits", "replay"], cases_file=cases, name="edits-replay", timeout=3600)
    report_mismatches(ctx, summ, "an edited text field does not come back as StrCodec.tla predicts / another field changes")
    summ = harness(ctx, ["edits", "relations", "--tier", ctx.tier], name="edits-rel", timeout=3600)
    report_mismatches(ctx, summ, "an edited numeric / flag / list field does not survive encode -> decode, or changes another field")
    ctx.assumptions += ["representable text per field as defined in StrCodec!Representable (metadata: any text without outer whitespace; "
                        "file names: additionally no `//`, no backslash, and for the background no comma / outer quote; colour names: no colon)",
                        "number formatting (shortest round-trip Display) assumed from the Rust standard library"]
    return finish(ctx, "model_checking",
                  "StrCodec.tla transcribes the string pipeline of every text field (writer line, reader trim, comment stripping, first-colon "
                  "split, comma split, clean_filename) over an 8-symbol alphabet; TLC checks for every string up to the bound that a "
                  "representable value survives and predicts what any other value comes back as; every string is applied as an edit to decoded "
                  "maps and the real encode -> decode result compared with the prediction, all other preserved fields being unchanged; "
                  "numeric, flag, enum, bookmark, colour and break edits (single and combined) are checked as a relation on generated maps; "
                  "non-trivial = distinct representable (field, string) pairs / base maps")


# ----------------------------------------------------------------------------
def rand_post_module(ctx, salt=0):
    """Randomised VALUES for MapPost.tla (the structure - times, beat lengths, velocities - stays on the exactness lattice):
    sample banks / volumes / custom indices of every timing line and four object sample shapes drawn with the seed."""
    import random
    rnd = random.Random(ctx.seed * 2909 + 11 + salt * 49979687)
    skel = [[(0, "TRUE", 400)],
            [(0, "TRUE", 400), (2000, "FALSE", -50), (2810, "FALSE", -50)],
            [(2000, "TRUE", 800), (2410, "FALSE", -200), (2010, "FALSE", -200)],
            [(0, "TRUE", 200), (2010, "TRUE", 400), (4010, "FALSE", -100)],
            [],
            [(0, "TRUE", 400), (2000, "FALSE", -400), (2410, "FALSE", -25), (3200, "FALSE", -100)],
            [(0, "TRUE", 400), (2000, "FALSE", -2000), (2010, "FALSE", -5)]]
    seqs = []
    for sk in skel:
        seqs.append("<<%s>>" % ", ".join("TL(%d, %s, %d, %d, %d, %d)" % (tau, unin, bl, rnd.choice([0, 1, 2, 3, rnd.randint(-2, 7)]),
                                                                     rnd.choice([100, 60, 0, rnd.randint(-50, 250)]), rnd.choice([0, 0, 1, 2, rnd.randint(-3, 300)]))
                                           for (tau, unin, bl) in sk))
    smps = set()
    while len(smps) < 4:
        smps.add("Smp(%d, %d, %d, %d, %d, %s)" % (rnd.choice([0, 2, rnd.randint(0, 15), rnd.randint(0, 255)]), rnd.randint(0, 3), rnd.randint(0, 3),
                                                  rnd.choice([0, 0, rnd.randint(1, 250), -rnd.randint(1, 50)]), rnd.choice([0, 0, 1, 2, rnd.randint(-5, 40)]),
                                                  rnd.choice(["FALSE", "FALSE", "TRUE"])))
    text = ("------------------------------ MODULE RandPost ------------------------------\n"
            "(* generated by bin/plans.py (rand_post_module) from VERIF_SEED = %d - do not edit.  Randomised sample VALUES for\n"
            "   MapPost: the model is the oracle, the values it is asked about change with the seed. *)\n"
            "EXTENDS MapPost\n\nRandTimingSeq == <<\n    %s >>\n\nRandObjSamples == { %s }\n"
            "=============================================================================\n") % (ctx.seed, ",\n    ".join(seqs), ", ".join(sorted(smps)))
    path = os.path.join(SPEC, "RandPost.tla")
    old = open(path).read() if os.path.exists(path) else None
    if old != text:
        with open(path, "w") as fh:
            fh.write(text)


def check_C15(ctx):
    thorough = ctx.tier == "thorough"
    for m in ("TimingLines", "MapPost"):
        sany(ctx, m)
    runs = [("base", 2, "full" if thorough else "small"), ("wide", 3, "small" if thorough else "tiny")]
    if thorough:
        runs.append(("wide", 2, "full"))
    for (profile, maxobjs, times) in runs:
        name = "MC_MapPost_%s_%d_%s" % (profile, maxobjs, times)
        cases = os.path.join(ctx.work, name + ".ndjson")
        body = cases + ".body"
        cfg = dict(spec="PSpec", invariants=["SortedStable", "ComboAfterBreak", "ClosedForms", "ShiftInvariant"],
                   constants=dict(Alpha="<-AlphaShape", Gens="<-GensTwo", MaxLines="0", MinLines="0", Emit="FALSE", MaxObjs=str(maxobjs),
                                  TimesSet='"%s"' % times, EmitPost="TRUE", Profile='"%s"' % profile, SortedBreakEnds="TRUE"))
        r = tlc(ctx, "MapPost", name, cfg, workers=14, timeout=3000, cases_file=body)
        with open(cases, "w") as f:
            f.write(json.dumps({"alpha": r["alpha"]}) + "\n")
            with open(body) as b:
                for ln in b:
                    f.write(ln)
        os.remove(body)
        summ = harness(ctx, ["mappost", "replay"], cases_file=cases, name="mappost-replay-" + profile, timeout=3600)
        report_mismatches(ctx, summ, "map-level processing differs from the MapPost specification")
        os.remove(cases)
    # negative control: the pinned sweep (breaks walked in FILE order) violates ComboAfterBreak on a list that is not chronological
    tlc(ctx, "MapPost", "Neg_MapPost_fileorder", dict(spec="PSpec", invariants=["ComboAfterBreak"],
        constants=dict(Alpha="<-AlphaShape", Gens="<-GensTwo", MaxLines="0", MinLines="0", Emit="FALSE", MaxObjs="1", TimesSet='"small"',
                       EmitPost="FALSE", Profile='"base"', SortedBreakEnds="FALSE")), workers=4, expect_violation=True, count=False)
    # randomised sample values (banks, volumes, custom indices, hit-sound bytes, file samples) on the same structure
    for salt in ([3, 2, 1, 0] if thorough else [0]):
        rand_post_module(ctx, salt)
        sany(ctx, "RandPost")
        name = "MC_RandPost"
        cases = os.path.join(ctx.work, name + ".ndjson")
        body = cases + ".body"
        cfg = dict(spec="PSpec", invariants=["SortedStable", "ComboAfterBreak"],
                   constants=dict(Alpha="<-AlphaShape", Gens="<-GensTwo", MaxLines="0", MinLines="0", Emit="FALSE", MaxObjs="2",
                                  TimesSet='"small"' if thorough else '"tiny"', EmitPost="TRUE", Profile='"wide"', TimingSeq="<-RandTimingSeq",
                                  ObjSamples="<-RandObjSamples", SortedBreakEnds="TRUE"))
        r = tlc(ctx, "RandPost", name, cfg, workers=14, timeout=3000, cases_file=body)
        with open(cases, "w") as f:
            f.write(json.dumps({"alpha": r["alpha"]}) + "\n")
            with open(body) as b:
                for ln in b:
                    f.write(ln)
        os.remove(body)
        summ = harness(ctx, ["mappost", "replay"], cases_file=cases, name="mappost-replay-rand", timeout=3600)
        report_mismatches(ctx, summ, "map-level processing differs from the MapPost specification (randomised sample values %d)" % salt)
        os.remove(cases)
    # the composition with the other sections: sections in any order and repeated (SectionFlow.tla)
    f = flow_cases(ctx, 5 if thorough else 4)
    summ = harness(ctx, ["flow", "replay", "--prop", "C15"], cases_file=f, name="flow-replay", timeout=3600)
    report_mismatches(ctx, summ, "objects of a file with interleaved sections differ from the SectionFlow specification")
    os.remove(f)
    summ = harness(ctx, ["mappost", "relations", "--tier", ctx.tier], name="mappost-rel", timeout=3600)
    report_mismatches(ctx, summ, "shifting all times of a file changes more than the times")
    ctx.assumptions += ["exactness rule: beat lengths 200/400/800 (default 1000), slider multipliers 0.5/2, velocity points 0.5/1/2, path lengths "
                        "100/200: velocities and durations are dyadic, so the `end + 5 ms` lookups are decided exactly",
                        "breaks are listed in chronological order in the file",
                        "the shift relation on real files is checked on files whose times are whole milliseconds (others are skipped)"]
    return finish(ctx, "model_checking",
                  "MapPost.tla composes the TimingLines decoder with the map-level processing (stable sort, break sweep, slider velocity and "
                  "duration, sample defaults from the point active 5 ms after the end / each node); TLC enumerates every map of up to 2 objects "
                  "(4 kinds x times incl. equal and near-boundary times x flags x sample shapes) x 5 timing sections x 5 break lists x multipliers "
                  "x modes and checks ordering/stability, combo-after-break, the closed forms and that processing commutes with shifting all times; "
                  "every case is replayed through HitObjects and Beatmap (a sample of them also shifted); the shift relation is evaluated on "
                  "bundled and generated files; non-trivial = distinct cases with a slider or a break")


def rand_flow_module(ctx, salt=0):
    """Randomised VALUES for SectionFlow.tla: the two modes, the [General] bank and volume, the banks / volumes / custom
    indices of the timing lines (times and beat lengths stay on the exactness lattice)."""
    import random
    rnd = random.Random(ctx.seed * 7703 + 13 + salt * 982451653)
    modes = rnd.sample(["osu", "taiko", "catch", "mania"], 2)
    b = lambda: rnd.choice([0, 1, 2, 3, rnd.randint(-2, 7)])
    v = lambda: rnd.choice([100, 60, 0, rnd.randint(-50, 250)])
    c = lambda: rnd.choice([0, 1, 2, rnd.randint(-3, 300)])
    text = ("------------------------------ MODULE RandFlow ------------------------------\n"
            "(* generated by bin/plans.py (rand_flow_module) from VERIF_SEED = %d - do not edit.  Randomised values for\n"
            "   SectionFlow: the model is the oracle. *)\n"
            "EXTENDS SectionFlow\n\n"
            "RandFlowLines ==\n"
            "    << [Base(0) EXCEPT !.bl = 400, !.nf = 2],\n"
            "       [Base(2000) EXCEPT !.bl = 200, !.nf = 5, !.bank = %d, !.custom = %d],\n"
            "       [Base(2000) EXCEPT !.bl = -50, !.unin = FALSE, !.bank = %d, !.vol = %d, !.custom = %d],\n"
            "       [Base(2810) EXCEPT !.bl = 400, !.nf = %d, !.bank = %d] >>\n"
            "RandItems ==\n"
            "    << It(\"mode\", \"%s\"), It(\"mode\", \"%s\"), It(\"bank\", %d), It(\"vol\", %d), It(\"sm\", 2000), It(\"brk\", <<100, 999>>),\n"
            "       It(\"tl\", 1), It(\"tl\", 2), It(\"tl\", 3), It(\"tl\", 4), It(\"obj\", 1), It(\"obj\", 2), It(\"obj\", 3) >>\n"
            "=============================================================================\n") % (
                ctx.seed, b(), c(), b(), v(), c(), rnd.choice([2, 4]), b(), modes[0], modes[1], rnd.randint(0, 3), v())
    path = os.path.join(SPEC, "RandFlow.tla")
    old = open(path).read() if os.path.exists(path) else None
    if old != text:
        with open(path, "w") as fh:
            fh.write(text)
    sany(ctx, "RandFlow")


def flow_cases(ctx, maxitems, emit=True, expect_violation=False, simulate=None, rand=None):
    """SectionFlow.tla: every sequence of section records (any section order, sections repeated) up to the bound,
    or `simulate` random behaviours of exactly `maxitems` records."""
    sany(ctx, "SectionFlow")
    module = "SectionFlow"
    if rand is not None:
        rand_flow_module(ctx, rand)
        module = "RandFlow"
    name = "%s_%s_%d%s" % ("Sim" if simulate else "MC", module, maxitems, "_neg" if expect_violation else "")
    cases = os.path.join(ctx.work, name + ".ndjson")
    body = cases + ".body"
    # (simulated long behaviours are generated for the replay; the invariants are settled by the exhaustive runs)
    cfg = dict(spec="FSpec", invariants=["NegFinalGeneralIsUsed"] if expect_violation else ([] if simulate else ["FlowOnly", "EarlyGeneralIsEnough"]),
               constants=dict(Alpha="<-AlphaShape", Gens="<-GensTwo", MaxLines="0", MinLines="0", Emit="FALSE", MaxObjs="0",
                              TimesSet='"small"', EmitPost="FALSE", Profile='"base"', SortedBreakEnds="TRUE", MaxItems=str(maxitems),
                              MinItems=str(maxitems if simulate else 0),
                              EmitFlow="TRUE" if emit and not expect_violation else "FALSE"))
    if rand is not None:
        cfg["constants"].update(FlowLines="<-RandFlowLines", Items="<-RandItems")
    r = tlc(ctx, module, name, cfg, workers=1 if simulate else 14, timeout=3000, cases_file=None if expect_violation or not emit else body,
            expect_violation=expect_violation, count=not expect_violation, simulate=simulate, depth=maxitems + 3)
    if expect_violation or not emit:
        return None
    with open(cases, "w") as f:
        f.write(json.dumps({"alpha": r["alpha"]}) + "\n")
        with open(body) as b:
            for ln in b:
                f.write(ln)
    os.remove(body)
    return cases


# ----------------------------------------------------------------------------
def check_C01(ctx):
    thorough = ctx.tier == "thorough"
    for m in ("Reader", "Framing", "HitObjectLine"):
        sany(ctx, m)
    # (a) the model's part: the driver terminates on every short input under every schedule, errors come from the reader only
    reader_run(ctx, "tiny", 5 if thorough else 4, "none", None, chunk=3, intr=1)
    framing_cases(ctx, "SmallKinds", 4 if thorough else 3, emit=False)
    # (b) every guard of the hit-object grammar as a line class, replayed under catch_unwind
    for (a, n, ml) in [("num", 0, 2), ("bank", 0, 1), ("nodes", 0, 1), ("pathx", 3, 1), ("typesquick", 0, 1)]:
        f = hitobj_cases(ctx, a, n, ml)
        summ = harness(ctx, ["hitobj", "replay", "--prop", "C01", "--spellings", "1"], cases_file=f, name="hitobj-" + a, timeout=3600)
        # only panics / hangs matter here; value mismatches are C14's
        summ["mismatches"] = [m for m in summ.get("mismatches", []) if m.get("sig") in ("panic", "hang")]
        summ["mismatch_count"] = len(summ["mismatches"])
        summ["mismatch_sigs"] = {k: v for k, v in summ.get("mismatch_sigs", {}).items() if k in ("panic", "hang")}
        report_mismatches(ctx, summ, "panic or hang while decoding a hostile hit-object line")
    # (c) exploration: noise, hostile grammar, mutations / splices / truncations / encodings x nine decoders, both feature sets
    iters = 400000 if thorough else 25000
    summ = harness(ctx, ["c01", "explore", "--iters", str(iters)], name="c01-default", timeout=7000)
    report_mismatches(ctx, summ, "decoding or re-encoding arbitrary bytes panics, hangs or returns an error (default features)")
    summ = harness(ctx, ["c01", "explore", "--iters", str(iters // 4)], name="c01-tracing", timeout=7000, tracing=True)
    report_mismatches(ctx, summ, "decoding or re-encoding arbitrary bytes panics, hangs or returns an error (tracing feature)")
    ctx.exhaustive = False
    ctx.assumptions += ["memory safety of the three unsafe blocks is not observable from safe Rust or TLA+ and is NOT claimed",
                        "a hang is detected by a 20 s watchdog per input"]
    return finish(ctx, "exploration",
                  "the Reader and Framing models are re-checked for termination and error provenance (exhaustive on short inputs); hostile line "
                  "classes generated from HitObjectLine.tla are replayed under catch_unwind; then seeded exploration: every bundled and "
                  "hostile-generated file in four encodings, every truncation of the small ones, uniform and structured noise, and byte / line / "
                  "field mutations and splices, each decoded by all nine decoder types, re-encoded (valid UTF-8) and decoded again, with curve "
                  "accessors exercised, under the default and the tracing feature set; non-trivial = distinct inputs longer than 20 bytes")
