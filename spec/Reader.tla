-------------------------------- MODULE Reader --------------------------------
(***************************************************************************)
(* C08 / C09 / C10 - the byte reader of rosu-map (src/reader/decoder.rs):   *)
(* BOM sniffing and line splitting on top of a caller-supplied BufRead.     *)
(*                                                                          *)
(* The ENVIRONMENT is the BufRead: how it cuts the stream into chunks, when *)
(* it reports a transient `Interrupted`, and at which offset it fails for   *)
(* good.  The DECODER follows read_bom / read_line step by step.            *)
(*   file   the byte content (sequence of 0..255)                           *)
(*   pos    bytes consumed so far;  win  bytes currently buffered           *)
(*   pc     "bom" | "line" | "extra" | "done" | "err"                       *)
(*   enc    "utf8" | "le" | "be";  head  bytes seen while sniffing the BOM  *)
(*   cur    bytes of the line being assembled;  lines  completed raw lines  *)
(*   result "none" | "ok" | an error kind                                   *)
(* Deviation constants (TRUE/TRUE is the intended reader):                  *)
(*   KeepShortChunks  FALSE = a first chunk of 1-2 bytes is consumed and    *)
(*                    lost while looking for a BOM (pinned behaviour)       *)
(*   UnitAware        FALSE = in UTF-16 a line ends after every 0x0A BYTE   *)
(*                    (pinned); TRUE = only after the code unit U+000A, and *)
(*                    the high byte of a final LE newline may be missing    *)
(***************************************************************************)
EXTENDS Integers, Sequences, TLC, Json

CONSTANTS
    FileSet, FileN,   \* which set of files ("hdr" | "tiny", see the end of the module) and its size parameter
    MaxChunk,         \* the BufRead hands out 1..MaxChunk bytes per refill
    MaxIntr,          \* at most this many Interrupted results
    FaultSet,         \* "none" | "all": no failure, or a failure at any offset with either kind
    KeepShortChunks, UnitAware,
    Emit

NoFault == [off |-> -1, kind |-> "none"]

\* file sets.  A file is BOM-ish prefix \o "[Mania]\n" in the encoding the prefix selects \o payload,
\* so that the harness can observe the lines through the public DecodeBeatmap trait.
HeaderText == <<91, 77, 97, 110, 105, 97, 93, 10>>            \* "[Mania]\n"
Wide(s, le) == IF s = <<>> THEN <<>>
               ELSE LET RECURSIVE W(_)
                        W(t) == IF t = <<>> THEN <<>> ELSE (IF le THEN <<Head(t), 0>> ELSE <<0, Head(t)>>) \o W(Tail(t))
                    IN W(s)
\* (the last four: an empty first line right after the BOM, so that a line break is the first content byte)
Prefixes == {<<>>, <<239, 187, 191>>, <<255, 254>>, <<254, 255>>, <<239>>, <<239, 187>>, <<255>>, <<254>>,
             <<255, 254, 10, 0>>, <<254, 255, 0, 10>>, <<239, 187, 191, 10>>, <<10>>}
HeaderFor(pre) == IF Len(pre) >= 2 /\ SubSeq(pre, 1, 2) = <<255, 254>> THEN Wide(HeaderText, TRUE)
                  ELSE IF Len(pre) >= 2 /\ SubSeq(pre, 1, 2) = <<254, 255>> THEN Wide(HeaderText, FALSE) ELSE HeaderText

RECURSIVE ByteSeqs(_, _)
ByteSeqs(S, n) == IF n = 0 THEN {<<>>} ELSE LET Q == ByteSeqs(S, n - 1) IN Q \cup {Append(q, b) : q \in Q, b \in S}

PayloadBytes == {10, 13, 0, 97, 78, 195, 169, 255, 216, 226, 130}
FilesWithHeader(n) == {pre \o HeaderFor(pre) \o pl : pre \in Prefixes, pl \in ByteSeqs(PayloadBytes, n)}
\* tiny files (BOM region only): every byte string up to length n over the BOM alphabet
FilesTiny(n) == ByteSeqs({239, 187, 191, 255, 254, 10, 97}, n)

\* UTF-16 payloads built from whole code units, chosen so that the bytes 0A / 00 meet inside and
\* ACROSS unit boundaries (U+0100 U+0A05, U+0A00, U+050A, U+000A, 'a')
Units == {<<1, 0>>, <<10, 5>>, <<0, 10>>, <<97, 0>>, <<0, 97>>, <<10, 0>>, <<5, 10>>}
RECURSIVE UnitSeqs(_)
UnitSeqs(n) == IF n = 0 THEN {<<>>} ELSE LET Q == UnitSeqs(n - 1) IN Q \cup {q \o u : q \in Q, u \in Units}
FilesUnits(n) == {pre \o HeaderFor(pre) \o pl : pre \in {<<255, 254>>, <<254, 255>>}, pl \in UnitSeqs(n)}

Files == IF FileSet = "hdr" THEN FilesWithHeader(FileN)
         ELSE IF FileSet = "units" THEN FilesUnits(FileN) ELSE FilesTiny(FileN)
Faults == IF FaultSet = "none" THEN {NoFault}
          ELSE {NoFault} \cup {[off |-> o, kind |-> k] : o \in 0..30, k \in {"Other", "UnexpectedEof"}}

VARIABLES file, pos, win, intr, fault, pc, enc, head, cur, lines, result, sched
vars == <<file, pos, win, intr, fault, pc, enc, head, cur, lines, result, sched>>

Min2(a, b) == IF a < b THEN a ELSE b
Remaining == Len(file) - pos
AtEof == win = 0 /\ Remaining = 0
\* how far a refill may go: never past a fault offset
Limit == IF fault.off >= 0 THEN Min2(Remaining, fault.off - pos) ELSE Remaining
Window == SubSeq(file, pos + 1, pos + win)

Init == /\ file \in Files /\ fault \in Faults
        /\ pos = 0 /\ win = 0 /\ intr = MaxIntr
        /\ pc = "bom" /\ enc = "utf8" /\ head = <<>> /\ cur = <<>> /\ lines = <<>> /\ result = "none"
        /\ sched = <<>>

Running == pc \in {"bom", "line", "extra"}      \* ("emit" needs no input)
NeedsData == Running /\ win = 0 /\ Remaining > 0

\* ---- environment --------------------------------------------------------------
Refill(n) ==
    /\ NeedsData /\ n >= 1 /\ n <= MaxChunk /\ n <= Limit
    /\ win' = n /\ sched' = Append(sched, n)
    /\ UNCHANGED <<file, pos, intr, fault, pc, enc, head, cur, lines, result>>

\* a transient error: every read site retries, nothing changes
Interrupt ==
    /\ NeedsData /\ intr > 0
    /\ intr' = intr - 1 /\ sched' = Append(sched, 0)
    /\ UNCHANGED <<file, pos, win, fault, pc, enc, head, cur, lines, result>>

\* the non-transient failure at its offset: surfaced as the decode result
Fail ==
    /\ NeedsData /\ fault.off = pos
    /\ pc' = "err" /\ result' = fault.kind
    /\ UNCHANGED <<file, pos, win, intr, fault, enc, head, cur, lines, sched>>

\* ---- read_bom -------------------------------------------------------------------
BomOf(b) == IF Len(b) >= 3 /\ b[1] = 239 /\ b[2] = 187 /\ b[3] = 191 THEN [enc |-> "utf8", n |-> 3]
            ELSE IF Len(b) >= 2 /\ b[1] = 255 /\ b[2] = 254 THEN [enc |-> "le", n |-> 2]
            ELSE IF Len(b) >= 2 /\ b[1] = 254 /\ b[2] = 255 THEN [enc |-> "be", n |-> 2]
            ELSE [enc |-> "utf8", n |-> 0]

\* pinned: 0 < len < 3 => consume(len) and look again (the bytes are gone)
BomDiscardShort ==
    /\ pc = "bom" /\ ~KeepShortChunks /\ win > 0 /\ win < 3
    /\ pos' = pos + win /\ win' = 0
    /\ UNCHANGED <<file, intr, fault, pc, enc, head, cur, lines, result, sched>>

\* pinned: decide on what one chunk shows (>= 3 bytes, or end of input)
BomDecidePinned ==
    /\ pc = "bom" /\ ~KeepShortChunks /\ (win >= 3 \/ AtEof)
    /\ LET b == BomOf(Window) IN
       /\ enc' = b.enc /\ pos' = pos + b.n /\ win' = win - b.n
    /\ pc' = "line"
    /\ UNCHANGED <<file, intr, fault, head, cur, lines, result, sched>>

\* intended: gather up to three bytes across chunks, keep those that are not a BOM
BomGather ==
    /\ pc = "bom" /\ KeepShortChunks /\ win > 0 /\ Len(head) < 3
    /\ LET k == Min2(win, 3 - Len(head)) IN
       /\ head' = head \o SubSeq(file, pos + 1, pos + k)
       /\ pos' = pos + k /\ win' = win - k
    /\ UNCHANGED <<file, intr, fault, pc, enc, cur, lines, result, sched>>

BomDecide ==
    /\ pc = "bom" /\ KeepShortChunks /\ (Len(head) = 3 \/ AtEof)
    /\ LET b == BomOf(head) IN
       /\ enc' = b.enc
       /\ head' = SubSeq(head, b.n + 1, Len(head))         \* non-BOM bytes are read back first
    /\ pc' = "line"
    /\ UNCHANGED <<file, pos, win, intr, fault, cur, lines, result, sched>>

\* ---- read_line ------------------------------------------------------------------
\* the bytes the line reader sees next: the kept head, then the window
Pending == head \o Window
FirstLF(b) == IF \E j \in 1..Len(b) : b[j] = 10
              THEN CHOOSE j \in 1..Len(b) : b[j] = 10 /\ \A m \in 1..(j - 1) : b[m] # 10 ELSE 0

\* consume k bytes of Pending
Take(k) == LET fromHead == Min2(k, Len(head)) IN
           /\ head' = SubSeq(head, fromHead + 1, Len(head))
           /\ pos' = pos + (k - fromHead) /\ win' = win - (k - fromHead)

\* is the LF byte that now ends `c` the low/high half of a real U+000A ?
RealNewline(c, e) ==
    CASE e = "utf8" -> TRUE
      [] e = "le"   -> ~UnitAware \/ Len(c) % 2 = 1               \* low byte first: LF at an even offset
      [] e = "be"   -> ~UnitAware \/ (Len(c) % 2 = 0 /\ c[Len(c) - 1] = 0)

\* read_until(b'\n'): take bytes up to and including the first LF, or everything
UntilStep ==
    /\ pc = "line" /\ Len(Pending) > 0
    /\ LET j == FirstLF(Pending)  k == IF j = 0 THEN Len(Pending) ELSE j
           c == cur \o SubSeq(Pending, 1, k)
       IN /\ Take(k)
          /\ cur' = c
          /\ pc' = IF j = 0 THEN "line"
                   ELSE IF enc = "le" THEN "extra"
                   ELSE IF RealNewline(c, enc) THEN "emit" ELSE "line"
    /\ UNCHANGED <<file, intr, fault, enc, lines, result, sched>>

\* UTF-16LE: the high byte of the newline
ExtraByte ==
    /\ pc = "extra" /\ Len(Pending) > 0
    /\ LET b == Pending[1]  c == Append(cur, b) IN
       /\ Take(1)
       /\ cur' = c
       \* not a newline: keep reading - and if the extra byte is itself an LF it may be the low
       \* byte of the real newline (U+0Axx followed by U+000A), so its own extra byte is next
       /\ pc' = IF ~UnitAware \/ (Len(c) % 2 = 0 /\ b = 0) THEN "emit" ELSE IF b = 10 THEN "extra" ELSE "line"
    /\ UNCHANGED <<file, intr, fault, enc, lines, result, sched>>

\* ... which is missing at the very end of the input
ExtraEof ==
    /\ pc = "extra" /\ Len(Pending) = 0 /\ AtEof
    /\ IF UnitAware THEN pc' = "emit" /\ UNCHANGED result
       ELSE pc' = "err" /\ result' = "UnexpectedEof"
    /\ UNCHANGED <<file, pos, win, intr, fault, enc, head, cur, lines, sched>>

EmitLine ==
    /\ pc = "emit"
    /\ lines' = Append(lines, cur) /\ cur' = <<>> /\ pc' = "line"
    /\ UNCHANGED <<file, pos, win, intr, fault, enc, head, result, sched>>

Eof ==
    /\ pc = "line" /\ Len(Pending) = 0 /\ AtEof
    /\ lines' = IF cur = <<>> THEN lines ELSE Append(lines, cur)
    /\ cur' = <<>> /\ pc' = "done" /\ result' = "ok"
    /\ UNCHANGED <<file, pos, win, intr, fault, enc, head, sched>>

Next == \/ \E n \in 1..MaxChunk : Refill(n)
        \/ Interrupt \/ Fail
        \/ BomDiscardShort \/ BomDecidePinned \/ BomGather \/ BomDecide
        \/ UntilStep \/ ExtraByte \/ ExtraEof \/ EmitLine \/ Eof

Spec == Init /\ [][Next]_vars /\ WF_vars(Next)

\* the delivery history is irrelevant for what can happen next
View == <<file, pos, win, intr, fault, pc, enc, head, cur, lines, result>>

----------------------------------------------------------------------------
\* The declarative rule: a function of the bytes only.
RefBom == BomOf(SubSeq(file, 1, Min2(3, Len(file))))
Payload == SubSeq(file, RefBom.n + 1, Len(file))

\* end offsets (1-based, inclusive) of the lines of payload p in encoding e
IsLineEnd(p, e, j) ==
    CASE e = "utf8" -> p[j] = 10
      [] e = "le"   -> j % 2 = 0 /\ p[j - 1] = 10 /\ p[j] = 0
      [] e = "be"   -> j % 2 = 0 /\ p[j - 1] = 0 /\ p[j] = 10
RECURSIVE Split(_, _, _, _)
Split(p, e, from, j) ==
    IF j > Len(p) THEN
        \* an LE stream cut right after the low byte of a final newline still ends that line
        (IF from <= Len(p) THEN <<SubSeq(p, from, Len(p))>> ELSE <<>>)
    ELSE IF IsLineEnd(p, e, j) THEN <<SubSeq(p, from, j)>> \o Split(p, e, j + 1, j + 1)
    ELSE Split(p, e, from, j + 1)
RefLines == Split(Payload, RefBom.enc, 1, 1)

\* C08: whatever the schedule and the interruptions, the outcome is the rule's
ScheduleIndependent == pc = "done" => (enc = RefBom.enc /\ lines = RefLines)
\* C09: an error result comes from the environment's failure and only from it
ErrorProvenance == /\ (pc = "err" => (fault.off >= 0 /\ result = fault.kind /\ pos = fault.off))
                   /\ (pc = "done" => (result = "ok" /\ (fault.off < 0 \/ fault.off >= Len(file))))
\* no byte is lost or duplicated
Conservation == pc = "done" =>
    LET RECURSIVE Cat(_)
        Cat(ls) == IF ls = <<>> THEN <<>> ELSE Head(ls) \o Cat(Tail(ls))
    IN Cat(lines) = SubSeq(file, Len(file) - Len(Cat(lines)) + 1, Len(file)) /\ Len(file) - Len(Cat(lines)) <= 3
\* every behaviour ends: decoded, or failed at the fault
Terminates == <>(pc \in {"done", "err"})
FaultSurfaces == (fault.off >= 0 /\ fault.off < Len(file)) => <>(pc = "err")

EmitCase == (Emit /\ pc \in {"done", "err"}) =>
    PrintT("CASE " \o ToJson([file |-> file, sched |-> sched, fault |-> fault, enc |-> enc,
                              lines |-> lines, result |-> result]))

=============================================================================
