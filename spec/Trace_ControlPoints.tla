------------------------- MODULE Trace_ControlPoints -------------------------
(***************************************************************************)
(* Trace validation for C13: events recorded from the real                  *)
(* `ControlPoints::add` / `*_point_at` (harness `cp record`) are replayed   *)
(* through ControlPointOps.  Times in the trace are ranks in a pool of      *)
(* distinct f64 values (order-preserving), so the integer model applies to  *)
(* fractional and negative times.                                           *)
(*   {"ev":"Reset"}                       start of a new history             *)
(*   {"ev":"Add","k":..,"p":..,"post":..} an add and the four lists after it *)
(*   {"ev":"Look","k":..,"t":..,"i":..}   a lookup and the index it returned *)
(***************************************************************************)
EXTENDS ControlPointOps, TLC, Json, IOUtils

Rec == ndJsonDeserialize(IOEnv.TRACE)

VARIABLES cp, l
vars == <<cp, l>>

Ev == Rec[l]
More == l <= Len(Rec)

TrInit == cp = EmptyCP /\ l = 1

TrReset == More /\ Ev.ev = "Reset" /\ cp' = EmptyCP /\ l' = l + 1

TrAdd ==
    /\ More /\ Ev.ev = "Add"
    /\ cp' = AddPoint(cp, Ev.k, Ev.p)      \* the spec's action ...
    /\ cp' = Ev.post                       \* ... must explain the logged state
    /\ l' = l + 1

TrLook ==
    /\ More /\ Ev.ev = "Look"
    /\ LookupIdx(cp, Ev.k, Ev.t) = Ev.i
    /\ UNCHANGED cp
    /\ l' = l + 1

TrNext == TrReset \/ TrAdd \/ TrLook
TrSpec == TrInit /\ [][TrNext]_vars

Sorted == StrictlySorted(cp)

Accepted ==
    LET d == TLCGet("stats").diameter IN
    IF d = Len(Rec) + 1 THEN TRUE
    ELSE /\ PrintT(<<"TRACE-REJECTED at event", d, Rec[d]>>)
         /\ FALSE
=============================================================================
