------------------------------- MODULE Framing -------------------------------
(***************************************************************************)
(* C05 / C07 - the decode driver of rosu-map (src/decode.rs,                *)
(* src/format_version.rs, src/section/mod.rs): which line of a file reaches *)
(* which section parser, and which format version is assumed.               *)
(*                                                                          *)
(* A file is a sequence of LINE KINDS (after the reader has split on LF and *)
(* trimmed the end of each line).  The driver state mirrors the code:       *)
(*   phase   "version" -> "first" -> "section" -> "done"                    *)
(*   useCurr the failed version line must be re-examined as a header        *)
(*   i       index of the next unread line                                  *)
(*   version format version given to State::create ("none" = not decided)   *)
(*   section current section                                                *)
(*   deliv   sequence of <<section, line index>> handed to parsers          *)
(* One action per branch of parse_version / parse_first_section /           *)
(* parse_section.  Every action is `Guard(St) /\ Set(F(St))` for a pure     *)
(* state function F, so that Trace_Framing can compose the two actions a    *)
(* single physical line may trigger (VerFail ; FirstReuse).                 *)
(*                                                                          *)
(* Line kinds (harness/src/framing.rs holds the only spelling table and a   *)
(* classifier; classify(spell(k)) = k is checked for every kind):           *)
(*   blank          empty or whitespace-only after end-trimming             *)
(*   comment        starts with "//"                                        *)
(*   icomment       whitespace then "//"                                    *)
(*   ver (v = n)    "osu file format v<n>" with n an integer                *)
(*   verbad         has the version prefix, text after the last 'v' is not  *)
(*                  an integer ("osu file format vX", "... v14 // c", "v")  *)
(*   verindent      whitespace before the prefix (prefix test fails)        *)
(*   hdr (s = S)    exactly "[S]" for one of the 11 known sections          *)
(*   hdrx           any other line: "[Foo]", " [General]", "[General] x",   *)
(*                  "[general]", "[General] // c"  - NOT a header           *)
(*   rec            any other non-blank line (a record for some parser)     *)
(*   recbad         a record the receiving parser rejects                   *)
(***************************************************************************)
EXTENDS Integers, Sequences, FiniteSets, TLC, Json

CONSTANTS
    LineKinds,      \* the alphabet
    MaxLen,         \* files of length 0..MaxLen
    Emit            \* print one CASE json line per completed file

Sections == {"General", "Editor", "Metadata", "Difficulty", "Events", "TimingPoints",
             "Colours", "HitObjects", "Variables", "CatchTheBeat", "Mania"}

\* A line kind is a record [k, v, s]: k the class, v the version number of a
\* "ver" line (else 0), s the section of a "hdr" line (else "").
K(c)   == [k |-> c, v |-> 0, s |-> ""]
Ver(n) == [k |-> "ver", v |-> n, s |-> ""]
Hdr(x) == [k |-> "hdr", v |-> 0, s |-> x]

PlainKinds == {K("blank"), K("comment"), K("icomment"), K("verbad"), K("verindent"),
               K("hdrx"), K("rec"), K("recbad")}
AllKinds == PlainKinds \cup {Ver(14), Ver(9), Ver(3), Ver(128)} \cup {Hdr(x) : x \in Sections}

\* reduced alphabet for the exhaustive quick tier (3 of the 11 headers)
SmallKinds == PlainKinds \cup {Ver(9)} \cup {Hdr("General"), Hdr("Metadata"), Hdr("HitObjects")}

Latest == 14

BlankLike(x)   == x.k = "blank"
CommentLike(x) == x.k \in {"comment", "icomment"}
VerGood(x)     == x.k = "ver"
VerValue(x)    == x.v
IsHeader(x)    == x.k = "hdr"
HeaderOf(x)    == x.s

VARIABLES file, phase, useCurr, i, version, section, deliv
vars == <<file, phase, useCurr, i, version, section, deliv>>

St == [phase |-> phase, useCurr |-> useCurr, i |-> i, version |-> version,
       section |-> section, deliv |-> deliv]
Set(s) == /\ phase' = s.phase /\ useCurr' = s.useCurr /\ i' = s.i /\ version' = s.version
          /\ section' = s.section /\ deliv' = s.deliv
          /\ UNCHANGED file

St0 == [phase |-> "version", useCurr |-> FALSE, i |-> 1, version |-> 0, section |-> "none", deliv |-> <<>>]

AtEof(f, s) == s.i > Len(f)
Cur(f, s)   == f[s.i]

\* ---- parse_version -------------------------------------------------------
G_VerEof(f, s)  == s.phase = "version" /\ AtEof(f, s)
F_VerEof(f, s)  == [s EXCEPT !.phase = "first", !.version = Latest]

G_VerSkipBlank(f, s) == s.phase = "version" /\ ~AtEof(f, s) /\ BlankLike(Cur(f, s))
F_VerSkipBlank(f, s) == [s EXCEPT !.i = @ + 1]

G_VerAccept(f, s) == s.phase = "version" /\ ~AtEof(f, s) /\ VerGood(Cur(f, s))
F_VerAccept(f, s) == [s EXCEPT !.version = VerValue(Cur(f, s)), !.i = @ + 1, !.phase = "first"]

\* any other non-blank line: the version defaults to the latest and the line
\* STAYS CURRENT so that it can still open a section
G_VerFail(f, s) == s.phase = "version" /\ ~AtEof(f, s) /\ ~BlankLike(Cur(f, s)) /\ ~VerGood(Cur(f, s))
F_VerFail(f, s) == [s EXCEPT !.version = Latest, !.useCurr = TRUE, !.phase = "first"]

\* ---- parse_first_section -------------------------------------------------
G_FirstReuse(f, s) == s.phase = "first" /\ s.useCurr
F_FirstReuse(f, s) ==
    IF IsHeader(Cur(f, s))
    THEN [s EXCEPT !.useCurr = FALSE, !.i = @ + 1, !.section = HeaderOf(Cur(f, s)), !.phase = "section"]
    ELSE [s EXCEPT !.useCurr = FALSE, !.i = @ + 1]

G_FirstScan(f, s) == s.phase = "first" /\ ~s.useCurr /\ ~AtEof(f, s)
F_FirstScan(f, s) ==
    IF IsHeader(Cur(f, s))
    THEN [s EXCEPT !.i = @ + 1, !.section = HeaderOf(Cur(f, s)), !.phase = "section"]
    ELSE [s EXCEPT !.i = @ + 1]

G_FirstEof(f, s) == s.phase = "first" /\ ~s.useCurr /\ AtEof(f, s)
F_FirstEof(f, s) == [s EXCEPT !.phase = "done"]

\* ---- parse_section -------------------------------------------------------
Skippable(k) == BlankLike(k) \/ CommentLike(k)

G_SecSkip(f, s) == s.phase = "section" /\ ~AtEof(f, s) /\ Skippable(Cur(f, s))
F_SecSkip(f, s) == [s EXCEPT !.i = @ + 1]

G_SecSwitch(f, s) == s.phase = "section" /\ ~AtEof(f, s) /\ ~Skippable(Cur(f, s)) /\ IsHeader(Cur(f, s))
F_SecSwitch(f, s) == [s EXCEPT !.i = @ + 1, !.section = HeaderOf(Cur(f, s))]

\* the parser's Ok/Err result (rec vs recbad) must not influence the driver
G_SecDeliver(f, s) == s.phase = "section" /\ ~AtEof(f, s) /\ ~Skippable(Cur(f, s)) /\ ~IsHeader(Cur(f, s))
F_SecDeliver(f, s) == [s EXCEPT !.i = @ + 1, !.deliv = Append(@, <<s.section, s.i>>)]

G_SecEof(f, s) == s.phase = "section" /\ AtEof(f, s)
F_SecEof(f, s) == [s EXCEPT !.phase = "done"]

\* ---- actions -------------------------------------------------------------
VerEof       == G_VerEof(file, St)       /\ Set(F_VerEof(file, St))
VerSkipBlank == G_VerSkipBlank(file, St) /\ Set(F_VerSkipBlank(file, St))
VerAccept    == G_VerAccept(file, St)    /\ Set(F_VerAccept(file, St))
VerFail      == G_VerFail(file, St)      /\ Set(F_VerFail(file, St))
FirstReuse   == G_FirstReuse(file, St)   /\ Set(F_FirstReuse(file, St))
FirstScan    == G_FirstScan(file, St)    /\ Set(F_FirstScan(file, St))
FirstEof     == G_FirstEof(file, St)     /\ Set(F_FirstEof(file, St))
SecSkip      == G_SecSkip(file, St)      /\ Set(F_SecSkip(file, St))
SecSwitch    == G_SecSwitch(file, St)    /\ Set(F_SecSwitch(file, St))
SecDeliver   == G_SecDeliver(file, St)   /\ Set(F_SecDeliver(file, St))
SecEof       == G_SecEof(file, St)       /\ Set(F_SecEof(file, St))

Next == \/ VerEof \/ VerSkipBlank \/ VerAccept \/ VerFail
        \/ FirstReuse \/ FirstScan \/ FirstEof
        \/ SecSkip \/ SecSwitch \/ SecDeliver \/ SecEof

\* The one enabled step as a function (the driver is deterministic); used by
\* Trace_Framing to compose the steps triggered by one physical line.
StepF(f, s) ==
    CASE G_VerEof(f, s)       -> F_VerEof(f, s)
      [] G_VerSkipBlank(f, s) -> F_VerSkipBlank(f, s)
      [] G_VerAccept(f, s)    -> F_VerAccept(f, s)
      [] G_VerFail(f, s)      -> F_VerFail(f, s)
      [] G_FirstReuse(f, s)   -> F_FirstReuse(f, s)
      [] G_FirstScan(f, s)    -> F_FirstScan(f, s)
      [] G_FirstEof(f, s)     -> F_FirstEof(f, s)
      [] G_SecSkip(f, s)      -> F_SecSkip(f, s)
      [] G_SecSwitch(f, s)    -> F_SecSwitch(f, s)
      [] G_SecDeliver(f, s)   -> F_SecDeliver(f, s)
      [] G_SecEof(f, s)       -> F_SecEof(f, s)
      [] OTHER                -> s

RECURSIVE RunF(_, _)
RunF(f, s) == IF s.phase = "done" THEN s ELSE RunF(f, StepF(f, s))

\* all files up to MaxLen
RECURSIVE SeqsUpTo(_, _)
SeqsUpTo(S, n) == IF n = 0 THEN {<<>>}
                  ELSE LET R == SeqsUpTo(S, n - 1) IN R \cup {Append(q, x) : q \in R, x \in S}

Init == /\ file \in SeqsUpTo(LineKinds, MaxLen)
        /\ phase = St0.phase /\ useCurr = St0.useCurr /\ i = St0.i /\ version = St0.version
        /\ section = St0.section /\ deliv = St0.deliv

Spec == Init /\ [][Next]_vars /\ WF_vars(Next)

----------------------------------------------------------------------------
\* The declarative rule, written from the property statement.
NonBlank(f) == {j \in 1..Len(f) : ~BlankLike(f[j])}
Min(S) == CHOOSE x \in S : \A y \in S : x <= y
Slot(f) == IF NonBlank(f) = {} THEN 0 ELSE Min(NonBlank(f))          \* the version slot
RefVersion(f) == IF Slot(f) = 0 THEN Latest
                 ELSE IF VerGood(f[Slot(f)]) THEN VerValue(f[Slot(f)]) ELSE Latest
\* header scanning starts after a good version line, or AT the slot line itself
ScanStart(f) == IF Slot(f) = 0 THEN Len(f) + 1
                ELSE IF VerGood(f[Slot(f)]) THEN Slot(f) + 1 ELSE Slot(f)
Headers(f) == {j \in ScanStart(f)..Len(f) : IsHeader(f[j])}
RECURSIVE RefDeliv(_, _, _)
RefDeliv(f, j, sec) ==
    IF j > Len(f) THEN <<>>
    ELSE IF Skippable(f[j]) THEN RefDeliv(f, j + 1, sec)
    ELSE IF IsHeader(f[j]) THEN RefDeliv(f, j + 1, HeaderOf(f[j]))
    ELSE <<<<sec, j>>>> \o RefDeliv(f, j + 1, sec)
Ref(f) == [version |-> RefVersion(f),
           deliv |-> IF Headers(f) = {} THEN <<>>
                     ELSE LET h == Min(Headers(f)) IN RefDeliv(f, h + 1, HeaderOf(f[h]))]

Result == [version |-> version, deliv |-> deliv]

\* (i) refinement
Refines == phase = "done" => Result = Ref(file)

\* the function form agrees with the actions
StepAgrees == [][St' = StepF(file, St)]_vars

\* (ii) blank lines anywhere and comment lines anywhere after the version slot
\* can be removed without changing the outcome (indices renumbered)
Strip(f) == SelectSeq([j \in 1..Len(f) |-> <<f[j], j>>],
                      LAMBDA p : ~BlankLike(p[1]) /\ (~CommentLike(p[1]) \/ p[2] = Slot(f)))
KindsOf(ps) == [j \in 1..Len(ps) |-> ps[j][1]]
Renumber(d, ps) == [j \in 1..Len(d) |-> <<d[j][1], ps[d[j][2]][2]>>]
Insensitive ==
    phase = "done" =>
        LET ps == Strip(file)  r == Ref(KindsOf(ps)) IN
        r.version = version /\ Renumber(r.deliv, ps) = deliv

\* (iii) structural facts
Shape ==
    /\ \A k \in 1..Len(deliv) : /\ deliv[k][1] \in Sections
                                /\ ~Skippable(file[deliv[k][2]]) /\ ~IsHeader(file[deliv[k][2]])
    /\ \A k \in 1..(Len(deliv) - 1) : deliv[k][2] < deliv[k + 1][2]
    /\ phase = "done" => version # 0
    /\ i \in 1..(Len(file) + 1)

\* (iv) every behaviour terminates
Terminates == <>(phase = "done")

\* C07: the driver has no decoder-specific branch, so each decoder sees the
\* SAME deliveries; a specialised decoder ignores the sections it does not
\* handle.  Handles[d] is the table the harness compares real decoders with.
Decoders == {"Beatmap", "General", "Editor", "Metadata", "Difficulty", "Events", "Colors",
             "TimingPoints", "HitObjects"}
Handles(d) ==
    CASE d = "Beatmap"      -> {"General", "Editor", "Metadata", "Difficulty", "Events", "TimingPoints", "Colours", "HitObjects"}
      [] d = "General"      -> {"General"}
      [] d = "Editor"       -> {"Editor"}
      [] d = "Metadata"     -> {"Metadata"}
      [] d = "Difficulty"   -> {"Difficulty"}
      [] d = "Events"       -> {"Events"}
      [] d = "Colors"       -> {"Colours"}
      [] d = "TimingPoints" -> {"General", "TimingPoints"}
      [] d = "HitObjects"   -> {"General", "Difficulty", "Events", "TimingPoints", "HitObjects"}
Seen(d, dl) == SelectSeq(dl, LAMBDA x : x[1] \in Handles(d))
\* what a specialised decoder applies is the projection of what Beatmap applies
C07Projection ==
    \A d \in Decoders : Seen(d, deliv) = Seen(d, Seen("Beatmap", deliv))

\* one CASE line per completed file (spec -> impl replay)
EmitCase ==
    (phase = "done" /\ Emit) =>
        PrintT("CASE " \o ToJson([file |-> file, version |-> version, deliv |-> deliv]))
=============================================================================
