------------------------------ MODULE SampleCodec ------------------------------
(***************************************************************************)
(* C02 for hit samples: decode (Samples!ReadBank + ConvertSound, then the   *)
(* map-level defaults of SamplePoint::apply) -> encode (SoundOf + EncBank)  *)
(* -> decode again preserves sample NAMES and BANKS (volume, custom index,  *)
(* suffix and layering are excluded by the property outside mania).         *)
(***************************************************************************)
EXTENDS Samples, TLC, Json

CONSTANT Dummy

\* SamplePoint::apply for one sample
ApplyPoint(s, sp) ==
    IF s.n = "file" THEN [s EXCEPT !.bank = 1, !.vo = IF s.vo = 0 THEN sp.vol ELSE s.vo, !.cu = 1, !.spec = FALSE, !.lay = FALSE]
    ELSE [s EXCEPT !.cu = IF s.cu = 0 THEN sp.custom ELSE s.cu,
                   !.vo = IF s.vo = 0 THEN sp.vol ELSE s.vo,
                   !.bank = IF s.spec THEN s.bank ELSE sp.bank,
                   !.spec = TRUE]
ApplyAll(smps, sp) == [i \in 1..Len(smps) |-> ApplyPoint(smps[i], sp)]

Bi(n, b1, b2, cu, vo, fn) == [n |-> n, b1c |-> "num", b1 |-> b1, b2c |-> "num", b2 |-> b2, cuc |-> "num", cu |-> cu, voc |-> "num", vo |-> vo, fn |-> fn]
\* (custom indices incl. a negative one, volumes incl. one above 100, a file name with a backslash)
Infos == {Bi(n, b1, b2, cu, vo, fn) : n \in {0, 2, 5}, b1 \in {0, 2, 3}, b2 \in {0, 3}, cu \in {0, 1, 2, -1}, vo \in {0, 40, 150},
                                      fn \in {"", "f.wav", "d\\f.wav"}}
Points == {[bank |-> b, vol |-> v, custom |-> c] : b \in 1..3, v \in {100, 30}, c \in {0, 2}}

VARIABLES bi, sound, sp, mania, done
vars == <<bi, sound, sp, mania, done>>

M1 == ApplyAll(ConvertSound(ReadBank(Bank0, bi, FALSE).v, sound), sp)
EncInfo == EncBank(M1, FALSE, mania)
EncSound == SoundOf(M1)
M2 == ApplyAll(ConvertSound(ReadBank(Bank0, EncInfo, FALSE).v, EncSound), sp)


Init == bi \in Infos /\ sound \in 0..15 /\ sp \in Points /\ mania \in BOOLEAN /\ done = FALSE
Next == ~done /\ done' = TRUE /\ UNCHANGED <<bi, sound, sp, mania>>
        /\ (Dummy = 1 => PrintT("CASE " \o ToJson([bi |-> bi, sound |-> sound, sp |-> sp, mania |-> mania, m1 |-> NamesBanks(M1),
                                                     esnd |-> EncSound, einfo |-> EncInfo, m2 |-> NamesBanks(M2)])))
Spec == Init /\ [][Next]_vars

EncodedAccepted == ReadBank(Bank0, EncInfo, FALSE).ok
NamesAndBanksSurvive == NamesBanks(M2) = NamesBanks(M1)
\* slider nodes are written with banks only
NodeInfo == EncBank(M1, TRUE, mania)
M2Node == ApplyAll(ConvertSound(ReadBank(Bank0, NodeInfo, FALSE).v, EncSound), sp)
NodeNamesAndBanksSurvive == (bi.fn = "" \/ bi.n < 5) => NamesBanks(M2Node) = NamesBanks(M1)
=============================================================================
