-------------------------- MODULE Trace_TimingLines --------------------------
(***************************************************************************)
(* Trace validation for C12: long random (unsorted, duplicated, partly      *)
(* invalid) sequences of timing lines fed to the real parser.  After every  *)
(* line the harness logs the abstract line, whether the public parse        *)
(* function returned Ok, and the FLUSHED view: the four lists obtained by   *)
(* decoding the prefix that ends with this line (public API only).          *)
(*   {"ev":"Reset","g":[mode,bank,vol]}                                     *)
(*   {"ev":"Line","ln":<line record>,"ok":b,"flushed":<cp>}                 *)
(* The very same Accepts / DecLine / Flush operators as in TimingLines      *)
(* must explain every event.                                                *)
(***************************************************************************)
EXTENDS TimingLines, IOUtils

Rec == ndJsonDeserialize(IOEnv.TRACE)

VARIABLE l
tvars == <<vars, l>>
Ev == Rec[l]
More == l <= Len(Rec)

TrInit == gen = [mode |-> "osu", bank |-> 0, vol |-> 100] /\ hist = <<>> /\ st = EmptySt /\ done = FALSE /\ l = 1

TrReset == /\ More /\ Ev.ev = "Reset"
           /\ gen' = Ev.g /\ st' = EmptySt /\ UNCHANGED <<hist, done>>
           /\ l' = l + 1

TrLine ==
    /\ More /\ Ev.ev = "Line"
    /\ Ev.ok = Accepts(Ev.ln)                                  \* accept/reject verdict
    /\ st' = IF Ev.ok THEN DecLine(st, Ev.ln, gen) ELSE st     \* a rejected line is a stutter
    /\ Flush(st').cp = Ev.flushed                              \* the logged lists
    /\ UNCHANGED <<gen, hist, done>>
    /\ l' = l + 1

TrNext == TrReset \/ TrLine
TrSpec == TrInit /\ [][TrNext]_tvars

TrShape == StrictlySorted(st.cp) /\ Clamped(Flush(st).cp, gen) /\ PendingClose

Accepted ==
    LET d == TLCGet("stats").diameter IN
    IF d = Len(Rec) + 1 THEN TRUE
    ELSE /\ PrintT(<<"TRACE-REJECTED at event", d, Rec[d]>>)
         /\ FALSE
=============================================================================
