----------------------------- MODULE CurveLength -----------------------------
(***************************************************************************)
(* C16 / C19 on the integer-length lattice sub-domain                       *)
(* (src/section/hit_objects/slider/curve.rs):                               *)
(*   NaturalPath  = calculate_path for segments whose vertices ARE their    *)
(*                  control points: Linear segments and two-point Bezier    *)
(*                  segments (segment boundaries at typed points, the last  *)
(*                  point always closes, join de-duplication)               *)
(*   CalcLength   = calculate_length, branch by branch                      *)
(*   PosSeg       = position_at: clamp, distance, segment index, weight     *)
(* Control points [x, y, ty] have integer coordinates and every segment has *)
(* an INTEGER length (axis-aligned, 3-4-5, 5-12-13, 6-8-10 steps or a zero  *)
(* step), so cumulative lengths are integers and every branch of the code   *)
(* (|calc - L| < eps, l < L, a == b) is decided exactly; only the position  *)
(* of a re-projected end point is a rational <<xnum, ynum, den>>.           *)
(* Outside this lattice (Bezier with >= 3 points, perfect curves, Catmull)  *)
(* nothing is claimed.                                                      *)
(***************************************************************************)
EXTENDS Integers, Sequences, TLC, Json

CONSTANTS
    MaxSteps,     \* polylines of 1..MaxSteps+1 points
    StepSet,      \* "small" | "full"
    Emit

NoneL == -1000                      \* "no requested length"

Sq(n) == n * n
ISqrt(d) == CHOOSE n \in 0..40 : Sq(n) = d
Dist2(a, b) == Sq(b[1] - a[1]) + Sq(b[2] - a[2])
SegLen(a, b) == ISqrt(Dist2(a, b))
Last(s) == s[Len(s)]

\* ---- calculate_path (lattice segments) -------------------------------------
Pt(c) == <<c.x, c.y>>
RECURSIVE Walk(_, _, _, _)
Walk(cps, i, start, path) ==
    IF i > Len(cps) THEN path
    ELSE IF cps[i].ty = "none" /\ i < Len(cps) THEN Walk(cps, i + 1, start, path)
    ELSE LET seg == [k \in 1..(i - start + 1) |-> Pt(cps[start + k - 1])]
             \* the first vertex is skipped when it repeats the last vertex of the previous segment
             skip == Len(seg) > 1 /\ Len(path) > 0 /\ Last(path) = seg[1]
         IN Walk(cps, i + 1, i, IF skip THEN path \o Tail(seg) ELSE path \o seg)
NaturalPath(cps) == IF Len(cps) = 0 THEN <<>> ELSE Walk(cps, 1, 1, <<>>)

\* ---- calculate_length -------------------------------------------------------
RECURSIVE Cum(_, _, _)
Cum(P, i, acc) == IF i > Len(P) THEN <<>>
                  ELSE LET a == IF i = 1 THEN 0 ELSE acc + SegLen(P[i - 1], P[i]) IN <<a>> \o Cum(P, i + 1, a)
RP(p) == <<p[1], p[2], 1>>

CalcLength(P, L) ==
    IF Len(P) = 0 THEN [path |-> <<>>, lens |-> <<0>>] ELSE
    LET cum  == Cum(P, 1, 0)
        calc == Last(cum)
        n    == Len(P)
        asIs == [path |-> [i \in 1..n |-> RP(P[i])], lens |-> cum]
    IN IF L = NoneL \/ L = calc THEN asIs
       \* osu-stable: no extension when the last two points coincide
       ELSE IF n >= 2 /\ P[n] = P[n - 1] /\ L > calc THEN [asIs EXCEPT !.lens = Append(cum, calc)]
       ELSE IF Len(cum) = 1 THEN asIs
       ELSE
         LET c1 == SubSeq(cum, 1, Len(cum) - 1)              \* "the last length is always incorrect"
             lv == IF \E i \in 1..Len(c1) : c1[i] < L
                   THEN CHOOSE i \in 1..Len(c1) : c1[i] < L /\ \A j \in (i + 1)..Len(c1) : c1[j] >= L
                   ELSE 0
         IN IF lv = 0 THEN [path |-> <<RP(P[1])>>, lens |-> <<0>>]     \* requested length <= 0
            ELSE LET c2   == SubSeq(c1, 1, lv)
                     prev == P[lv]
                     end  == P[lv + 1]
                     len  == SegLen(prev, end)
                     rem  == L - c2[lv]
                     newEnd == <<prev[1] * len + (end[1] - prev[1]) * rem,
                                 prev[2] * len + (end[2] - prev[2]) * rem, len>>
                 IN [path |-> [i \in 1..lv |-> RP(P[i])] \o <<newEnd>>, lens |-> Append(c2, L)]

\* ---- position_at -------------------------------------------------------------
\* progress = pk / 8 ; d = clamp(progress) * dist as the rational dn / 8
PosSeg(R, pk) ==
    LET dist == Last(R.lens)
        ck   == IF pk < 0 THEN 0 ELSE IF pk > 8 THEN 8 ELSE pk
        dn   == ck * dist                                           \* d = dn / 8
        np   == Len(R.path)
    IN IF np = 0 THEN [kind |-> "origin", i |-> 0, wn |-> 0, wd |-> 1, dn |-> dn]
       ELSE
       \* the first index whose cumulative length reaches d (exists: d <= dist)
       LET i == CHOOSE k \in 1..Len(R.lens) : R.lens[k] * 8 >= dn /\ \A m \in 1..(k - 1) : R.lens[m] * 8 < dn
       IN IF i = 1 THEN [kind |-> "vertex", i |-> 1, wn |-> 0, wd |-> 1, dn |-> dn]
          ELSE IF i > np THEN [kind |-> "vertex", i |-> np, wn |-> 0, wd |-> 1, dn |-> dn]
          ELSE [kind |-> "between", i |-> i, wn |-> dn - 8 * R.lens[i - 1], wd |-> 8 * (R.lens[i] - R.lens[i - 1]), dn |-> dn]

----------------------------------------------------------------------------
VARIABLES cps, L, R, done
vars == <<cps, L, R, done>>

StepsSmall == {<<3, 0>>, <<0, 4>>, <<3, 4>>, <<0, 0>>, <<-3, 0>>}
StepsFull  == {<<3, 0>>, <<0, 4>>, <<3, 4>>, <<0, 0>>, <<-3, 0>>, <<-4, 3>>, <<5, 12>>, <<0, -7>>, <<6, -8>>}
Steps == IF StepSet = "small" THEN StepsSmall ELSE StepsFull

RECURSIVE StepSeqs(_)
StepSeqs(n) == IF n = 0 THEN {<<>>} ELSE LET Q == StepSeqs(n - 1) IN Q \cup {Append(q, s) : q \in Q, s \in Steps}

RECURSIVE Points(_, _, _)
Points(steps, k, at) == IF k > Len(steps) THEN <<at>>
                        ELSE <<at>> \o Points(steps, k + 1, <<at[1] + steps[k][1], at[2] + steps[k][2]>>)

\* typings: the first point may be untyped; interior points may start a segment;
\* a "B" point is allowed only where its segment has exactly two vertices
TypingsOf(n) == [1..n -> {"none", "L", "B"}]
ValidTyping(ty) ==
    \A i \in 1..Len(ty) : ty[i] = "B" =>
        /\ i < Len(ty)
        /\ (i + 1 = Len(ty) \/ ty[i + 1] # "none")

CpsOf(pts, ty) == [i \in 1..Len(pts) |-> [x |-> pts[i][1], y |-> pts[i][2], ty |-> ty[i]]]

AllCps == {<<>>} \cup
          UNION {{CpsOf(Points(st, 1, org), ty) : ty \in {t \in TypingsOf(Len(st) + 1) : ValidTyping(t)}} :
                    st \in StepSeqs(MaxSteps), org \in {<<0, 0>>, <<-5, 7>>}}

LChoices(c) ==
    LET P == NaturalPath(c)
        cum == IF Len(P) = 0 THEN <<0>> ELSE Cum(P, 1, 0)
        nat == Last(cum)
    IN {NoneL, -3, 0, 1, nat, nat + 7, nat + 1, 100000}
       \cup {cum[i] : i \in 1..Len(cum)} \cup {cum[i] + 1 : i \in 1..Len(cum)} \cup {cum[i] - 1 : i \in 1..Len(cum)}

\* (the requested length is chosen in the Compute step, not in Init: TLC enumerates initial states on one thread
\* but successor states on all workers)
Unset == -2000
Init == /\ cps \in AllCps
        /\ L = Unset
        /\ R = [path |-> <<>>, lens |-> <<0>>] /\ done = FALSE

Probes == {-2, 0, 1, 3, 4, 7, 8, 10}

Compute ==
    /\ ~done /\ done' = TRUE
    /\ \E l \in LChoices(cps) :
        /\ L' = l
        /\ R' = CalcLength(NaturalPath(cps), l)
        /\ (Emit => PrintT("CASE " \o ToJson(
                [cps |-> cps, L |-> l, nat |-> NaturalPath(cps), path |-> R'.path, lens |-> R'.lens,
                 pos |-> [k \in 1..13 |-> PosSeg(R', k - 3)]])))
    /\ UNCHANGED cps

Next == Compute
Spec == Init /\ [][Next]_vars

----------------------------------------------------------------------------
\* C16: the contract of the property statement
NatLen == LET P == NaturalPath(cps) IN IF Len(P) = 0 THEN 0 ELSE Last(Cum(P, 1, 0))
NPts == Len(NaturalPath(cps))
DupEnd == LET P == NaturalPath(cps) IN Len(P) >= 2 /\ P[Len(P)] = P[Len(P) - 1]

Contract == done =>
    /\ R.lens[1] = 0
    /\ \A i \in 1..(Len(R.lens) - 1) : R.lens[i] <= R.lens[i + 1]
    /\ Len(R.lens) \in {Len(R.path), Len(R.path) + 1}
    /\ (L = NoneL => Last(R.lens) = NatLen)
    \* total distance is exactly L ...
    /\ (L # NoneL /\ L > 0 /\ NPts >= 2 /\ ~(DupEnd /\ L > NatLen)) => Last(R.lens) = L
    \* ... unless the natural path is a single point or ends in a repeated point while shorter than L
    /\ (L # NoneL /\ NPts >= 1 /\ (NPts = 1 \/ (DupEnd /\ L > NatLen))) => Last(R.lens) = NatLen
    /\ (L # NoneL /\ L <= 0 /\ L # NatLen /\ NPts >= 2) => (R.lens = <<0>> /\ Len(R.path) = 1)

\* the adjusted curve is the natural curve cut at L / extended along its last segment:
\* every vertex except the last one is a natural vertex, in order
CutOrExtend == done =>
    LET P == NaturalPath(cps) IN
    /\ \A i \in 1..(Len(R.path) - 1) : R.path[i] = RP(P[i])
    /\ Len(R.path) <= Len(P)
    /\ (Len(R.path) >= 2 /\ L # NoneL /\ L # NatLen /\ ~(DupEnd /\ L > NatLen)) =>
          \* the last vertex lies on the line through the segment it replaces, at distance rem from its start
          LET k == Len(R.path)  e == R.path[k]  a == P[k - 1]  b == P[k]  len == SegLen(a, b)
              rem == L - R.lens[k - 1]
          IN /\ e[3] = len
             /\ e[1] - a[1] * len = (b[1] - a[1]) * rem
             /\ e[2] - a[2] * len = (b[2] - a[2]) * rem
             /\ rem > 0

\* C19: clamping, the distance for a progress, vertices at their cumulative lengths
PosFacts == done =>
    /\ PosSeg(R, -2) = PosSeg(R, 0) /\ PosSeg(R, 10) = PosSeg(R, 8)
    /\ (Len(R.path) > 0 => PosSeg(R, 0).kind = "vertex" /\ PosSeg(R, 0).i = 1)
    /\ (Len(R.path) > 0 =>
            LET e == PosSeg(R, 8) IN
            \* progress 1 is the last point (or a point equal to it)
            \/ (e.kind = "vertex" /\ R.path[e.i] = Last(R.path))
            \/ (e.kind = "between" /\ e.wn = e.wd /\ R.path[e.i] = Last(R.path)))
    /\ \A k \in Probes : LET e == PosSeg(R, k) IN
            /\ e.dn = (IF k < 0 THEN 0 ELSE IF k > 8 THEN 8 ELSE k) * Last(R.lens)
            /\ (e.kind = "between" => e.wn > 0 /\ e.wn <= e.wd)
=============================================================================
