-------------------------------- MODULE Writer --------------------------------
(***************************************************************************)
(* C09, write side - `Beatmap::encode` on a caller-supplied `Write`.        *)
(* The encoder produces its output through a sequence of `write_all` calls  *)
(* (each one loops over `write`) and a final `flush`, every result being    *)
(* propagated with `?`.  The ENVIRONMENT is the writer: per `write` call it *)
(* accepts some bytes, accepts nothing (-> WriteZero), reports a transient  *)
(* Interrupted (retried), or fails for good; `flush` may fail, or report a  *)
(* transient Interrupted (retried as well).                                 *)
(*   total      bytes the encoder has to write (abstract)                   *)
(*   chunkLeft  bytes left in the current write_all payload (the encoder's  *)
(*              internal chunking is arbitrary: chosen nondeterministically)*)
(*   written    bytes the writer has accepted                               *)
(*   script     the writer's decisions so far (for replay)                  *)
(***************************************************************************)
EXTENDS Integers, Sequences, TLC, Json

CONSTANTS Total, MaxAccept, MaxIntr, Emit

VARIABLES written, chunkLeft, intr, pc, result, script, calls, callsAfterFail
vars == <<written, chunkLeft, intr, pc, result, script, calls, callsAfterFail>>

Init == written = 0 /\ chunkLeft = 0 /\ intr = MaxIntr /\ pc = "next" /\ result = "none" /\ script = <<>>
        /\ calls = 0 /\ callsAfterFail = 0

\* the encoder starts the next write_all with a payload of m bytes, or flushes when everything is out
NextChunk(m) == /\ pc = "next" /\ written < Total /\ m >= 1 /\ m <= Total - written
                /\ chunkLeft' = m /\ pc' = "write"
                /\ UNCHANGED <<written, intr, result, script, calls, callsAfterFail>>
ToFlush == pc = "next" /\ written = Total /\ pc' = "flush"
           /\ UNCHANGED <<written, chunkLeft, intr, result, script, calls, callsAfterFail>>

\* one `write` call of the write_all loop and the writer's answer
Accept(k) == /\ pc = "write" /\ k >= 1 /\ k <= MaxAccept
             /\ LET n == IF k < chunkLeft THEN k ELSE chunkLeft IN
                /\ written' = written + n /\ chunkLeft' = chunkLeft - n
                /\ pc' = IF chunkLeft - n = 0 THEN "next" ELSE "write"
             /\ script' = Append(script, k) /\ calls' = calls + 1
             /\ UNCHANGED <<intr, result, callsAfterFail>>
AcceptZero == /\ pc = "write" /\ pc' = "err" /\ result' = "WriteZero"
              /\ script' = Append(script, 0) /\ calls' = calls + 1
              /\ UNCHANGED <<written, chunkLeft, intr, callsAfterFail>>
Interrupt == /\ pc = "write" /\ intr > 0 /\ intr' = intr - 1
             /\ script' = Append(script, -1) /\ calls' = calls + 1
             /\ UNCHANGED <<written, chunkLeft, pc, result, callsAfterFail>>
Fail(kind) == /\ pc = "write" /\ pc' = "err" /\ result' = kind
              /\ script' = Append(script, IF kind = "Other" THEN -2 ELSE -3) /\ calls' = calls + 1
              /\ UNCHANGED <<written, chunkLeft, intr, callsAfterFail>>
FlushOk == pc = "flush" /\ pc' = "done" /\ result' = "ok" /\ script' = Append(script, 100)
           /\ UNCHANGED <<written, chunkLeft, intr, calls, callsAfterFail>>
FlushFail == pc = "flush" /\ pc' = "err" /\ result' = "Other" /\ script' = Append(script, -100)
             /\ UNCHANGED <<written, chunkLeft, intr, calls, callsAfterFail>>
\* a transient Interrupted from `flush` is retried like one from `write` (the statement makes no difference)
FlushInterrupt == /\ pc = "flush" /\ intr > 0 /\ intr' = intr - 1
                  /\ script' = Append(script, -101)
                  /\ UNCHANGED <<written, chunkLeft, pc, result, calls, callsAfterFail>>

Next == \/ \E m \in 1..Total : NextChunk(m)
        \/ ToFlush
        \/ \E k \in 1..MaxAccept : Accept(k)
        \/ AcceptZero \/ Interrupt \/ Fail("Other") \/ Fail("PermissionDenied") \/ FlushOk \/ FlushFail \/ FlushInterrupt
Spec == Init /\ [][Next]_vars /\ WF_vars(Next)

\* the encoder's internal chunking and the script are irrelevant for what can happen next
View == <<written, chunkLeft, intr, pc, result>>

\* C09: Ok iff every byte was accepted and the flush succeeded; an error is the writer's
OkMeansComplete == (pc = "done") => (result = "ok" /\ written = Total)
ErrorIsTheWriters == (pc = "err") => result \in {"WriteZero", "Other", "PermissionDenied"}
NeverMoreThanAsked == written <= Total
Terminates == <>(pc \in {"done", "err"})

EmitCase == (Emit /\ pc \in {"done", "err"}) => PrintT("CASE " \o ToJson([script |-> script, result |-> result]))
=============================================================================
