------------------------------- MODULE Records -------------------------------
(***************************************************************************)
(* C11 (and the key/value, event and colour part of C06) - how the records  *)
(* of [General], [Editor], [Metadata], [Difficulty], [Events] and           *)
(* [Colours] set their fields.  This module is written from the FORMAT      *)
(* RULES of the property statement, not from the Rust call graph: it is the *)
(* "independent table-driven reference".                                    *)
(*                                                                          *)
(* A key/value record is [k key, vc value class, vi integer payload,        *)
(* vs string payload]; the value is the trimmed text after the FIRST colon. *)
(* Value classes:                                                           *)
(*   int n | float (vi hundredths) | max 2^31-1 | min -(2^31-1) | over 2^31 *)
(*   | under -2^31 | big 1e10 | nan | inf | empty | garbage                 *)
(*   (over / under also on the float fields: rejected by the statement,     *)
(*   let through by the single-precision ones - see ParseFW)                *)
(*   | cmt  "n // c"  (a comment follows; not stripped in [Metadata])       *)
(*   | colon "n:7"    (a second colon: part of the value)                   *)
(*   | str  a text from the string pool                                     *)
(* Numbers are scaled by 100 in the state (5 -> 500, 0.25 -> 25).           *)
(* An event record is [t type, f file class, a, b numbers, n field count];  *)
(* a colour record is [k key, r, g, b, n components, cc class].             *)
(***************************************************************************)
EXTENDS Integers, Sequences, TLC, Json, SequencesExt

CONSTANTS Section, MaxRecs, Emit, ColonSplit
    \* ColonSplit: "first" = value is everything after the first colon (the rule);
    \*             "second" = value is the text between the first and second colon

Clamp(x, lo, hi) == IF x < lo THEN lo ELSE IF x > hi THEN hi ELSE x
Rej == [ok |-> FALSE, v |-> 0]
Acc(v) == [ok |-> TRUE, v |-> v]

\* does the section strip `//` comments from the line before splitting?
Strips(sec) == sec # "Metadata"

\* ---- conversions ------------------------------------------------------------
\* the value as the converter sees it: a comment is cut off (or not), the
\* second-colon tail is part of it (or, in the deviating model, cut off)
Eff(val, sec) ==
    IF val.vc = "cmt" THEN (IF Strips(sec) THEN [val EXCEPT !.vc = "int"] ELSE [val EXCEPT !.vc = "garbage"])
    ELSE IF val.vc = "colon" THEN (IF ColonSplit = "first" THEN [val EXCEPT !.vc = "garbage"] ELSE [val EXCEPT !.vc = "int"])
    ELSE val

ParseI32(v) == CASE v.vc = "int" -> Acc(v.vi)
                 [] v.vc = "max" -> Acc(2147483647)
                 [] v.vc = "min" -> Acc(-2147483647)
                 [] OTHER -> Rej
\* floats in hundredths; |x| <= 2^31-1, NaN rejected
ParseF(v) == CASE v.vc = "int" -> Acc(v.vi * 100)
               [] v.vc = "float" -> Acc(v.vi)
               [] OTHER -> Rej
\* The five single-precision fields.  The limit 2^31-1 is not a single-precision number: the code compares with
\* its rounding, 2^31, so a text between 2^31-1 and 2^31+128 (which itself rounds to 2^31) gets through.  The
\* statement says "within +-(2^31-1)": ParseF rejects; ParseFW is the code's reading (known finding, C11), the
\* sentinels +-(2^31-1) standing for +-2^31 (hundredths of it do not fit TLC's integers; "max"/"min" are not in the
\* alphabet of these fields).
F32Keys == {"StackLeniency", "HPDrainRate", "CircleSize", "OverallDifficulty", "ApproachRate"}
ParseFW(v, k) == IF k \in F32Keys /\ v.vc = "over" THEN Acc(2147483647)
                 ELSE IF k \in F32Keys /\ v.vc = "under" THEN Acc(-2147483647)
                 ELSE ParseF(v)
Flag(v) == LET r == ParseI32(v) IN IF r.ok THEN Acc(IF r.v = 1 THEN 1 ELSE 0) ELSE Rej
\* exact digit strings only
Mode(v) == IF v.vc = "int" /\ v.vi \in 0..3 /\ v.vs = "" THEN Acc(v.vi) ELSE Rej
\* digit or name
EnumOf(v, names) ==
    IF v.vc = "int" /\ v.vi \in 0..3 /\ v.vs = "" THEN Acc(v.vi)
    ELSE IF v.vc = "str" /\ \E i \in 1..4 : names[i] = v.vs THEN Acc((CHOOSE i \in 1..4 : names[i] = v.vs) - 1)
    ELSE Rej
BankNames == <<"None", "Normal", "Soft", "Drum">>
CountdownNames == <<"None", "Normal", "Half speed", "Double speed">>

\* text of a value as a string field sees it
StrOf(val, sec) ==
    CASE val.vc = "str" -> val.vs
      [] val.vc = "empty" -> ""
      [] val.vc = "int" -> "#int"          \* concretised by the harness from vi
      [] val.vc = "cmt" -> IF Strips(sec) THEN "#int" ELSE "#int // c"
      [] val.vc = "colon" -> IF ColonSplit = "first" THEN "#int:7" ELSE "#int"
      [] OTHER -> "#" \o val.vc
\* `\` -> `/`
StdPath(s) == CASE s = "p\\q" -> "p/q" [] s = "p\\\\q" -> "p//q" [] OTHER -> s      \* nothing else: quotes stay, doubled separators stay

\* ---- field tables -------------------------------------------------------------
\* type of each recognised key per section
TypeOf(sec, k) ==
    CASE sec = "General" ->
            (CASE k = "AudioFilename" -> "path" [] k = "AudioLeadIn" -> "i32" [] k = "PreviewTime" -> "i32"
               [] k = "SampleSet" -> "bank" [] k = "SampleVolume" -> "i32" [] k = "StackLeniency" -> "f"
               [] k = "Mode" -> "mode" [] k = "LetterboxInBreaks" -> "flag" [] k = "SpecialStyle" -> "flag"
               [] k = "WidescreenStoryboard" -> "flag" [] k = "EpilepsyWarning" -> "flag"
               [] k = "SamplesMatchPlaybackRate" -> "flag" [] k = "Countdown" -> "countdown"
               [] k = "CountdownOffset" -> "i32" [] OTHER -> "unknown")
      [] sec = "Editor" ->
            (CASE k = "Bookmarks" -> "bookmarks" [] k = "DistanceSpacing" -> "f" [] k = "BeatDivisor" -> "i32" [] k = "GridSize" -> "i32"
               [] k = "TimelineZoom" -> "f" [] OTHER -> "unknown")
      [] sec = "Metadata" ->
            (CASE k \in {"Title", "TitleUnicode", "Artist", "ArtistUnicode", "Creator", "Version", "Source", "Tags"} -> "str"
               [] k \in {"BeatmapID", "BeatmapSetID"} -> "i32" [] OTHER -> "unknown")
      [] sec = "Difficulty" ->
            (CASE k \in {"HPDrainRate", "CircleSize"} -> "f" [] k = "OverallDifficulty" -> "od" [] k = "ApproachRate" -> "ar"
               [] k = "SliderMultiplier" -> "sm" [] k = "SliderTickRate" -> "tr" [] OTHER -> "unknown")

\* Bookmarks: a comma separated list; every entry that is not a plain integer is dropped, the
\* record itself is never rejected.  "bm" values index this table of list texts:
\*   1 "1000,2000,3000"   2 "5"   3 ""   4 "1, 2" (the second entry has a leading space)   5 "x,7,-3"
BmTable == << <<1000, 2000, 3000>>, <<5>>, <<>>, <<1>>, <<7, -3>> >>
ConvBm(val, sec) ==
    LET v == Eff(val, sec) IN
    CASE v.vc = "bm" -> BmTable[v.vi]
      [] v.vc = "int" -> <<v.vi>>
      [] v.vc = "max" -> <<2147483647>>
      [] v.vc = "min" -> <<-2147483647>>
      [] OTHER -> <<>>
\* the code's reading: entries go through the standard library's integer parser, whose range is one wider at the
\* bottom, so the entry -2^31 is kept (known finding, C11)
ConvBmW(val, sec) ==
    IF Eff(val, sec).vc = "under" THEN <<-2147483647 - 1>> ELSE ConvBm(val, sec)

ConvX(ty, val, sec, w) ==
    LET v == Eff(val, sec) IN
    CASE ty = "i32" -> ParseI32(v)                               \* integer fields are not scaled
      [] ty \in {"f", "od", "ar"} -> IF w THEN ParseFW(v, val.k) ELSE ParseF(v)
      [] ty = "sm" -> LET r == ParseF(v) IN IF r.ok THEN Acc(Clamp(r.v, 40, 360)) ELSE Rej
      [] ty = "tr" -> LET r == ParseF(v) IN IF r.ok THEN Acc(Clamp(r.v, 50, 800)) ELSE Rej
      [] ty = "flag" -> Flag(v)
      [] ty = "mode" -> Mode(v)
      [] ty = "bank" -> EnumOf(v, BankNames)
      [] ty = "countdown" -> EnumOf(v, CountdownNames)
Conv(ty, val, sec) == ConvX(ty, val, sec, FALSE)

Defaults(sec) ==
    CASE sec = "General" -> [AudioFilename |-> "", AudioLeadIn |-> 0, PreviewTime |-> -1, SampleSet |-> 0, SampleVolume |-> 100,
                            StackLeniency |-> 70, Mode |-> 0, LetterboxInBreaks |-> 0, SpecialStyle |-> 0, WidescreenStoryboard |-> 0,
                            EpilepsyWarning |-> 0, SamplesMatchPlaybackRate |-> 0, Countdown |-> 1, CountdownOffset |-> 0]
      [] sec = "Editor" -> [Bookmarks |-> <<>>, DistanceSpacing |-> 100, BeatDivisor |-> 4, GridSize |-> 0, TimelineZoom |-> 100]
      [] sec = "Metadata" -> [Title |-> "", TitleUnicode |-> "", Artist |-> "", ArtistUnicode |-> "", Creator |-> "", Version |-> "",
                              Source |-> "", Tags |-> "", BeatmapID |-> -1, BeatmapSetID |-> 0]
      [] sec = "Difficulty" -> [HPDrainRate |-> 500, CircleSize |-> 500, OverallDifficulty |-> 500, ApproachRate |-> 500,
                                SliderMultiplier |-> 140, SliderTickRate |-> 100, hasAR |-> FALSE]

\* one record applied to a section state; [ok, st]
ApplyKVX(st, rec, sec, w) ==
    LET ty == TypeOf(sec, rec.k) IN
    IF ty = "unknown" THEN [ok |-> TRUE, st |-> st]                  \* unknown key: ignored, not an error
    ELSE IF ty = "str" THEN [ok |-> TRUE, st |-> [st EXCEPT ![rec.k] = StrOf(rec, sec)]]
    ELSE IF ty = "path" THEN [ok |-> TRUE, st |-> [st EXCEPT ![rec.k] = StdPath(StrOf(rec, sec))]]
    ELSE IF ty = "bookmarks" THEN [ok |-> TRUE, st |-> [st EXCEPT ![rec.k] = IF w THEN ConvBmW(rec, sec) ELSE ConvBm(rec, sec)]]
    ELSE LET r == ConvX(ty, rec, sec, w) IN
         IF ~r.ok THEN [ok |-> FALSE, st |-> st]                      \* invalid value: field untouched
         ELSE IF ty = "od" THEN [ok |-> TRUE, st |-> [st EXCEPT !.OverallDifficulty = r.v,
                                                               !.ApproachRate = IF st.hasAR THEN @ ELSE r.v]]
         ELSE IF ty = "ar" THEN [ok |-> TRUE, st |-> [st EXCEPT !.ApproachRate = r.v, !.hasAR = TRUE]]
         ELSE [ok |-> TRUE, st |-> [st EXCEPT ![rec.k] = r.v]]

ApplyKV(st, rec, sec) == ApplyKVX(st, rec, sec, FALSE)

\* ---- events -------------------------------------------------------------------
Ev0 == [bg |-> "", breaks |-> <<>>]
\* quotes trimmed, `\` -> `/`; a doubled backslash is one separator (the harness spells p\q.jpg both ways)
CleanName(f) == IF f = "p\\q.jpg" THEN "p/q.jpg" ELSE f
IsVideoExt(f) == f \in {"v.mp4", "V.AVI", "v.flv"}
\* t: "bg" | "video" | "sprite" | "break" | "other" (colour/sample/animation) | "bad" (unknown type)
ApplyEv(st, e) ==
    IF e.n < 3 THEN [ok |-> FALSE, st |-> st]
    ELSE CASE e.t = "bad" -> [ok |-> FALSE, st |-> st]
           [] e.t = "other" -> [ok |-> TRUE, st |-> st]
           [] e.t = "bg" -> [ok |-> TRUE, st |-> [st EXCEPT !.bg = CleanName(e.f)]]
           \* a "video" whose file is not a video (an image) is the background
           [] e.t = "video" -> [ok |-> TRUE, st |-> IF IsVideoExt(e.f) \/ e.f \in {"ab", ""} THEN st ELSE [st EXCEPT !.bg = CleanName(e.f)]]
           \* the first sprite fills an EMPTY background; its file is the 4th field
           [] e.t = "sprite" -> IF st.bg # "" THEN [ok |-> TRUE, st |-> st]
                                ELSE IF e.n < 4 THEN [ok |-> FALSE, st |-> st]
                                ELSE [ok |-> TRUE, st |-> [st EXCEPT !.bg = CleanName(e.f)]]
           \* a break never ends before it starts
           [] e.t = "break" -> IF e.ac # "num" \/ e.bc # "num" THEN [ok |-> FALSE, st |-> st]
                               ELSE [ok |-> TRUE, st |-> [st EXCEPT !.breaks = Append(@, <<e.a, IF e.b < e.a THEN e.a ELSE e.b>>)]]

\* ---- colours --------------------------------------------------------------------
Col0 == [combo |-> <<>>, named |-> <<>>]
IdxNamed(l, name) == IF \E i \in 1..Len(l) : l[i][1] = name THEN CHOOSE i \in 1..Len(l) : l[i][1] = name ELSE 0
\* cc: "ok" | "bad" (a component is not 0..255) ; n components (3 or 4 are fine; alpha ignored)
ApplyCol(st, c) ==
    IF c.n < 3 \/ c.n > 4 \/ c.cc # "ok" THEN [ok |-> FALSE, st |-> st]
    ELSE IF c.combo THEN [ok |-> TRUE, st |-> [st EXCEPT !.combo = Append(@, <<c.r, c.g, c.b>>)]]
    ELSE LET i == IdxNamed(st.named, c.k) IN
         IF i > 0 THEN [ok |-> TRUE, st |-> [st EXCEPT !.named[i] = <<c.k, c.r, c.g, c.b>>]]
         ELSE [ok |-> TRUE, st |-> [st EXCEPT !.named = Append(@, <<c.k, c.r, c.g, c.b>>)]]

----------------------------------------------------------------------------
\* alphabets
V(c, i, s) == [vc |-> c, vi |-> i, vs |-> s]
NumVals == {V("int", 0, ""), V("int", 1, ""), V("int", 2, ""), V("int", 3, ""), V("int", 5, ""), V("int", -1, ""),
            V("float", 25, ""), V("float", 950, ""), V("float", 30, ""), V("float", 1000, ""),
            V("max", 0, ""), V("min", 0, ""), V("big", 0, ""), V("nan", 0, ""), V("inf", 0, ""),
            V("empty", 0, ""), V("garbage", 0, ""), V("cmt", 2, ""), V("colon", 2, "")}
IntOnlyVals == {V("over", 0, ""), V("under", 0, "")}
StrVals == {V("str", 0, s) : s \in {"a", "a b", "x:y", "p\\q", "p\\\\q", "\"q\"", "Soft", "Half speed", "Normal", "Drum", "[General]", "osu file format v9"}}
           \cup {V("empty", 0, ""), V("cmt", 2, ""), V("colon", 2, ""), V("int", 2, "")}

KeysOf(sec) ==
    CASE sec = "General" -> {"AudioFilename", "AudioLeadIn", "PreviewTime", "SampleSet", "SampleVolume", "StackLeniency", "Mode",
                             "LetterboxInBreaks", "SpecialStyle", "WidescreenStoryboard", "EpilepsyWarning",
                             "SamplesMatchPlaybackRate", "Countdown", "CountdownOffset"}
      [] sec = "Editor" -> {"Bookmarks", "DistanceSpacing", "BeatDivisor", "GridSize", "TimelineZoom"}
      [] sec = "Metadata" -> {"Title", "TitleUnicode", "Artist", "ArtistUnicode", "Creator", "Version", "Source", "Tags",
                              "BeatmapID", "BeatmapSetID"}
      [] sec = "Difficulty" -> {"HPDrainRate", "CircleSize", "OverallDifficulty", "ApproachRate", "SliderMultiplier", "SliderTickRate"}

ValsFor(sec, k) ==
    LET ty == TypeOf(sec, k) IN
    CASE ty \in {"str", "path"} -> StrVals
      [] ty \in {"bank", "countdown"} -> NumVals \cup {V("str", 0, s) : s \in {"Soft", "Half speed", "Normal", "Drum", "None", "soft"}}
      [] ty = "bookmarks" -> NumVals \cup IntOnlyVals \cup {V("bm", i, "") : i \in 1..5}
      [] ty \in {"i32", "flag", "mode"} -> NumVals \cup IntOnlyVals
      [] OTHER -> (NumVals \ {V("max", 0, ""), V("min", 0, "")}) \cup IntOnlyVals   \* (2^31-1)*100 does not fit TLC's integers

KVAlpha(sec) ==
    SetToSeq(UNION {{[k |-> k, vc |-> v.vc, vi |-> v.vi, vs |-> v.vs] : v \in ValsFor(sec, k)} : k \in KeysOf(sec)})
    \o <<[k |-> "Foo", vc |-> "int", vi |-> 1, vs |-> ""], [k |-> "", vc |-> "int", vi |-> 1, vs |-> ""],
         [k |-> "mode", vc |-> "int", vi |-> 1, vs |-> ""], [k |-> "#nocolon", vc |-> "empty", vi |-> 0, vs |-> ""]>>

E(t, f, n, ac, a, bc, b) == [t |-> t, f |-> f, n |-> n, ac |-> ac, a |-> a, bc |-> bc, b |-> b]
EvAlpha ==
    SetToSeq({E(t, f, n, "num", 0, "num", 0) : t \in {"bg", "video", "sprite"}, f \in {"a.jpg", "b.png", "v.mp4", "V.AVI", "ab", "p\\q.jpg", ""},
                                                n \in {2, 3, 4, 5}})
    \o SetToSeq({E("break", "", n, ac, a, bc, b) : n \in {2, 3}, ac \in {"num", "bad"}, a \in {100, 300}, bc \in {"num", "bad"}, b \in {200, 50}})
    \o <<E("other", "", 3, "num", 0, "num", 0), E("bad", "", 3, "num", 0, "num", 0), E("other", "", 1, "num", 0, "num", 0)>>

C(k, combo, r, g, b, n, cc) == [k |-> k, combo |-> combo, r |-> r, g |-> g, b |-> b, n |-> n, cc |-> cc]
ColAlpha ==
    SetToSeq({C(k, k \in {"Combo1", "Combo2", "Combo"}, r, 2, 3, n, "ok") : k \in {"Combo1", "Combo2", "Combo", "SliderBorder", "X"},
                                                                          r \in {0, 255}, n \in {2, 3, 4, 5}})
    \o SetToSeq({C(k, k = "Combo1", 1, 2, 3, 3, "bad") : k \in {"Combo1", "SliderBorder"}})
    \o <<C("#nocolon", FALSE, 0, 0, 0, 0, "ok")>>

Alpha == CASE Section \in {"General", "Editor", "Metadata", "Difficulty"} -> KVAlpha(Section)
           [] Section = "Events" -> EvAlpha
           [] Section = "Colours" -> ColAlpha

St0 == CASE Section \in {"General", "Editor", "Metadata", "Difficulty"} -> Defaults(Section)
         [] Section = "Events" -> Ev0
         [] Section = "Colours" -> Col0

Apply(st, rec) == CASE Section \in {"General", "Editor", "Metadata", "Difficulty"} -> ApplyKV(st, rec, Section)
                    [] Section = "Events" -> ApplyEv(st, rec)
                    [] Section = "Colours" -> ApplyCol(st, rec)

VARIABLES hist, st, acc, done
vars == <<hist, st, acc, done>>

Init == hist = <<>> /\ st = St0 /\ acc = <<>> /\ done = FALSE

Rec(i) ==
    /\ LET r == Apply(st, Alpha[i]) IN
       /\ st' = r.st
       /\ acc' = Append(acc, r.ok)
    /\ hist' = Append(hist, i)
    /\ UNCHANGED done

\* the same history under the code's reading of the two limits (see ParseFW, ConvBmW): what the replay names
\* as the known findings when the decoded value equals it and not `st`
RECURSIVE FoldW(_, _, _)
FoldW(s, a, h) == IF h = <<>> THEN [st |-> s, acc |-> a]
                  ELSE LET r == ApplyKVX(s, Alpha[Head(h)], Section, TRUE) IN FoldW(r.st, Append(a, r.ok), Tail(h))
StW == IF Section \in {"General", "Editor", "Metadata", "Difficulty"} THEN FoldW(St0, <<>>, hist) ELSE [st |-> st, acc |-> acc]

Finish == /\ ~done /\ done' = TRUE
          /\ (Emit => PrintT("CASE " \o ToJson([sec |-> Section, h |-> hist, st |-> st, stw |-> StW.st, accw |-> StW.acc, acc |-> acc])))
          /\ UNCHANGED <<hist, st, acc>>

Next == (~done /\ Len(hist) < MaxRecs /\ \E i \in 1..Len(Alpha) : Rec(i)) \/ Finish
Spec == Init /\ [][Next]_vars

----------------------------------------------------------------------------
\* a rejected record is a stutter on the state (C06 for these sections)
RejectStutters == [][\A i \in 1..Len(Alpha) : (hist' = Append(hist, i) /\ ~Apply(st, Alpha[i]).ok) => st' = st]_vars

\* "last valid occurrence wins": for plain fields the state equals the value of
\* the last accepted record naming the field, else the default
IsKV == Section \in {"General", "Editor", "Metadata", "Difficulty"}
LastValid(k) ==
    LET idx == {j \in 1..Len(hist) : Alpha[hist[j]].k = k /\ acc[j]} IN
    IF idx = {} THEN 0 ELSE CHOOSE j \in idx : \A m \in idx : m <= j
LastWins == IsKV =>
    \A k \in KeysOf(Section) :
        LET ty == TypeOf(Section, k)  j == LastValid(k) IN
        (ty \notin {"od", "ar"}) =>
            st[k] = IF j = 0 THEN St0[k]
                    ELSE IF ty = "bookmarks" THEN ConvBm(Alpha[hist[j]], Section)
                    ELSE IF ty = "str" THEN StrOf(Alpha[hist[j]], Section)
                    ELSE IF ty = "path" THEN StdPath(StrOf(Alpha[hist[j]], Section))
                    ELSE Conv(ty, Alpha[hist[j]], Section).v

\* approach rate follows overall difficulty until it has been set itself
ARRule == Section = "Difficulty" =>
    LET jA == LastValid("ApproachRate")  jO == LastValid("OverallDifficulty") IN
    /\ st.hasAR = (jA > 0)
    /\ st.OverallDifficulty = IF jO = 0 THEN 500 ELSE Conv("od", Alpha[hist[jO]], Section).v
    /\ st.ApproachRate = IF jA > 0 THEN Conv("ar", Alpha[hist[jA]], Section).v
                          ELSE IF jO > 0 THEN Conv("od", Alpha[hist[jO]], Section).v ELSE 500

Ranges ==
    /\ Section = "Difficulty" => st.SliderMultiplier \in 40..360 /\ st.SliderTickRate \in 50..800
    /\ Section = "General" => st.LetterboxInBreaks \in {0, 1} /\ st.Mode \in 0..3 /\ st.SampleSet \in 0..3 /\ st.Countdown \in 0..3
    /\ Section = "Events" => \A j \in 1..Len(st.breaks) : st.breaks[j][1] <= st.breaks[j][2]

ASSUME Emit => PrintT("ALPHA " \o ToJson(Alpha))
=============================================================================
