------------------------------- MODULE Encoder -------------------------------
(***************************************************************************)
(* C04 - the shape of the text `Beatmap::encode` writes (src/encode.rs), as *)
(* a state machine over emitted LINES:                                      *)
(*   EmitVersion   the format-version line, first                           *)
(*   EmitBlank     a separator line                                         *)
(*   EmitHeader    the next section header of the canonical order           *)
(*   EmitRecord    a record of the current section; `accepted` is what the  *)
(*                 section's own line parser says about it                  *)
(*   Finish        end of the text: all eight headers have been written     *)
(* The property: every behaviour of the encoder has each header exactly     *)
(* once in canonical order and only accepted records.  Trace_Encoder checks *)
(* that the real encoder's output is a behaviour of this machine.           *)
(***************************************************************************)
EXTENDS Integers, Sequences, TLC

CONSTANT MaxRecords

Canonical == <<"General", "Editor", "Metadata", "Difficulty", "Events", "TimingPoints", "Colours", "HitObjects">>

VARIABLES sec, sawVersion, nrec, finished, allAccepted
evars == <<sec, sawVersion, nrec, finished, allAccepted>>

EInit == sec = 0 /\ sawVersion = FALSE /\ nrec = 0 /\ finished = FALSE /\ allAccepted = TRUE

EmitVersion == ~finished /\ ~sawVersion /\ sec = 0 /\ sawVersion' = TRUE /\ UNCHANGED <<sec, nrec, finished, allAccepted>>
EmitBlank == ~finished /\ sawVersion /\ UNCHANGED evars
EmitHeader(s) == /\ ~finished /\ sawVersion /\ sec < Len(Canonical) /\ s = Canonical[sec + 1]
                 /\ sec' = sec + 1 /\ nrec' = 0 /\ UNCHANGED <<sawVersion, finished, allAccepted>>
EmitRecord(s, accepted) == /\ ~finished /\ sec > 0 /\ s = Canonical[sec]
                           /\ nrec' = nrec + 1 /\ allAccepted' = (allAccepted /\ accepted)
                           /\ UNCHANGED <<sec, sawVersion, finished>>
Finish == ~finished /\ sec = Len(Canonical) /\ finished' = TRUE /\ UNCHANGED <<sec, sawVersion, nrec, allAccepted>>

ENext == \/ EmitVersion \/ EmitBlank \/ Finish
         \/ \E s \in {Canonical[i] : i \in 1..Len(Canonical)} : EmitHeader(s) \/ (nrec < MaxRecords /\ EmitRecord(s, TRUE))
ESpec == EInit /\ [][ENext]_evars

\* what a reader of the finished text may rely on
Wellformed == finished => (sawVersion /\ sec = Len(Canonical))
OnlyAccepted == allAccepted
=============================================================================
