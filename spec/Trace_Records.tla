---------------------------- MODULE Trace_Records ----------------------------
(***************************************************************************)
(* Trace validation for C11: long random record sequences (recognised and   *)
(* unknown keys, every value class, duplicates) fed line by line to the     *)
(* public parse function of the section's own decoder; after every line the *)
(* harness logs the abstract record, the Ok/Err verdict and the projected   *)
(* section state (obtained by decoding the prefix through the public API).  *)
(*   {"ev":"Reset"}   {"ev":"Rec","r":<record>,"ok":b,"st":<state>}         *)
(* Section is a constant of Records, so one trace file per section.         *)
(***************************************************************************)
EXTENDS Records, IOUtils

Rec_ == ndJsonDeserialize(IOEnv.TRACE)
VARIABLE l
tvars == <<vars, l>>
Ev_ == Rec_[l]
More == l <= Len(Rec_)

TrInit == hist = <<>> /\ st = St0 /\ acc = <<>> /\ done = FALSE /\ l = 1
TrReset == More /\ Ev_.ev = "Reset" /\ st' = St0 /\ UNCHANGED <<hist, acc, done>> /\ l' = l + 1

\* the state as the decoded struct shows it (bookkeeping fields are not observable)
Visible(s) == IF Section = "Difficulty" THEN [k \in DOMAIN s \ {"hasAR"} |-> s[k]] ELSE s

TrRec ==
    /\ More /\ Ev_.ev = "Rec"
    /\ LET r == Apply(st, Ev_.r) IN
       /\ r.ok = Ev_.ok
       /\ Visible(r.st) = Ev_.st
       /\ st' = r.st
    /\ UNCHANGED <<hist, acc, done>>
    /\ l' = l + 1

TrNext == TrReset \/ TrRec
TrSpec == TrInit /\ [][TrNext]_tvars

Accepted ==
    LET d == TLCGet("stats").diameter IN
    IF d = Len(Rec_) + 1 THEN TRUE
    ELSE /\ PrintT(<<"TRACE-REJECTED at event", d, Rec_[d]>>)
         /\ FALSE
=============================================================================
