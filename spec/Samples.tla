------------------------------- MODULE Samples -------------------------------
(***************************************************************************)
(* Hit-sample grammar (C14) and its encoder side (C02):                     *)
(*   ReadBank      = SampleBankInfo::read_custom_sample_banks               *)
(*   ConvertSound  = SampleBankInfo::convert_sound_type                     *)
(*   EncBank       = get_sample_bank (src/encode.rs)                        *)
(* A bank-info text `a:b:c:d:e` is abstracted as a record                   *)
(*   [n  number of ':'-separated components 0..5,                           *)
(*    b1c/b1, b2c/b2, cuc/cu, voc/vo  class "num" | "bad" | "empty" + value *)
(*    fn  "" (empty/absent) or a file name]                                 *)
(* A bank state is [fn, bn (bank for normal, 0 = unset), ba (bank for       *)
(* additions, 0 = unset), vo, cu].                                          *)
(* A sample is [n name, bank 1..3, spec, cu, vo, lay, fn].                  *)
(***************************************************************************)
EXTENDS Integers, Sequences

Bank0 == [fn |-> "", bn |-> 0, ba |-> 0, vo |-> 0, cu |-> 0]

\* i32 -> SampleBank with `unwrap_or(Normal)` for values outside 0..3
BankOf(v) == IF v \in 0..3 THEN v ELSE 1

BiOk(v)  == [ok |-> TRUE, v |-> v]
BiErr    == [ok |-> FALSE, v |-> Bank0]

ReadBank(st, bi, banksOnly) ==
    IF bi.n = 0 \/ bi.b1c = "empty" THEN BiOk(st)              \* nothing to read
    ELSE IF bi.b1c # "num" THEN BiErr
    ELSE IF bi.n < 2 THEN BiErr                                 \* MissingInfo
    ELSE IF bi.b2c # "num" THEN BiErr
    ELSE
    LET nb == BankOf(bi.b1)  ab == BankOf(bi.b2)
        s1 == [st EXCEPT !.bn = nb, !.ba = IF ab # 0 THEN ab ELSE nb]
    IN IF banksOnly THEN BiOk(s1)
    ELSE IF bi.n >= 3 /\ bi.cuc # "num" THEN BiErr
    ELSE IF bi.n >= 4 /\ bi.voc # "num" THEN BiErr
    ELSE BiOk([s1 EXCEPT !.cu = IF bi.n >= 3 THEN bi.cu ELSE @,
                         !.vo = IF bi.n >= 4 THEN (IF bi.vo < 0 THEN 0 ELSE bi.vo) ELSE @,
                         !.fn = IF bi.n >= 5 THEN bi.fn ELSE ""])

Smp(name, bank, cu, vo, lay) ==
    [n |-> name, bank |-> IF bank = 0 THEN 1 ELSE bank, spec |-> bank # 0, cu |-> cu, vo |-> vo,
     lay |-> lay, fn |-> ""]

\* sound: the low 8 bits of the hit-sound field
Bit(x, b) == (x \div b) % 2 = 1

ConvertSound(st, sound) ==
    LET first == IF st.fn # ""
                 THEN <<[n |-> "file", bank |-> 1, spec |-> FALSE, cu |-> 1, vo |-> st.vo, lay |-> FALSE, fn |-> st.fn]>>
                 ELSE <<Smp("normal", st.bn, st.cu, st.vo, sound # 0 /\ ~Bit(sound, 1))>>
        fin == IF Bit(sound, 4) THEN <<Smp("finish", st.ba, st.cu, st.vo, FALSE)>> ELSE <<>>
        whi == IF Bit(sound, 2) THEN <<Smp("whistle", st.ba, st.cu, st.vo, FALSE)>> ELSE <<>>
        cla == IF Bit(sound, 8) THEN <<Smp("clap", st.ba, st.cu, st.vo, FALSE)>> ELSE <<>>
    IN first \o fin \o whi \o cla

----------------------------------------------------------------------------
\* Encoder side.  The sound byte written for a sample list, and the bank info.
SoundOf(smps) ==
    (IF \E i \in 1..Len(smps) : smps[i].n = "whistle" THEN 2 ELSE 0)
  + (IF \E i \in 1..Len(smps) : smps[i].n = "finish" THEN 4 ELSE 0)
  + (IF \E i \in 1..Len(smps) : smps[i].n = "clap" THEN 8 ELSE 0)

FirstWith(smps, P(_)) ==
    IF \E i \in 1..Len(smps) : P(smps[i])
    THEN CHOOSE i \in 1..Len(smps) : P(smps[i]) /\ \A j \in 1..(i - 1) : ~P(smps[j])
    ELSE 0

\* get_sample_bank: banks as written (the real `bank` of the sample, i.e. after
\* defaults have been applied), custom index / volume only in mania
EncBank(smps, banksOnly, mania) ==
    LET iN == FirstWith(smps, LAMBDA s : s.n = "normal")
        iA == FirstWith(smps, LAMBDA s : s.n \in {"whistle", "finish", "clap"})
        iD == FirstWith(smps, LAMBDA s : s.n # "file")
        iF == FirstWith(smps, LAMBDA s : s.n = "file" /\ s.fn # "")
        nb == IF iN = 0 THEN 0 ELSE smps[iN].bank
        ab == IF iA = 0 THEN 0 ELSE smps[iA].bank
        cu == IF mania /\ iD # 0 THEN smps[iD].cu ELSE 0
        vo == IF mania THEN (IF Len(smps) = 0 THEN 100 ELSE smps[1].vo) ELSE 0
    IN IF banksOnly
       THEN [n |-> 2, b1c |-> "num", b1 |-> nb, b2c |-> "num", b2 |-> ab, cuc |-> "num", cu |-> 0, voc |-> "num", vo |-> 0, fn |-> ""]
       ELSE [n |-> 5, b1c |-> "num", b1 |-> nb, b2c |-> "num", b2 |-> ab, cuc |-> "num", cu |-> cu, voc |-> "num", vo |-> vo,
             fn |-> IF iF = 0 THEN "" ELSE smps[iF].fn]

\* what survives a round trip: names and (specified) banks
NamesBanks(smps) == [i \in 1..Len(smps) |-> <<smps[i].n, smps[i].bank, smps[i].fn>>]
=============================================================================
