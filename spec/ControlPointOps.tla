-------------------------- MODULE ControlPointOps --------------------------
(***************************************************************************)
(* Pure operators describing rosu-map's `ControlPoints` collection          *)
(* (src/section/timing_points/decode.rs).  No variables: the module is      *)
(* shared by ControlPoints (C13), TimingLines (C12), TimingEncode (C02) and *)
(* MapPost (C15).                                                           *)
(*                                                                          *)
(* Numbers.  A time is an integer (milliseconds, or an order-preserving     *)
(* rank when a recorded trace is validated).  Slider velocity and scroll    *)
(* speed are integers in THOUSANDTHS (1000 = 1.0), beat lengths are         *)
(* integers in milliseconds.                                                *)
(*                                                                          *)
(* A point is a record; every list is a sequence of such records:           *)
(*   tim : [t, bl, omit, sig]        timing point                           *)
(*   dif : [t, sv, ticks]            difficulty point                       *)
(*   eff : [t, kiai, scroll]         effect point                           *)
(*   smp : [t, bank, vol, custom]    sample point                           *)
(***************************************************************************)
EXTENDS Integers, Sequences

EmptyCP == [tim |-> <<>>, dif |-> <<>>, eff |-> <<>>, smp |-> <<>>]

Kinds == {"tim", "dif", "eff", "smp"}

\* Largest index whose time is <= t, or 0.  This is the *declarative*
\* meaning of every `binary_search_by(total_cmp).map_or_else(i - 1)` in the
\* code: "the latest point not after t".
IdxLE(l, t) ==
    IF \E i \in 1..Len(l) : l[i].t <= t
    THEN CHOOSE i \in 1..Len(l) : l[i].t <= t /\ \A j \in 1..Len(l) : l[j].t <= t => j <= i
    ELSE 0

\* insert keeping the order, or replace the point at the same time
InsRep(l, p) ==
    LET i == IdxLE(l, p.t) IN
    IF i > 0 /\ l[i].t = p.t THEN [l EXCEPT ![i] = p]
    ELSE SubSeq(l, 1, i) \o <<p>> \o SubSeq(l, i + 1, Len(l))

\* defaults (DifficultyPoint::default etc.)
DefDif == [t |-> 0, sv |-> 1000, ticks |-> TRUE]
DefEff == [t |-> 0, kiai |-> FALSE, scroll |-> 1000]
DefSmp == [t |-> 0, bank |-> 1, vol |-> 100, custom |-> 0]
DefBeatLen == 1000

\* "merely repeats" of each kind (times are not compared).  A NEGATIVE velocity / scroll value stands for a
\* non-finite one (-1 NaN, -2 infinity; only reachable through struct literals).  NaN equals nothing, not even
\* itself, so it never repeats; infinity equals infinity, so by the statement a second infinite point repeats
\* the first.  The code tests `|a - b| < epsilon`, which is false for inf - inf = NaN: its reading is DifRedW /
\* EffRedW (a non-finite value never repeats), emitted next to the statement's as `postw` (known finding, C13).
DifRed(a, b) == a.ticks = b.ticks /\ a.sv = b.sv /\ a.sv # -1
EffRed(a, b) == a.kiai = b.kiai /\ a.scroll = b.scroll /\ a.scroll # -1
DifRedW(a, b) == DifRed(a, b) /\ a.sv >= 0
EffRedW(a, b) == EffRed(a, b) /\ a.scroll >= 0
SmpRed(a, b) == a.bank = b.bank /\ a.vol = b.vol /\ a.custom = b.custom

\* check_already_existing of each kind, evaluated at the moment of the call
Redundant(cp, k, p) ==
    CASE k = "tim" -> FALSE
      [] k = "dif" -> LET i == IdxLE(cp.dif, p.t) IN DifRed(p, IF i > 0 THEN cp.dif[i] ELSE DefDif)
      [] k = "eff" -> LET i == IdxLE(cp.eff, p.t) IN EffRed(p, IF i > 0 THEN cp.eff[i] ELSE DefEff)
      [] k = "smp" -> LET i == IdxLE(cp.smp, p.t) IN i > 0 /\ SmpRed(p, cp.smp[i])

\* ControlPoints::add
AddPoint(cp, k, p) ==
    IF Redundant(cp, k, p) THEN cp
    ELSE [cp EXCEPT ![k] = InsRep(@, p)]
\* ... under the code's reading of a repeat
RedundantW(cp, k, p) ==
    CASE k = "dif" -> LET i == IdxLE(cp.dif, p.t) IN DifRedW(p, IF i > 0 THEN cp.dif[i] ELSE DefDif)
      [] k = "eff" -> LET i == IdxLE(cp.eff, p.t) IN EffRedW(p, IF i > 0 THEN cp.eff[i] ELSE DefEff)
      [] OTHER -> Redundant(cp, k, p)
AddPointW(cp, k, p) ==
    IF RedundantW(cp, k, p) THEN cp
    ELSE [cp EXCEPT ![k] = InsRep(@, p)]

AddTim(cp, p) == AddPoint(cp, "tim", p)
AddDif(cp, p) == AddPoint(cp, "dif", p)
AddEff(cp, p) == AddPoint(cp, "eff", p)
AddSmp(cp, p) == AddPoint(cp, "smp", p)

\* Lookups.  Results are options [some |-> BOOLEAN, i |-> index] so that
\* TLC never compares records of different shapes.
\*   timing / sample: before the first point the FIRST point is returned
\*   difficulty / effect: before the first point NOTHING is returned
LookupIdx(cp, k, t) ==
    LET l == cp[k]  i == IdxLE(l, t) IN
    IF Len(l) = 0 THEN 0
    ELSE IF i > 0 THEN i
    ELSE IF k \in {"tim", "smp"} THEN 1 ELSE 0

BeatLenAt(cp, t) == LET i == LookupIdx(cp, "tim", t) IN IF i = 0 THEN DefBeatLen ELSE cp.tim[i].bl
SvAt(cp, t)      == LET i == LookupIdx(cp, "dif", t) IN IF i = 0 THEN 1000 ELSE cp.dif[i].sv
TicksAt(cp, t)   == LET i == LookupIdx(cp, "dif", t) IN IF i = 0 THEN TRUE ELSE cp.dif[i].ticks
KiaiAt(cp, t)    == LET i == LookupIdx(cp, "eff", t) IN IF i = 0 THEN FALSE ELSE cp.eff[i].kiai
ScrollAt(cp, t)  == LET i == LookupIdx(cp, "eff", t) IN IF i = 0 THEN 1000 ELSE cp.eff[i].scroll
SmpAt(cp, t)     == LET i == LookupIdx(cp, "smp", t) IN IF i = 0 THEN DefSmp ELSE cp.smp[i]

\* structural invariants of a collection
StrictlySortedList(l) == \A i \in 1..(Len(l) - 1) : l[i].t < l[i + 1].t
StrictlySorted(cp) == \A k \in Kinds : StrictlySortedList(cp[k])

\* "never stores a point that merely repeats its predecessor": this is NOT an
\* invariant of the legacy model (see DESIGN 3, C13) - it is stated on the add.
NoAdjacentRepeat(cp) ==
    /\ \A i \in 2..Len(cp.dif) : ~DifRed(cp.dif[i], cp.dif[i - 1])
    /\ \A i \in 2..Len(cp.eff) : ~EffRed(cp.eff[i], cp.eff[i - 1])
    /\ \A i \in 2..Len(cp.smp) : ~SmpRed(cp.smp[i], cp.smp[i - 1])
=============================================================================
