---------------------------- MODULE Trace_Framing ----------------------------
(***************************************************************************)
(* Trace validation for C05: what the real decode driver did with each      *)
(* physical line of bundled and random files (observed through a recording  *)
(* implementor of the public DecodeBeatmap trait and a byte-counting        *)
(* BufRead) must be a behaviour of Framing.                                 *)
(*   {"ev":"Open","kinds":[..]}     a new file; kinds from the classifier   *)
(*   {"ev":"Line","i":n,"to":S}     line n was handed to section S's parser *)
(*                                  ("-" = the driver kept it)              *)
(*   {"ev":"Eof","version":v}       end of input; version given to create() *)
(* One physical line may take two driver actions (VerFail ; FirstReuse):    *)
(* they are composed through the state functions of Framing.                *)
(***************************************************************************)
EXTENDS Framing, IOUtils

Rec == ndJsonDeserialize(IOEnv.TRACE)

VARIABLE l
tvars == <<vars, l>>

Ev == Rec[l]
More == l <= Len(Rec)

TrInit == /\ file = <<>> /\ l = 1
          /\ phase = "done" /\ useCurr = FALSE /\ i = 1 /\ version = Latest
          /\ section = "none" /\ deliv = <<>>

SetAll(f, s) == /\ file' = f
                /\ phase' = s.phase /\ useCurr' = s.useCurr /\ i' = s.i /\ version' = s.version
                /\ section' = s.section /\ deliv' = s.deliv

TrOpen == /\ More /\ Ev.ev = "Open" /\ phase = "done"
          /\ SetAll(Ev.kinds, St0)
          /\ l' = l + 1

\* the driver steps that consume line n
LineStep(f, s) == LET s1 == StepF(f, s) IN
                  IF s1.i = s.i /\ s1.phase # "done" THEN StepF(f, s1) ELSE s1

TrLine ==
    /\ More /\ Ev.ev = "Line" /\ phase # "done"
    /\ i = Ev.i /\ i <= Len(file)
    /\ LET s1 == LineStep(file, St) IN
       /\ s1.i = i + 1
       /\ IF Ev.to = "-" THEN s1.deliv = deliv
          ELSE s1.deliv = Append(deliv, <<Ev.to, i>>)
       /\ SetAll(file, s1)
    /\ l' = l + 1

TrEof ==
    /\ More /\ Ev.ev = "Eof" /\ phase # "done"
    /\ i = Len(file) + 1
    /\ LET s1 == RunF(file, St) IN
       /\ s1.deliv = deliv
       /\ s1.version = Ev.version
       /\ SetAll(file, s1)
    /\ l' = l + 1

TrNext == TrOpen \/ TrLine \/ TrEof
TrSpec == TrInit /\ [][TrNext]_tvars

\* every completed file also satisfies the declarative rule
TrRefines == (phase = "done" /\ file # <<>>) => Result = Ref(file)

Accepted ==
    LET d == TLCGet("stats").diameter IN
    IF d = Len(Rec) + 1 THEN TRUE
    ELSE /\ PrintT(<<"TRACE-REJECTED at event", d, Rec[d]>>)
         /\ FALSE
=============================================================================
