------------------------------- MODULE StrCodec -------------------------------
(***************************************************************************)
(* C03 for text fields: what comes back when a decoded map's text field is  *)
(* set to v, the map is encoded and decoded again.  Strings are sequences   *)
(* over a small alphabet of SYMBOLS                                         *)
(*    "a"  a letter      ":"  colon     "/"  slash     ","  comma           *)
(*    "q"  double quote  "b"  backslash " "  space     "e"  a non-ASCII     *)
(*                                                          letter          *)
(* and the string functions the crate applies (trim, trim_comment,          *)
(* split at the first colon, split(','), clean_filename,                    *)
(* to_standardized_path) are sequence operators.  Per field:                *)
(*    Enc_f(v)  the line the encoder writes                                 *)
(*    Dec_f(l)  the value the section parser extracts from that line        *)
(* Property: every REPRESENTABLE v survives (Dec_f(Enc_f(v)) = v); for all  *)
(* other v the model still predicts exactly what comes back.                *)
(***************************************************************************)
EXTENDS Integers, Sequences, TLC, Json

CONSTANTS MaxLen, Field, Emit

Sym == {"a", ":", "/", ",", "q", "b", " ", "e"}

RECURSIVE Strings(_)
Strings(n) == IF n = 0 THEN {<<>>} ELSE LET Q == Strings(n - 1) IN Q \cup {Append(s, c) : s \in Q, c \in Sym}

RECURSIVE TrimStart(_)
TrimStart(s) == IF s # <<>> /\ Head(s) = " " THEN TrimStart(Tail(s)) ELSE s
RECURSIVE TrimEnd(_)
TrimEnd(s) == IF s # <<>> /\ s[Len(s)] = " " THEN TrimEnd(SubSeq(s, 1, Len(s) - 1)) ELSE s
Trim(s) == TrimStart(TrimEnd(s))

\* str::find("//")
CommentAt(s) == IF \E i \in 1..(Len(s) - 1) : s[i] = "/" /\ s[i + 1] = "/"
                THEN CHOOSE i \in 1..(Len(s) - 1) : s[i] = "/" /\ s[i + 1] = "/" /\ \A j \in 1..(i - 1) : ~(s[j] = "/" /\ s[j + 1] = "/")
                ELSE 0
TrimComment(s) == LET i == CommentAt(s) IN TrimEnd(IF i = 0 THEN s ELSE SubSeq(s, 1, i - 1))

FirstOf(s, c) == IF \E i \in 1..Len(s) : s[i] = c THEN CHOOSE i \in 1..Len(s) : s[i] = c /\ \A j \in 1..(i - 1) : s[j] # c ELSE 0
\* KeyValue::parse: split at the FIRST colon, trim both halves
KV(s) == LET i == FirstOf(s, ":") IN
         IF i = 0 THEN [key |-> Trim(s), value |-> <<>>]
         ELSE [key |-> Trim(SubSeq(s, 1, i - 1)), value |-> Trim(SubSeq(s, i + 1, Len(s)))]

\* the n-th field of split(',') (1-based), <<>> and found = FALSE if there are fewer
RECURSIVE Field_(_, _)
Field_(s, n) == LET i == FirstOf(s, ",") IN
                IF n = 1 THEN [found |-> TRUE, v |-> IF i = 0 THEN s ELSE SubSeq(s, 1, i - 1)]
                ELSE IF i = 0 THEN [found |-> FALSE, v |-> <<>>]
                ELSE Field_(SubSeq(s, i + 1, Len(s)), n - 1)

RECURSIVE TrimQ1(_)
TrimQ1(s) == IF s # <<>> /\ Head(s) = "q" THEN TrimQ1(Tail(s)) ELSE s
RECURSIVE TrimQ2(_)
TrimQ2(s) == IF s # <<>> /\ s[Len(s)] = "q" THEN TrimQ2(SubSeq(s, 1, Len(s) - 1)) ELSE s
TrimQuotes(s) == TrimQ1(TrimQ2(s))
\* replace("\\\\", "\\") : non-overlapping pairs of backslashes from the left
RECURSIVE Unescape(_)
Unescape(s) == IF Len(s) >= 2 /\ s[1] = "b" /\ s[2] = "b" THEN <<"b">> \o Unescape(SubSeq(s, 3, Len(s)))
               ELSE IF s = <<>> THEN <<>> ELSE <<Head(s)>> \o Unescape(Tail(s))
StdPath(s) == [i \in 1..Len(s) |-> IF s[i] = "b" THEN "/" ELSE s[i]]
CleanFilename(s) == StdPath(Unescape(TrimQuotes(s)))

K == <<"K">>                              \* the key text (its letters are not in Sym)
\* the line as the driver hands it to the parser: the reader trims its end
AsRead(l) == TrimEnd(l)

\* ---- per field ----------------------------------------------------------------
\* [Metadata] text: `Key: v`; no comment stripping
EncMeta(v) == K \o <<":", " ">> \o v
DecMeta(l) == LET kv == KV(AsRead(l)) IN IF kv.key = K THEN kv.value ELSE <<"LOST">>

\* [General] AudioFilename: `Key: v`; comment stripped; path standardised
EncAudio(v) == K \o <<":", " ">> \o v
DecAudio(l) == LET kv == KV(TrimComment(AsRead(l))) IN IF kv.key = K THEN StdPath(kv.value) ELSE <<"LOST">>

\* [Events] background: `0,0,"v",0,0` (not written at all for an empty name)
EncBg(v) == <<"0", ",", "0", ",", "q">> \o v \o <<"q", ",", "0", ",", "0">>
DecBg(l) == LET t == TrimComment(AsRead(l))
                f1 == Field_(t, 1)  f2 == Field_(t, 2)  f3 == Field_(t, 3)
            IN IF ~f3.found \/ f1.v # <<"0">> THEN <<"LOST">> ELSE CleanFilename(f3.v)

\* [Colours] a custom colour's name: `name: 1,2,3,255`
EncCol(v) == v \o <<":", " ", "1", ",", "2">>
DecCol(l) == LET kv == KV(TrimComment(AsRead(l))) IN
             IF Field_(kv.value, 2).found /\ Field_(kv.value, 1).v = <<"1">> THEN kv.key ELSE <<"LOST">>

Enc(v) == CASE Field = "meta" -> EncMeta(v) [] Field = "audio" -> EncAudio(v) [] Field = "bg" -> EncBg(v) [] Field = "colour" -> EncCol(v)
Dec(l) == CASE Field = "meta" -> DecMeta(l) [] Field = "audio" -> DecAudio(l) [] Field = "bg" -> DecBg(l) [] Field = "colour" -> DecCol(l)
\* an empty background / empty optional metadata text is simply not written and reads back as empty
Back(v) == IF v = <<>> /\ Field \in {"bg", "meta"} THEN <<>> ELSE Dec(Enc(v))

\* what the format can represent (the property's precondition)
NoOuterSpace(v) == v = <<>> \/ (v[1] # " " /\ v[Len(v)] # " ")
Has(v, c) == \E i \in 1..Len(v) : v[i] = c
HasComment(v) == CommentAt(v) # 0
Representable(v) ==
    CASE Field = "meta"   -> NoOuterSpace(v)                                      \* any text, colons included
      [] Field = "audio"  -> NoOuterSpace(v) /\ ~HasComment(v) /\ ~Has(v, "b")
      [] Field = "bg"     -> NoOuterSpace(v) /\ ~HasComment(v) /\ ~Has(v, "b") /\ ~Has(v, ",")
                             /\ (v = <<>> \/ (v[1] # "q" /\ v[Len(v)] # "q"))
      [] Field = "colour" -> NoOuterSpace(v) /\ ~HasComment(v) /\ ~Has(v, ":") /\ v # <<>>

VARIABLES v, done
vars == <<v, done>>
Init == v \in Strings(MaxLen) /\ done = FALSE
Next == /\ ~done /\ done' = TRUE /\ UNCHANGED v
        /\ (Emit => PrintT("CASE " \o ToJson([f |-> Field, v |-> v, back |-> Back(v), rep |-> Representable(v)])))
Spec == Init /\ [][Next]_vars

Survives == Representable(v) => Back(v) = v
=============================================================================
