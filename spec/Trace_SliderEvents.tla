-------------------------- MODULE Trace_SliderEvents --------------------------
(***************************************************************************)
(* Trace validation for C20: random parameter sets (on the 1/8 lattice) and *)
(* random abandon points, all iterators of one run sharing one tick buffer. *)
(*   {"ev":"New","p":<params>}        SliderEventsIter::new on the buffer   *)
(*   {"ev":"Next","some":b,"e":<ev>}  one next() call and what it returned  *)
(* Each call must be explained by SliderEvents!NextF (the composition of    *)
(* the iterator's actions).                                                 *)
(***************************************************************************)
EXTENDS SliderEvents, IOUtils

Rec == ndJsonDeserialize(IOEnv.TRACE)
VARIABLE l
tvars == <<vars, l>>
Ev_ == Rec[l]
More == l <= Len(Rec)

P0 == [start |-> 0, sd |-> 800, md |-> 0, td |-> 0, len |-> 800, spans |-> 1]
TrInit == p = P0 /\ st = "Done" /\ span = 0 /\ stack = <<>> /\ out = <<>> /\ gen = 1 /\ log = <<>> /\ l = 1

TrNew == /\ More /\ Ev_.ev = "New"
         /\ p' = Ev_.p /\ st' = "Head" /\ span' = 0 /\ out' = <<>>
         /\ stack' = IF ClearOnNew THEN <<>> ELSE stack
         /\ UNCHANGED <<gen, log>>
         /\ l' = l + 1

TrNext == /\ More /\ Ev_.ev = "Next"
          /\ LET r == NextF(S) IN
             /\ r.some = Ev_.some
             /\ (r.some => r.ev = Ev_.e)
             /\ p' = r.s.p /\ st' = r.s.st /\ span' = r.s.span /\ stack' = r.s.stack
             /\ out' = IF r.some THEN Append(out, r.ev) ELSE out
          /\ UNCHANGED <<gen, log>>
          /\ l' = l + 1

TrNext_ == TrNew \/ TrNext
TrSpec == TrInit /\ [][TrNext_]_tvars

TrPrefix == st # "Done" \/ out = <<>> \/ out = RefStream(p)

Accepted ==
    LET d == TLCGet("stats").diameter IN
    IF d = Len(Rec) + 1 THEN TRUE
    ELSE /\ PrintT(<<"TRACE-REJECTED at event", d, Rec[d]>>)
         /\ FALSE
=============================================================================
