----------------------------- MODULE WriterInd -----------------------------
(***************************************************************************)
(* C09, write side, beyond TLC's small constants: the invariants of         *)
(* Writer.tla (an Ok result means every byte was accepted and the flush     *)
(* succeeded; an error is one the writer reported; never more bytes than    *)
(* asked for) hold for EVERY total length, every per-call acceptance and    *)
(* every number of transient interruptions.  Checked with Apalache as an    *)
(* inductive invariant over unconstrained integers:                         *)
(*    IndInit => IndInv            apalache-mc check --length=0 ...          *)
(*    IndInv /\ Next => IndInv'    apalache-mc check --length=1 ...          *)
(* The actions are those of Writer.tla without its history variables        *)
(* (script, calls), restated so that this module needs no JSON output.      *)
(* pc / result are integers here:                                           *)
(*    pc     0 next | 1 write | 2 flush | 3 done | 4 err                    *)
(*    result 0 none | 1 ok | 2 WriteZero | 3 Other | 4 PermissionDenied     *)
(***************************************************************************)
EXTENDS Integers, Apalache

VARIABLES
    \* @type: Int;
    total,
    \* @type: Int;
    written,
    \* @type: Int;
    chunkLeft,
    \* @type: Int;
    intr,
    \* @type: Int;
    pc,
    \* @type: Int;
    result

NextChunk == /\ pc = 0 /\ written < total
             /\ \E m \in 1..(total - written) : chunkLeft' = m
             /\ pc' = 1
             /\ UNCHANGED <<total, written, intr, result>>
ToFlush == /\ pc = 0 /\ written = total /\ pc' = 2
           /\ UNCHANGED <<total, written, chunkLeft, intr, result>>
\* the writer accepts k >= 1 bytes of the current payload (any k: a writer may offer more room than is asked for)
Accept == /\ pc = 1
          /\ \E n \in 1..chunkLeft :
                /\ written' = written + n /\ chunkLeft' = chunkLeft - n
                /\ pc' = IF chunkLeft - n = 0 THEN 0 ELSE 1
          /\ UNCHANGED <<total, intr, result>>
AcceptZero == /\ pc = 1 /\ pc' = 4 /\ result' = 2
              /\ UNCHANGED <<total, written, chunkLeft, intr>>
Interrupt == /\ pc = 1 /\ intr > 0 /\ intr' = intr - 1
             /\ UNCHANGED <<total, written, chunkLeft, pc, result>>
Fail == /\ pc = 1 /\ pc' = 4 /\ result' \in {3, 4}
        /\ UNCHANGED <<total, written, chunkLeft, intr>>
FlushOk == /\ pc = 2 /\ pc' = 3 /\ result' = 1
           /\ UNCHANGED <<total, written, chunkLeft, intr>>
FlushFail == /\ pc = 2 /\ pc' = 4 /\ result' = 3
             /\ UNCHANGED <<total, written, chunkLeft, intr>>
FlushInterrupt == /\ pc = 2 /\ intr > 0 /\ intr' = intr - 1
                  /\ UNCHANGED <<total, written, chunkLeft, pc, result>>
\* (a finished run stutters, so that Apalache does not read the end as a deadlock)
Done == pc \in {3, 4} /\ UNCHANGED <<total, written, chunkLeft, intr, pc, result>>

Next == NextChunk \/ ToFlush \/ Accept \/ AcceptZero \/ Interrupt \/ Fail \/ FlushOk \/ FlushFail \/ FlushInterrupt \/ Done

\* negative control: an interrupted write taken for the end of the payload (no retry) - the induction step must fail
NextBad == Next \/ (/\ pc = 1 /\ intr > 0 /\ pc' = 3 /\ result' = 1
                     /\ UNCHANGED <<total, written, chunkLeft, intr>>)

\* the three invariants of Writer.tla ...
OkMeansComplete == (pc = 3) => (result = 1 /\ written = total)
ErrorIsTheWriters == (pc = 4) => result \in {2, 3, 4}
NeverMoreThanAsked == written <= total
\* ... and what makes them inductive
IndInv ==
    /\ total >= 0 /\ written >= 0 /\ intr >= 0 /\ chunkLeft >= 0
    /\ pc \in 0..4 /\ result \in 0..4
    /\ NeverMoreThanAsked
    /\ (pc = 1) => (chunkLeft >= 1 /\ written + chunkLeft <= total)
    /\ (pc \in {2, 3}) => written = total
    /\ (pc \in {0, 1, 2}) => result = 0
    /\ OkMeansComplete
    /\ ErrorIsTheWriters

Init == /\ total = Gen(1) /\ total >= 0
        /\ intr = Gen(1) /\ intr >= 0
        /\ written = 0 /\ chunkLeft = 0 /\ pc = 0 /\ result = 0

IndInit == /\ total = Gen(1) /\ written = Gen(1) /\ chunkLeft = Gen(1) /\ intr = Gen(1) /\ pc = Gen(1) /\ result = Gen(1)
           /\ IndInv
=============================================================================
