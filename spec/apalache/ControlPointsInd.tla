-------------------------- MODULE ControlPointsInd --------------------------
(***************************************************************************)
(* C13, beyond TLC's finite time alphabet: insertion into a control-point   *)
(* list keeps it STRICTLY sorted for ARBITRARY integer times.  Checked with *)
(* Apalache as an inductive invariant (lists up to MaxLen entries, times    *)
(* unconstrained integers):                                                 *)
(*    IndInit => IndInv            apalache-mc check --length=0 ...          *)
(*    IndInv /\ Next => IndInv'    apalache-mc check --length=1 ...          *)
(* The list holds times only (the value fields do not take part in the      *)
(* ordering); InsRep is the operator of ControlPointOps restated on times.  *)
(***************************************************************************)
EXTENDS Integers, Sequences, Apalache

CONSTANT
    \* @type: Int;
    MaxLen

VARIABLES
    \* @type: Seq(Int);
    l,
    \* @type: Int;
    x

\* @type: (Seq(Int), Int) => Int;
IdxLE(s, t) ==
    IF \E i \in DOMAIN s : s[i] <= t
    THEN CHOOSE i \in DOMAIN s : s[i] <= t /\ \A j \in DOMAIN s : s[j] <= t => j <= i
    ELSE 0

\* @type: (Seq(Int), Int) => Seq(Int);
InsRep(s, t) ==
    LET i == IdxLE(s, t) IN
    IF i > 0 /\ s[i] = t THEN s
    ELSE SubSeq(s, 1, i) \o <<t>> \o SubSeq(s, i + 1, Len(s))

\* @type: (Seq(Int)) => Bool;
Sorted(s) == \A i \in DOMAIN s : \A j \in DOMAIN s : i < j => s[i] < s[j]

ConstInit == MaxLen = 5

IndInv == Sorted(l) /\ Len(l) <= MaxLen

IndInit == /\ l = Gen(5)
           /\ x = Gen(1)
           /\ Sorted(l) /\ Len(l) < MaxLen

Next == /\ l' = InsRep(l, x)
        /\ x' = Gen(1)
=============================================================================
