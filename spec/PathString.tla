----------------------------- MODULE PathString -----------------------------
(***************************************************************************)
(* The slider path string codec (C14 decoder side, C02/C04 encoder side):   *)
(*   DecPath  = HitObjectsState::convert_path_str + convert_points          *)
(*              (src/section/hit_objects/decode.rs)                         *)
(*   EncPath  = add_path_data (src/encode.rs)                               *)
(* over TOKENS.  A path string is `tok|tok|...`; a token is                 *)
(*   a type letter  "B" "L" "P" "C", "X" (any other letter: Catmull),       *)
(*                  "B3" (b-spline of degree 3), "B0" (a `B` followed by a     *)
(*                  degree that is not positive: a plain bezier)             *)
(*   a point        "O" (the object's own position), "A", "Bc" (collinear   *)
(*                  with O and A), "Cn" (not collinear), "A2" (a second     *)
(*                  spelling of A: fractional part, truncated by the code), *)
(*                  "G1" "G2" (far away and exactly collinear with O: the   *)
(*                  products of the collinearity test exceed 2^24, where    *)
(*                  single-precision arithmetic is no longer exact; both    *)
(*                  products round alike, so the test still yields 0)       *)
(*   "bad"          a point whose coordinates do not parse / exceed 131072  *)
(*   "empty"        an empty token                                          *)
(* A control point is [p |-> point name, ty |-> "none" | type].             *)
(* Fallible operators return [ok |-> BOOLEAN, v |-> ...].                   *)
(***************************************************************************)
EXTENDS Integers, Sequences

Letters   == {"B", "L", "P", "C", "X", "B3", "B0"}
Points    == {"O", "A", "Bc", "Cn", "A2", "G1", "G2"}
PathTokens == Letters \cup Points \cup {"bad", "empty"}

\* absolute coordinates; the object sits at O.  A2 truncates to A.
\* (x # y relative to the object for every point except O, so that a swapped coordinate shows)
Coord(p) == CASE p = "O" -> <<10, 10>> [] p = "A" -> <<50, 30>> [] p = "A2" -> <<50, 30>>
              [] p = "Bc" -> <<90, 50>> [] p = "Cn" -> <<100, 0>>
              [] p = "G1" -> <<8203, 4107>> [] p = "G2" -> <<16396, 8204>>
\* canonical name after integer truncation
Canon(p) == IF p = "A2" THEN "A" ELSE p

IsLinear(a, b, c) ==
    (Coord(b)[2] - Coord(a)[2]) * (Coord(c)[1] - Coord(a)[1])
  - (Coord(b)[1] - Coord(a)[1]) * (Coord(c)[2] - Coord(a)[2]) = 0

\* PathType::new_from_str: first character decides; everything that is not
\* B / L / P is Catmull.  A point token in type position is Catmull too.
TypeOf(t) == IF t \in {"B", "L", "P", "B3"} THEN t ELSE IF t = "B0" THEN "B" ELSE "C"
IsLetterTok(t) == t \in Letters      \* "first char is ascii alphabetic"

CP(p, ty) == [p |-> p, ty |-> ty]
Err == [ok |-> FALSE, v |-> <<>>]
Ok(v) == [ok |-> TRUE, v |-> v]

(***************************************************************************)
(* convert_points(points, end_point, first):                                *)
(*   pts   tokens of one segment, pts[1] is the type token                  *)
(*   endPt "none" or the token following the next letter (look-ahead)       *)
(*   first TRUE for the first segment (a vertex at the origin is prepended) *)
(* returns the control points appended to the state's curve_points.         *)
(***************************************************************************)
ConvertPoints(pts, endPt, first) ==
    LET body   == SubSeq(pts, 2, Len(pts))
        bodyOk == \A i \in 1..Len(body) : body[i] \in Points
        endOk  == endPt = "none" \/ endPt \in Points
    IN IF ~bodyOk \/ ~endOk THEN Err ELSE
    LET epl    == IF endPt = "none" THEN 0 ELSE 1
        verts0 == (IF first THEN <<"O">> ELSE <<>>)
                  \o [i \in 1..Len(body) |-> Canon(body[i])]
                  \o (IF endPt = "none" THEN <<>> ELSE <<Canon(endPt)>>)
        n      == Len(verts0)
        ty0    == TypeOf(pts[1])
        \* a perfect curve needs exactly 3 points, and not collinear ones
        ty     == IF ty0 = "P"
                  THEN (IF n = 3 THEN (IF IsLinear(verts0[1], verts0[2], verts0[3]) THEN "L" ELSE "P") ELSE "B")
                  ELSE ty0
    IN IF n = 0 THEN Err ELSE
    LET lim == n - epl
        \* e: 1-based index of the vertex examined (the code's end_idx = e - 1)
        RECURSIVE Scan(_, _, _)
        Scan(e, start, out) ==
            IF e > lim THEN
                IF lim >= start
                THEN out \o [i \in 1..(lim - start + 1) |-> CP(verts0[start + i - 1], "none")]
                ELSE out
            ELSE IF verts0[e] # verts0[e - 1] THEN Scan(e + 1, start, out)
            \* legacy Catmull sliders do not split on duplicates (except at the very start)
            ELSE IF ty = "C" /\ (e - 1) > 1 THEN Scan(e + 1, start, out)
            \* the last control point of a segment never starts a new one
            ELSE IF (e - 1) = lim - 1 THEN Scan(e + 1, start, out)
            ELSE LET seg == [i \in 1..(e - start) |->
                                CP(verts0[start + i - 1], IF start + i - 1 = e - 1 THEN ty ELSE "none")]
                 IN Scan(e + 1, e + 1, out \o seg)
        raw == Scan(2, 1, <<>>)
    IN IF Len(raw) = 0 THEN Ok(raw)
       ELSE Ok([raw EXCEPT ![1] = CP(raw[1].p, IF raw[1].ty = "none" THEN ty ELSE raw[1].ty)])

(***************************************************************************)
(* convert_path_str.  Besides the result it reports `partial`: the control  *)
(* points that had already been appended to the state's buffer when a later *)
(* segment failed (the C06 residue).                                        *)
(***************************************************************************)
DecPathFull(toks) ==
    LET n == Len(toks)
        RECURSIVE Go(_, _, _, _)
        Go(e, start, first, out) ==
            IF e > n THEN
                \* `if end_idx > start_idx` - always true here
                LET r == ConvertPoints(SubSeq(toks, start, n), "none", first)
                IN IF ~r.ok THEN [ok |-> FALSE, v |-> <<>>, partial |-> out]
                   ELSE [ok |-> TRUE, v |-> out \o r.v, partial |-> <<>>]
            ELSE IF toks[e] = "empty" THEN [ok |-> FALSE, v |-> <<>>, partial |-> out]
            ELSE IF ~IsLetterTok(toks[e]) THEN Go(e + 1, start, first, out)
            ELSE LET endPt == IF e + 1 <= n THEN toks[e + 1] ELSE "none"
                     r == ConvertPoints(SubSeq(toks, start, e - 1), endPt, first)
                 IN IF ~r.ok THEN [ok |-> FALSE, v |-> <<>>, partial |-> out]
                    ELSE Go(e + 1, e, FALSE, out \o r.v)
    IN Go(2, 1, TRUE, <<>>)

DecPath(toks) == LET r == DecPathFull(toks) IN [ok |-> r.ok, v |-> r.v]

(***************************************************************************)
(* add_path_data.  Output tokens; a token such as "L," marks a type letter   *)
(* followed by ',' although more of the path follows (what the decoder then *)
(* sees is a path ending in a bare letter and a garbled repeat count).      *)
(*   FixedSep   FALSE = pinned behaviour: ',' after every letter written    *)
(*              for the LAST control point; TRUE = repaired: ',' only for a *)
(*              one-point path                                              *)
(*   ForceLast  TRUE = repaired: a typed last point always gets an explicit *)
(*              letter                                                      *)
(***************************************************************************)
EncPathWith(cps, FixedSep, ForceLast) ==
    LET n == Len(cps)
        RECURSIVE E(_, _, _)
        E(i, lastTy, out) ==
            IF i > n THEN out ELSE
            LET pt     == cps[i]
                typed  == pt.ty # "none"
                dup    == i > 2 /\ Coord(cps[i - 1].p) = Coord(cps[i - 2].p)
                needs  == typed /\ (pt.ty # lastTy \/ pt.ty = "P" \/ dup \/ (ForceLast /\ i = n /\ i > 1))
                broken == IF FixedSep THEN FALSE ELSE (i = n /\ i # 1)
                o1     == IF typed
                          THEN (IF needs THEN out \o <<IF broken THEN pt.ty \o "," ELSE pt.ty>> ELSE out \o <<pt.p>>)
                          ELSE out
                o2     == IF i # 1 THEN o1 \o <<pt.p>> ELSE o1
            IN E(i + 1, IF needs THEN pt.ty ELSE lastTy, o2)
    IN E(1, "none", <<>>)

\* what the decoder makes of an encoded path: a "LETTER," makes the line unparsable
BrokenLetters == {"B,", "L,", "P,", "C,", "B3,"}
Reparse(toks) == IF \E i \in 1..Len(toks) : toks[i] \in BrokenLetters THEN Err ELSE DecPath(toks)

----------------------------------------------------------------------------
\* C14 structural facts about every successfully decoded control-point list
WellFormed(cps) ==
    /\ Len(cps) >= 1
    /\ cps[1].p = "O" /\ cps[1].ty # "none"          \* first point: the origin, carrying the type
    /\ \A i \in 1..Len(cps) : cps[i].p \in Points /\ cps[i].ty \in {"none", "B", "L", "P", "C", "B3"}
    \* a perfect segment has exactly three distinct, non-collinear points: the
    \* typed one, one untyped one, and either the path's last point or the
    \* typed first point of the next segment
    /\ \A i \in 1..Len(cps) : cps[i].ty = "P" =>
          /\ i + 2 <= Len(cps) /\ cps[i + 1].ty = "none"
          /\ (cps[i + 2].ty = "none" => Len(cps) = i + 2)
          /\ ~IsLinear(cps[i].p, cps[i + 1].p, cps[i + 2].p)
=============================================================================
