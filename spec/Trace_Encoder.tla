---------------------------- MODULE Trace_Encoder ----------------------------
(***************************************************************************)
(* The encoded text of a map IS a trace: one event per line, classified by  *)
(* the harness (version / blank / header / record) and, for records, with   *)
(* the verdict of the section's public parse function.                      *)
(*   {"ev":"Begin"} {"ev":"Version"} {"ev":"Blank"} {"ev":"Header","s":S}   *)
(*   {"ev":"Record","s":S,"accepted":b} {"ev":"End"}                        *)
(* Accepted iff every text is a behaviour of Encoder with only accepted     *)
(* records.                                                                 *)
(***************************************************************************)
EXTENDS Encoder, Json, IOUtils

Rec == ndJsonDeserialize(IOEnv.TRACE)
VARIABLE l
tvars == <<evars, l>>
Ev_ == Rec[l]
More == l <= Len(Rec)

TrInit == sec = 0 /\ sawVersion = FALSE /\ nrec = 0 /\ finished = TRUE /\ allAccepted = TRUE /\ l = 1
TrBegin == More /\ Ev_.ev = "Begin" /\ finished /\ sec' = 0 /\ sawVersion' = FALSE /\ nrec' = 0 /\ finished' = FALSE
           /\ allAccepted' = TRUE /\ l' = l + 1
TrVersion == More /\ Ev_.ev = "Version" /\ EmitVersion /\ l' = l + 1
TrBlank == More /\ Ev_.ev = "Blank" /\ EmitBlank /\ l' = l + 1
TrHeader == More /\ Ev_.ev = "Header" /\ EmitHeader(Ev_.s) /\ l' = l + 1
\* a rejected record is not a step of the machine: the trace stops being explained there
TrRecord == More /\ Ev_.ev = "Record" /\ Ev_.accepted /\ EmitRecord(Ev_.s, TRUE) /\ l' = l + 1
TrEnd == More /\ Ev_.ev = "End" /\ Finish /\ l' = l + 1

TrNext == TrBegin \/ TrVersion \/ TrBlank \/ TrHeader \/ TrRecord \/ TrEnd
TrSpec == TrInit /\ [][TrNext]_tvars

Accepted ==
    LET d == TLCGet("stats").diameter IN
    IF d = Len(Rec) + 1 THEN TRUE
    ELSE /\ PrintT(<<"TRACE-REJECTED at event", d, Rec[d]>>)
         /\ FALSE
=============================================================================
