---------------------------- MODULE SliderEvents ----------------------------
(***************************************************************************)
(* C20 - `SliderEventsIter` (src/section/hit_objects/slider/event.rs).      *)
(*                                                                          *)
(* Units.  Every time and length is an integer number of EIGHTHS (of a      *)
(* millisecond / of an osu!pixel), so that all values are dyadic and the    *)
(* code's float arithmetic is exact on them (DESIGN 2.1, exactness rule).   *)
(* A parameter record is                                                    *)
(*   [start, sd (span duration), md (= velocity * 10, the minimum distance  *)
(*    from the span end), td (tick distance; Inf = "no ticks"), len, spans] *)
(* An event is [kind, span, ss (span start), tn/td (time), pn/pd (path      *)
(* progress)] with exact rationals.                                         *)
(*                                                                          *)
(* The iterator is a state machine over the SHARED tick buffer `stack`      *)
(* (events are popped from its back).  `New` may happen in any state        *)
(* (abandoning an iterator) and reuses the buffer.                          *)
(***************************************************************************)
EXTENDS Integers, Sequences, TLC, Json

CONSTANTS
    Params,       \* set of parameter records
    MaxIters,     \* how many iterators may be created on one buffer
    ClearOnNew,   \* TRUE: `ticks.clear()` in the constructor (the code)
    Emit

Inf == 99999999

Ev(kind, span, ss, tn, td, pn, pd) ==
    [kind |-> kind, span |-> span, ss |-> ss, tn |-> tn, td |-> td, pn |-> pn, pd |-> pd]

\* tick_dist.clamp(0, len); len itself is min(100000 px, total)
LenOf(q) == IF q.len > 800000 THEN 800000 ELSE q.len
TickDist(q) == IF q.td > LenOf(q) THEN LenOf(q) ELSE IF q.td < 0 THEN 0 ELSE q.td

Repeat(q, s) == Ev("Repeat", s, q.start + s * q.sd, q.start + s * q.sd + q.sd, 1, (s + 1) % 2, 1)

\* ticks of span s in ascending distance d, exactly as generate_ticks computes them
RECURSIVE Ticks(_, _, _)
Ticks(q, s, d) ==
    LET D == TickDist(q)  L == LenOf(q) IN
    IF D = 0 \/ d > L \/ d >= L - q.md THEN <<>>
    ELSE LET rev == s % 2 = 1
             ss == q.start + s * q.sd
             tn == IF rev THEN ss * L + (L - d) * q.sd ELSE ss * L + d * q.sd
         IN <<Ev("Tick", s, ss, tn, L, d, L)>> \o Ticks(q, s, d + D)

Reverse(s) == [i \in 1..Len(s) |-> s[Len(s) + 1 - i]]

\* content pushed on the buffer for span s (popped from the back)
Generate(q, s) ==
    LET rev == s % 2 = 1
        withRep == s < q.spans - 1
        t == Ticks(q, s, TickDist(q))
    IN IF rev THEN (IF withRep THEN <<Repeat(q, s)>> ELSE <<>>) \o t
       ELSE Reverse(t \o (IF withRep THEN <<Repeat(q, s)>> ELSE <<>>))

\* legacy last tick: max(half-way, 36 ms before the end), mirrored progress on even span counts
LastTick(q) ==
    LET total == q.spans * q.sd
        fs  == q.spans - 1
        fss == q.start + fs * q.sd
        a2  == 2 * q.start + total
        b2  == 2 * (fss + q.sd - 36 * 8)
        t2  == IF a2 > b2 THEN a2 ELSE b2
        pn0 == t2 - 2 * fss
        pd0 == 2 * q.sd
    IN Ev("LastTick", fs, fss, t2, 2, IF q.spans % 2 = 0 THEN pd0 - pn0 ELSE pn0, pd0)

Tail_(q) == Ev("Tail", q.spans - 1, q.start + (q.spans - 1) * q.sd, q.start + q.spans * q.sd, 1, q.spans % 2, 1)
Head_(q) == Ev("Head", 0, q.start, q.start, 1, 0, 1)

VARIABLES p, st, span, stack, out, gen, log
vars == <<p, st, span, stack, out, gen, log>>

Init == p \in Params /\ st = "Head" /\ span = 0 /\ stack = <<>> /\ out = <<>> /\ gen = 1 /\ log = <<>>

\* constructing a new iterator on the same buffer (the old one is abandoned)
New ==
    /\ gen < MaxIters /\ st # "Done"
    /\ \E q \in Params :
        /\ p' = q /\ st' = "Head" /\ span' = 0 /\ out' = <<>>
        /\ stack' = IF ClearOnNew THEN <<>> ELSE stack
        /\ log' = Append(log, [p |-> p, taken |-> Len(out), out |-> out])
        /\ gen' = gen + 1

NextHead == st = "Head" /\ st' = "Ticks" /\ out' = Append(out, Head_(p)) /\ UNCHANGED <<p, span, stack, gen, log>>
NextPop  == st = "Ticks" /\ stack # <<>> /\ out' = Append(out, stack[Len(stack)])
            /\ stack' = SubSeq(stack, 1, Len(stack) - 1) /\ UNCHANGED <<p, st, span, gen, log>>
\* internal steps of one `next()` call: refill the buffer / move on
NextGen  == st = "Ticks" /\ stack = <<>> /\ span < p.spans /\ stack' = Generate(p, span) /\ span' = span + 1
            /\ UNCHANGED <<p, st, out, gen, log>>
NextToLast == st = "Ticks" /\ stack = <<>> /\ span = p.spans /\ st' = "LastTick" /\ UNCHANGED <<p, span, stack, out, gen, log>>
NextLast == st = "LastTick" /\ st' = "Tail" /\ out' = Append(out, LastTick(p)) /\ UNCHANGED <<p, span, stack, gen, log>>
NextTail == st = "Tail" /\ st' = "Done" /\ out' = Append(out, Tail_(p)) /\ UNCHANGED <<p, span, stack, gen, log>>
       /\ (Emit => PrintT("CASE " \o ToJson([log |-> log, p |-> p, out |-> Append(out, Tail_(p))])))

Next == New \/ NextHead \/ NextPop \/ NextGen \/ NextToLast \/ NextLast \/ NextTail
Spec == Init /\ [][Next]_vars

----------------------------------------------------------------------------
\* the declarative stream of the property statement
RECURSIVE SpanEvents(_, _)
SpanEvents(q, s) ==
    IF s = q.spans THEN <<>> ELSE
    LET t == Ticks(q, s, TickDist(q))
        ordered == IF s % 2 = 1 THEN Reverse(t) ELSE t        \* chronological
    IN ordered \o (IF s < q.spans - 1 THEN <<Repeat(q, s)>> ELSE <<>>) \o SpanEvents(q, s + 1)
RefStream(q) == <<Head_(q)>> \o SpanEvents(q, 0) \o <<LastTick(q), Tail_(q)>>

Refines == st = "Done" => out = RefStream(p)
\* every prefix produced so far is a prefix of the reference stream, whatever
\* the buffer held before
PrefixOk == Len(out) <= Len(RefStream(p)) /\ out = SubSeq(RefStream(p), 1, Len(out))

\* chronological order of head / ticks / repeats (rationals compared exactly)
Leq(a, b) == IF a.td = b.td THEN a.tn <= b.tn ELSE a.tn * b.td <= b.tn * a.td
Chrono == st = "Done" => \A k \in 1..(Len(out) - 3) : Leq(out[k], out[k + 1])

\* ticks sit at multiples of the tick distance, identically on every span,
\* never within md of the span end; a zero tick distance gives no ticks but
\* every repeat
TickFacts == st = "Done" =>
    /\ \A k \in 1..Len(out) : out[k].kind = "Tick" =>
          /\ TickDist(p) > 0 /\ out[k].pn % TickDist(p) = 0 /\ out[k].pd = LenOf(p)
          /\ out[k].pn < LenOf(p) - p.md /\ out[k].pn <= LenOf(p)
    /\ \A s1, s2 \in 0..(p.spans - 1) :
          {out[k].pn : k \in {j \in 1..Len(out) : out[j].kind = "Tick" /\ out[j].span = s1}}
        = {out[k].pn : k \in {j \in 1..Len(out) : out[j].kind = "Tick" /\ out[j].span = s2}}
    /\ Len(SelectSeq(out, LAMBDA e : e.kind = "Repeat")) = p.spans - 1
    /\ Len(SelectSeq(out, LAMBDA e : e.kind = "Head")) = 1
    /\ Len(SelectSeq(out, LAMBDA e : e.kind = "Tail")) = 1
    /\ Len(SelectSeq(out, LAMBDA e : e.kind = "LastTick")) = 1
    /\ (TickDist(p) = 0 => Len(SelectSeq(out, LAMBDA e : e.kind = "Tick")) = 0)

\* size_hint's lower bound never exceeds what is still to come
Remaining == Len(RefStream(p)) - Len(out)
SizeHint == CASE st = "Head" -> 3 [] st = "Ticks" -> 2 + Len(stack) [] st = "LastTick" -> 2
              [] st = "Tail" -> 1 [] st = "Done" -> 0
SizeHintSound == (ClearOnNew => SizeHint <= Remaining)

----------------------------------------------------------------------------
\* One `next()` call as a function of the iterator state (internal refill /
\* phase steps composed); used by Trace_SliderEvents.
S == [p |-> p, st |-> st, span |-> span, stack |-> stack]
RECURSIVE NextF(_)
NextF(s) ==
    CASE s.st = "Head" -> [s |-> [s EXCEPT !.st = "Ticks"], some |-> TRUE, ev |-> Head_(s.p)]
      [] s.st = "Ticks" /\ s.stack # <<>> ->
            [s |-> [s EXCEPT !.stack = SubSeq(@, 1, Len(@) - 1)], some |-> TRUE, ev |-> s.stack[Len(s.stack)]]
      [] s.st = "Ticks" /\ s.stack = <<>> /\ s.span < s.p.spans ->
            NextF([s EXCEPT !.stack = Generate(s.p, s.span), !.span = @ + 1])
      [] s.st = "Ticks" /\ s.stack = <<>> /\ s.span >= s.p.spans -> NextF([s EXCEPT !.st = "LastTick"])
      [] s.st = "LastTick" -> [s |-> [s EXCEPT !.st = "Tail"], some |-> TRUE, ev |-> LastTick(s.p)]
      [] s.st = "Tail" -> [s |-> [s EXCEPT !.st = "Done"], some |-> TRUE, ev |-> Tail_(s.p)]
      [] OTHER -> [s |-> s, some |-> FALSE, ev |-> Head_(s.p)]

\* the function form agrees with the actions: an emitting step emits NextF's
\* event, an internal step does not change what NextF will return
NextFAgrees ==
    [][/\ (out' # out /\ p' = p /\ gen' = gen) => (NextF(S).some /\ out' = Append(out, NextF(S).ev) /\ S' = NextF(S).s)
       /\ (out' = out /\ gen' = gen) => (NextF(S').some = NextF(S).some /\ NextF(S').ev = NextF(S).ev)]_vars

----------------------------------------------------------------------------
\* parameter grids (eighths)
ParamsQuick == [start : {0, -4000, 98760}, sd : {800, 2400}, md : {0, 80, 400, 800},
                td : {0, 100, 200, 300, 400, 800, 1600, Inf}, len : {800}, spans : 1..4]
ParamsFull  == [start : {0, -4000, 98760}, sd : {800, 2400, 96}, md : {0, 80, 400, 800},
                td : {0, 100, 200, 300, 400, 800, 1600, Inf}, len : {800, 512, 8000}, spans : 1..6]
\* lengths beyond the 100000 px cap (kept small elsewhere: 32-bit arithmetic in TLC)
ParamsBig   == [start : {0, 800}, sd : {800}, md : {80}, td : {100000, 400000, Inf}, len : {900000, 800000}, spans : 1..2]
ParamsSmall == [start : {0, 98760}, sd : {800}, md : {0, 80}, td : {0, 200, 300, 800, Inf}, len : {800}, spans : 1..3]
\* three iterators in a row on one buffer (each may be abandoned at any point): 12 parameter sets
ParamsTiny  == [start : {0}, sd : {800}, md : {0, 80}, td : {0, 300, Inf}, len : {800}, spans : 1..2]
=============================================================================
