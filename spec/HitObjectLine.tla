---------------------------- MODULE HitObjectLine ----------------------------
(***************************************************************************)
(* C14 / C06 - `HitObjects::parse_hit_objects` on its public state          *)
(* (src/section/hit_objects/decode.rs).                                     *)
(*                                                                          *)
(* An abstract line is a record of field classes and values                 *)
(*   xc/x yc/y    "int" | "frac" (x plus a fraction, truncated toward zero) *)
(*                | "f32up" (a text that only SINGLE precision rounds to x:  *)
(*                255.9999999 is 256, 131072.001 is the limit itself)        *)
(*                | "bad" (garbage, NaN, beyond +-131072)                   *)
(*   tc/t         start time "ok" | "bad"                                   *)
(*   tyc/ty       type field "num" | "bad"; ty is the integer               *)
(*   sc/snd       hit-sound field "num" | "bad"                             *)
(*   nf           number of comma separated fields present                  *)
(*   bi           the object's bank info (Samples!ReadBank record)          *)
(*   path         slider: sequence of PathString tokens                     *)
(*   repc/rep     slider: repeat field "num" | "bad"                        *)
(*   lenc/len     slider: length field "num" | "bad" | "tiny" (a positive     *)
(*                number below 1e-15: still a requested length - only an      *)
(*                absent, zero or negative length means natural length)      *)
(*   nsnd         slider: list of node sound values (-1 = unparsable entry) *)
(*   nbank        slider: list of node bank infos                           *)
(*   endc/end     spinner / hold end time "num" | "bad" | "empty"           *)
(* The decoder state that one line can pass on to the next:                 *)
(*   last     kind flags of the last accepted object ("none" at the start)  *)
(*   residue  control points left in the state's scratch list              *)
(*   objs     the accepted objects so far                                   *)
(***************************************************************************)
EXTENDS PathString, Samples, TLC, Json, SequencesExt

CONSTANTS
    AlphaName,      \* which alphabet (see the end of the module), and its size parameter
    AlphaN,
    MaxLines,
    MinLines,       \* Finish only after this many lines (0 for model checking; = MaxLines for `tlc -simulate`)
    ClearOnEntry,   \* TRUE: convert_path_str starts from an empty scratch list (intended);
                    \* FALSE: a failed slider leaves its earlier segments behind
    LastByKind,     \* TRUE: "follows a spinner" looks at the decoded KIND (the property);
                    \* FALSE: at the raw spinner flag of the previous type field
    Emit

Max2(a, b) == IF a > b THEN a ELSE b
Bit2(x, b) == (x \div b) % 2 = 1

\* ---- the type field -------------------------------------------------------
NewComboFlag(ty) == Bit2(ty, 4)
ComboOffset(ty)  == (ty \div 16) % 8
KindOf(ty) == IF Bit2(ty, 1) THEN "circle"
              ELSE IF Bit2(ty, 2) THEN "slider"
              ELSE IF Bit2(ty, 8) THEN "spinner"
              ELSE IF Bit2(ty, 128) THEN "hold"
              ELSE "unknown"

Has(ln, k) == ln.nf >= k
NumOk(c) == c \in {"int", "frac", "f32up"}

\* ---- accept / reject -------------------------------------------------------
BankRes(ln, only) == ReadBank(Bank0, ln.bi, only)

\* node bank infos: each starts as a clone of the object's bank info
RECURSIVE NodeBanks(_, _, _, _)
NodeBanks(base, sets, i, n) ==
    IF i > n THEN [ok |-> TRUE, v |-> <<>>]
    ELSE LET r == IF i <= Len(sets) THEN ReadBank(base, sets[i], FALSE) ELSE BiOk(base)
             rest == NodeBanks(base, sets, i + 1, n)
         IN IF ~r.ok \/ ~rest.ok THEN [ok |-> FALSE, v |-> <<>>]
            ELSE [ok |-> TRUE, v |-> <<r.v>> \o rest.v]

RepeatCount(ln) == Max2(0, ln.rep - 1)
NodeCount(ln) == RepeatCount(ln) + 2

\* everything that is parsed BEFORE the path string
SliderPreOk(ln) ==
    /\ Has(ln, 7)
    /\ ln.repc = "num" /\ ln.rep <= 9000
    /\ Has(ln, 8) => ln.lenc \in {"num", "tiny"}
    /\ Has(ln, 11) => BankRes(ln, TRUE).ok
    /\ Has(ln, 10) => NodeBanks(IF Has(ln, 11) THEN BankRes(ln, TRUE).v ELSE Bank0, ln.nbank, 1, NodeCount(ln)).ok

HeadOk(ln) ==
    /\ Has(ln, 5)
    /\ NumOk(ln.xc) /\ NumOk(ln.yc) /\ ln.tc = "ok" /\ ln.tyc = "num" /\ ln.sc = "num"

Accepts(ln) ==
    /\ HeadOk(ln)
    /\ LET k == KindOf(ln.ty) IN
       CASE k = "circle"  -> (Has(ln, 6) => BankRes(ln, FALSE).ok)
         [] k = "slider"  -> SliderPreOk(ln) /\ DecPath(ln.path).ok
         [] k = "spinner" -> Has(ln, 6) /\ ln.endc = "num" /\ (Has(ln, 7) => BankRes(ln, FALSE).ok)
         [] k = "hold"    -> (Has(ln, 6) /\ ln.endc # "empty") => (ln.endc = "num" /\ BankRes(ln, FALSE).ok)
         [] OTHER         -> FALSE

\* what a rejected line leaves in the scratch list
Leaves(ln) ==
    IF HeadOk(ln) /\ KindOf(ln.ty) = "slider" /\ SliderPreOk(ln) /\ ~DecPath(ln.path).ok
    THEN DecPathFull(ln.path).partial ELSE <<>>

\* ---- the decoded object ----------------------------------------------------
NoObj == [k |-> "none"]

ForcedCombo(last) == last.k = "none" \/ (IF LastByKind THEN last.k = "spinner" ELSE last.spin)

ObjBank(ln) ==
    LET k == KindOf(ln.ty) IN
    CASE k = "circle"  -> IF Has(ln, 6) THEN BankRes(ln, FALSE).v ELSE Bank0
      [] k = "slider"  -> IF Has(ln, 11) THEN BankRes(ln, TRUE).v ELSE Bank0
      [] k = "spinner" -> IF Has(ln, 7) THEN BankRes(ln, FALSE).v ELSE Bank0
      [] k = "hold"    -> IF Has(ln, 6) /\ ln.endc # "empty" THEN BankRes(ln, FALSE).v ELSE Bank0

Sound(ln) == ln.snd % 256

NodeSound(ln, i) ==
    IF Has(ln, 9) /\ i <= Len(ln.nsnd)
    THEN (IF ln.nsnd[i] < 0 THEN 0 ELSE ln.nsnd[i] % 256)
    ELSE Sound(ln)

Nodes(ln) ==
    LET base == ObjBank(ln)
        nb == IF Has(ln, 10) THEN NodeBanks(base, ln.nbank, 1, NodeCount(ln)).v
              ELSE [i \in 1..NodeCount(ln) |-> base]
    IN [i \in 1..NodeCount(ln) |-> ConvertSound(nb[i], NodeSound(ln, i))]

Obj(ln, last, residue) ==
    LET k  == KindOf(ln.ty)
        nc == NewComboFlag(ln.ty)
        co == IF nc THEN ComboOffset(ln.ty) ELSE 0
        smp == ConvertSound(ObjBank(ln), Sound(ln))
        base == [k |-> k, x |-> ln.x, y |-> ln.y, t |-> ln.t, nc |-> FALSE, co |-> 0, smp |-> smp,
                 cps |-> <<>>, rep |-> 0, len |-> -1, nodes |-> <<>>, dur |-> 0]
    IN CASE k = "circle"  -> [base EXCEPT !.nc = ForcedCombo(last) \/ nc, !.co = co]
         [] k = "slider"  -> [base EXCEPT !.nc = ForcedCombo(last) \/ nc, !.co = co,
                                          !.cps = residue \o DecPath(ln.path).v,
                                          !.rep = RepeatCount(ln),
                                          !.len = IF Has(ln, 8) /\ ln.lenc = "tiny" THEN 0         \* 0 stands for the tiny requested length
                                                  ELSE IF Has(ln, 8) /\ ln.len > 0 THEN ln.len ELSE -1,
                                          !.nodes = Nodes(ln)]
         [] k = "spinner" -> [base EXCEPT !.x = 256, !.y = 192, !.nc = nc, !.dur = Max2(0, ln.end - ln.t)]
         [] k = "hold"    -> [base EXCEPT !.y = 0,
                                          !.dur = IF Has(ln, 6) /\ ln.endc = "num" THEN Max2(0, ln.end - ln.t) ELSE 0]

\* alphabets
BiNone == [n |-> 0, b1c |-> "num", b1 |-> 0, b2c |-> "num", b2 |-> 0, cuc |-> "num", cu |-> 0, voc |-> "num", vo |-> 0, fn |-> ""]
Bi(n, b1, b2, cu, vo, fn) == [BiNone EXCEPT !.n = n, !.b1 = b1, !.b2 = b2, !.cu = cu, !.vo = vo, !.fn = fn]

BaseLine == [xc |-> "int", x |-> 10, yc |-> "int", y |-> 10, tc |-> "ok", t |-> 1000, tyc |-> "num", ty |-> 1,
             sc |-> "num", snd |-> 0, nf |-> 5, bi |-> BiNone, path |-> <<"L", "A">>, repc |-> "num", rep |-> 1,
             lenc |-> "num", len |-> 100, nsnd |-> <<>>, nbank |-> <<>>, endc |-> "num", end |-> 2000]
Circle(ty, snd) == [BaseLine EXCEPT !.ty = ty, !.snd = snd, !.nf = 6, !.bi = Bi(5, 0, 0, 0, 0, "")]
Slider(path) == [BaseLine EXCEPT !.ty = 2, !.nf = 8, !.path = path]
Spinner == [BaseLine EXCEPT !.ty = 8, !.nf = 7, !.bi = Bi(5, 0, 0, 0, 0, "")]
Hold == [BaseLine EXCEPT !.ty = 128, !.nf = 6, !.bi = Bi(5, 0, 0, 0, 0, "")]

\* (a) every type byte x a few sounds, every sound byte x a few types, with
\*     extras that suit whichever kind the byte selects
TypeLine(ty, snd) == [BaseLine EXCEPT !.ty = ty, !.snd = snd, !.nf = 8, !.path = <<"B", "A", "Cn">>]
AlphaTypesQuick(z) == [i \in 1..(256 * 4) |-> TypeLine((i - 1) % 256, <<0, 2, 13, 255>>[((i - 1) \div 256) + 1])]
                   \o [i \in 1..(256 * 3) |-> TypeLine(<<1, 6, 12>>[((i - 1) \div 256) + 1], (i - 1) % 256)]
                   \* the type field is an INTEGER of which only the low bits matter
                   \o [i \in 1..10 |-> TypeLine(<<257, 293, 264, 65664, -1, 256, 2147483647, -2147483647, 1024 + 2, -256 + 12>>[i], 0)]
AlphaTypesFull(z) == [i \in 1..65536 |-> [BaseLine EXCEPT !.ty = (i - 1) \div 256, !.snd = (i - 1) % 256,
                                                        !.nf = 6, !.bi = Bi(5, 2, 3, 0, 0, ""),
                                                        !.endc = "num", !.end = 2500]]

\* (b) the new-combo rule across lines
AlphaCombo(z) == <<Circle(1, 0), Circle(5, 0), Circle(21, 0), Circle(17, 0), Circle(9, 0), Circle(117, 2),
                Slider(<<"L", "A">>), [Slider(<<"L", "A">>) EXCEPT !.ty = 38], [Slider(<<"L", "A">>) EXCEPT !.ty = 10],
                Spinner, [Spinner EXCEPT !.ty = 12], [Spinner EXCEPT !.ty = 28],
                Hold, [Hold EXCEPT !.ty = 132],
                [Circle(1, 0) EXCEPT !.tyc = "bad"], [Circle(0, 0) EXCEPT !.ty = 4], [Spinner EXCEPT !.endc = "bad"]>>

\* (c) numeric classes
AlphaNum(z) ==
    <<[Circle(1, 0) EXCEPT !.xc = "frac", !.x = 256, !.yc = "frac", !.y = -5],
      [Circle(1, 0) EXCEPT !.xc = "f32up", !.x = 256, !.yc = "f32up", !.y = 192], [Circle(1, 0) EXCEPT !.xc = "f32up", !.x = 131072],
      [Circle(1, 0) EXCEPT !.yc = "f32up", !.y = -131072], [Circle(1, 0) EXCEPT !.xc = "f32up", !.x = -7, !.yc = "f32up", !.y = 1],
      [Spinner EXCEPT !.xc = "f32up", !.x = 77], [Hold EXCEPT !.xc = "f32up", !.x = 300],
      [Circle(1, 0) EXCEPT !.x = 131072, !.y = -131072],
      [Circle(1, 0) EXCEPT !.xc = "bad"], [Circle(1, 0) EXCEPT !.yc = "bad"], [Circle(1, 0) EXCEPT !.tc = "bad"],
      [Circle(1, 0) EXCEPT !.sc = "bad"], [Circle(1, 0) EXCEPT !.nf = 4], [Circle(1, 0) EXCEPT !.nf = 5],
      [Circle(1, 258) EXCEPT !.t = -7],
      [Slider(<<"L", "A">>) EXCEPT !.rep = 9000], [Slider(<<"L", "A">>) EXCEPT !.rep = 9001],
      [Slider(<<"L", "A">>) EXCEPT !.rep = 0], [Slider(<<"L", "A">>) EXCEPT !.rep = -3], [Slider(<<"L", "A">>) EXCEPT !.rep = 3],
      [Slider(<<"L", "A">>) EXCEPT !.repc = "bad"], [Slider(<<"L", "A">>) EXCEPT !.nf = 6], [Slider(<<"L", "A">>) EXCEPT !.nf = 7],
      [Slider(<<"L", "A">>) EXCEPT !.len = 0], [Slider(<<"L", "A">>) EXCEPT !.len = -4], [Slider(<<"L", "A">>) EXCEPT !.len = 131072],
      [Slider(<<"L", "A">>) EXCEPT !.lenc = "bad"], [Slider(<<"L", "A">>) EXCEPT !.lenc = "tiny"],
      [Spinner EXCEPT !.end = 500], [Spinner EXCEPT !.end = 1000], [Spinner EXCEPT !.nf = 5], [Spinner EXCEPT !.nf = 6],
      [Spinner EXCEPT !.endc = "bad"], [Spinner EXCEPT !.xc = "frac", !.x = 77],
      [Hold EXCEPT !.end = 500], [Hold EXCEPT !.nf = 5], [Hold EXCEPT !.endc = "empty"], [Hold EXCEPT !.endc = "bad"],
      [Hold EXCEPT !.xc = "frac", !.x = 300], Hold, Spinner>>

\* (d) bank infos and node lists
BiSet(z) == {Bi(n, b1, b2, cu, vo, fn) : n \in {0, 2, 3, 4, 5}, b1 \in {0, 2, 7}, b2 \in {0, 3}, cu \in {0, 2}, vo \in {0, 40}, fn \in {"", "f.wav"}}
         \cup {[Bi(5, 1, 1, 0, 0, "") EXCEPT !.b1c = c] : c \in {"bad", "empty"}}
         \cup {[Bi(5, 1, 1, 0, 0, "") EXCEPT !.b2c = c] : c \in {"bad", "empty"}}
         \cup {[Bi(5, 1, 1, 0, 0, "") EXCEPT !.cuc = c] : c \in {"bad", "empty"}}
         \cup {[Bi(5, 1, 1, 0, 0, "") EXCEPT !.voc = c] : c \in {"bad", "empty"}}
         \cup {Bi(1, 2, 0, 0, 0, ""), Bi(4, 1, 2, 3, -9, "")}
         \* a negative custom index, custom index 1, volumes above 100
         \cup {Bi(5, 1, 1, -1, 0, ""), Bi(5, 0, 0, 1, 101, ""), Bi(5, 2, 0, -2147483647, 150, ""), Bi(3, 3, 3, -7, 0, "")}
AlphaBank(z) ==
    SetToSeq({[Circle(1, s) EXCEPT !.bi = b] : s \in {0, 1, 2, 14}, b \in BiSet(0)})
    \o SetToSeq({[Spinner EXCEPT !.bi = b, !.snd = 4] : b \in BiSet(0)})
    \o SetToSeq({[Hold EXCEPT !.bi = b, !.snd = 8] : b \in BiSet(0)})
    \o SetToSeq({[Slider(<<"L", "A">>) EXCEPT !.nf = 11, !.bi = b, !.snd = 2] : b \in BiSet(0)})

NodeBiSet(z) == {Bi(2, 0, 0, 0, 0, ""), Bi(2, 2, 3, 0, 0, ""), Bi(5, 1, 0, 2, 30, "n.wav"), Bi(1, 1, 0, 0, 0, ""),
              [Bi(2, 1, 1, 0, 0, "") EXCEPT !.b1c = "bad"], Bi(0, 0, 0, 0, 0, "")}
AlphaNodes(z) ==
    SetToSeq({[Slider(<<"L", "A">>) EXCEPT !.nf = nf, !.rep = r, !.snd = 4, !.nsnd = ns, !.nbank = nb, !.bi = Bi(2, 3, 0, 0, 0, "")] :
        nf \in {8, 9, 10, 11}, r \in {1, 2},
        ns \in {<<>>, <<2>>, <<2, 8, 0>>, <<-1, 2, 4, 8>>},
        nb \in {<<>>} \cup {<<a>> : a \in NodeBiSet(0)} \cup {<<a, b>> : a \in {Bi(2, 2, 3, 0, 0, "")}, b \in NodeBiSet(0)}
               \cup {<<Bi(2, 1, 1, 0, 0, ""), Bi(2, 1, 1, 0, 0, ""), Bi(2, 2, 2, 0, 0, ""), Bi(2, 3, 3, 0, 0, "")>>}})

\* a reduced node alphabet for SEQUENCES of sliders (what one slider's node lists may leave behind for the next):
\* long and short forms, node bank lists that fail after a good entry
AlphaNodes2(z) ==
    SetToSeq({[Slider(<<"L", "A">>) EXCEPT !.nf = nf, !.rep = r, !.snd = 4, !.nbank = nb, !.bi = Bi(2, b, 0, 0, 0, "")] :
        nf \in {8, 10}, r \in {1, 2}, b \in {0, 3},
        nb \in {<<>>, <<Bi(2, 2, 3, 0, 0, "")>>, <<Bi(2, 2, 3, 0, 0, ""), [Bi(2, 1, 1, 0, 0, "") EXCEPT !.b1c = "bad"]>>,
                 <<[Bi(2, 1, 1, 0, 0, "") EXCEPT !.b1c = "bad"]>>, <<Bi(2, 3, 2, 0, 0, ""), Bi(2, 1, 1, 0, 0, ""), Bi(2, 2, 2, 0, 0, "")>>}})

\* (e) path strings: every token string up to a length over a token alphabet
RECURSIVE TokSeqs(_, _)
TokSeqs(S, n) == IF n = 0 THEN {<<>>} ELSE LET R == TokSeqs(S, n - 1) IN R \cup {Append(q, x) : q \in R, x \in S}
PathToks == {"B", "L", "P", "C", "O", "A", "Bc", "Cn", "bad", "empty"}
PathToksX == PathToks \cup {"X", "B3", "B0", "A2"}
AlphaPathX(n) == SetToSeq({Slider(p) : p \in TokSeqs(PathToksX, n) \ {<<>>}})
AlphaPath(n)  == SetToSeq({Slider(p) : p \in TokSeqs(PathToks, n) \ {<<>>}})
AlphaPathR(n) == SetToSeq({Slider(p) : p \in TokSeqs(PathToks \ {"empty", "C"}, n) \ {<<>>}})
\* a perfect-curve segment that is NOT the first segment (its first vertex is not the origin)
AlphaPSeg(z) == SetToSeq({Slider(<<t1, p1, "P", a, b, c>>) : t1 \in {"B", "L"}, p1 \in {"A", "Cn"}, a \in {"O", "A", "Bc", "Cn"},
                                                               b \in {"O", "A", "Bc", "Cn"}, c \in {"O", "A", "Bc", "Cn"}})
                \o SetToSeq({Slider(<<"P", a, b, "P", c, d, e>>) : a \in {"A", "Cn"}, b \in {"Bc", "Cn"}, c \in {"A", "Cn"},
                                                                    d \in {"O", "Bc"}, e \in {"A", "Bc", "Cn"}})

\* perfect-curve segments through far-away points (G1, G2 collinear with O; A and Cn clearly not)
AlphaPBig(z) == SetToSeq({Slider(<<"P", a, b>>) : a \in {"G1", "G2", "A"}, b \in {"G1", "G2", "Cn"}})
                \o SetToSeq({Slider(<<"L", "A", "P", a, b, c>>) : a \in {"O", "A"}, b \in {"G1", "G2", "O"}, c \in {"G1", "G2", "O", "Cn"}})
\* narrow and deep: every token string up to n tokens over few tokens (later segments with duplicates, letters in a row ...)
AlphaPDeep(n) == SetToSeq({Slider(p) : p \in TokSeqs(IF n <= 7 THEN {"B", "C", "A", "Cn"} ELSE {"B", "C", "P", "O", "A", "Cn"}, IF n <= 7 THEN n ELSE n - 1) \ {<<>>}})

\* (f) C06: failing multi-segment paths followed by good sliders
FailingPaths(n) == {p \in TokSeqs(PathToks \ {"C", "Bc"}, n) : p # <<>> /\ ~DecPath(p).ok /\ DecPathFull(p).partial # <<>>}
GoodPaths(z) == {<<"L", "A">>, <<"B", "A", "Cn">>, <<"P", "A", "Cn">>, <<"B", "A", "B", "Cn">>, <<"C">>}
\* a smaller variant (fewer tokens) for sequences of three lines
FailingPathsSmall(n) == {p \in TokSeqs({"B", "L", "O", "A", "bad"}, n) : p # <<>> /\ ~DecPath(p).ok /\ DecPathFull(p).partial # <<>>}
AlphaResidueSmall(n) == SetToSeq({Slider(p) : p \in FailingPathsSmall(n)}) \o SetToSeq({Slider(p) : p \in GoodPaths(0)})
                        \o <<Circle(1, 0), Spinner>>
AlphaResidue(n) == SetToSeq({Slider(p) : p \in FailingPaths(n)}) \o SetToSeq({Slider(p) : p \in GoodPaths(0)})
                \o <<Circle(1, 0), Spinner, [Slider(<<"L", "A">>) EXCEPT !.repc = "bad"]>>

\* Only the selected alphabet is ever evaluated (TLC precomputes every
\* parameterless constant definition, so the large ones take a parameter).
Alpha == CASE AlphaName = "typesquick" -> AlphaTypesQuick(0)
           [] AlphaName = "typesfull"  -> AlphaTypesFull(0)
           [] AlphaName = "combo"      -> AlphaCombo(0)
           [] AlphaName = "num"        -> AlphaNum(0)
           [] AlphaName = "bank"       -> AlphaBank(0)
           [] AlphaName = "nodes"      -> AlphaNodes(0)
           [] AlphaName = "nodes2"     -> AlphaNodes2(0)
           [] AlphaName = "pathx"      -> AlphaPathX(AlphaN)
           [] AlphaName = "path"       -> AlphaPath(AlphaN)
           [] AlphaName = "pathr"      -> AlphaPathR(AlphaN)
           [] AlphaName = "residue"    -> AlphaResidue(AlphaN)
           [] AlphaName = "pseg"       -> AlphaPSeg(0)
           [] AlphaName = "pbig"       -> AlphaPBig(0)
           [] AlphaName = "pdeep"      -> AlphaPDeep(AlphaN)
           [] AlphaName = "residuesmall" -> AlphaResidueSmall(AlphaN)

ASSUME Emit => PrintT("ALPHA " \o ToJson(Alpha))

\* ---- C02 / C04 at the level of whole lines: what `encode_hit_objects` writes for a decoded object ----------
\* (path tokens are PathCodec's subject, the sample lists SampleCodec's; here: type byte, hit-sound byte, position,
\* ends, span count, node lists.)  The objects are those of a file without timing points: every sample has taken the
\* default sample point's bank (normal), which Samples!Smp already shows for an unspecified bank.
EncTy(o) == (CASE o.k = "circle" -> 1 [] o.k = "slider" -> 2 [] o.k = "spinner" -> 8 [] OTHER -> 128)
            + (IF o.k # "hold" /\ o.nc THEN 4 ELSE 0)
            + (IF o.k \in {"circle", "slider"} THEN 16 * o.co ELSE 0)
EncOf(o) ==
    [ty |-> EncTy(o), snd |-> SoundOf(o.smp), x |-> o.x, y |-> IF o.k = "hold" THEN 192 ELSE o.y, t |-> o.t,
     end |-> o.t + o.dur, spans |-> o.rep + 1,
     nsnd |-> [i \in 1..Len(o.nodes) |-> SoundOf(o.nodes[i])],
     nbank |-> [i \in 1..Len(o.nodes) |-> EncBank(o.nodes[i], TRUE, FALSE)],
     bi |-> EncBank(o.smp, FALSE, FALSE)]
\* the encoded line as an abstract line again
EncLine(o) ==
    LET e == EncOf(o) IN
    [BaseLine EXCEPT !.x = e.x, !.y = e.y, !.t = e.t, !.ty = e.ty, !.snd = e.snd, !.bi = e.bi,
                     !.nf = (CASE o.k = "circle" -> 6 [] o.k = "slider" -> 11 [] o.k = "spinner" -> 7 [] OTHER -> 6),
                     !.path = EncPathWith(o.cps, TRUE, TRUE), !.rep = e.spans,
                     !.len = IF o.len = -1 THEN 77 ELSE o.len,          \* no requested length: the computed one is written
                     !.lenc = IF o.len = 0 THEN "tiny" ELSE "num",
                     !.nsnd = e.nsnd, !.nbank = e.nbank, !.endc = "num", !.end = e.end]
\* what C02 lists for an object, apart from the control points (PathCodec)
Core(o) == [k |-> o.k, x |-> o.x, y |-> o.y, t |-> o.t, nc |-> o.nc, co |-> o.co, rep |-> o.rep, dur |-> o.dur,
            haslen |-> o.len # -1 \/ o.k # "slider",
            smp |-> NamesBanks(o.smp), nodes |-> [i \in 1..Len(o.nodes) |-> NamesBanks(o.nodes[i])]]
NoNodeFiles(o) == \A i \in 1..Len(o.nodes) : \A j \in 1..Len(o.nodes[i]) : o.nodes[i][j].n # "file"

\* ---- state machine ---------------------------------------------------------
VARIABLES hist, last, residue, objs, done
vars == <<hist, last, residue, objs, done>>

Last0 == [k |-> "none", spin |-> FALSE]

Init == hist = <<>> /\ last = Last0 /\ residue = <<>> /\ objs = <<>> /\ done = FALSE

Accept(i) ==
    /\ Accepts(Alpha[i])
    /\ LET ln == Alpha[i] IN
       /\ objs' = Append(objs, Obj(ln, last, IF ClearOnEntry THEN <<>> ELSE residue))
       /\ last' = [k |-> KindOf(ln.ty), spin |-> Bit2(ln.ty, 8)]
    \* only a slider drains the scratch list
    /\ residue' = IF KindOf(Alpha[i].ty) = "slider" \/ ClearOnEntry THEN <<>> ELSE residue
    /\ hist' = Append(hist, i)
    /\ UNCHANGED done

Reject(i) ==
    /\ ~Accepts(Alpha[i])
    /\ residue' = IF ClearOnEntry THEN <<>> ELSE residue \o Leaves(Alpha[i])
    /\ hist' = Append(hist, i)
    /\ UNCHANGED <<last, objs, done>>

Finish ==
    /\ ~done /\ Len(hist) >= MinLines /\ done' = TRUE
    /\ (Emit => PrintT("CASE " \o ToJson([h |-> hist, objs |-> objs, last |-> last.k,
                        acc |-> [j \in 1..Len(hist) |-> Accepts(Alpha[hist[j]])],
                        enc |-> [j \in 1..Len(objs) |-> EncOf(objs[j])]])))
    /\ UNCHANGED <<hist, last, residue, objs>>

Next == (~done /\ Len(hist) < MaxLines /\ \E i \in 1..Len(Alpha) : Accept(i) \/ Reject(i)) \/ Finish
Spec == Init /\ [][Next]_vars

----------------------------------------------------------------------------
\* C06: the result is a fold of the accepted lines only
AcceptedIdx(h) == SelectSeq(h, LAMBDA i : Accepts(Alpha[i]))
RECURSIVE FoldAccepted(_, _, _)
FoldAccepted(h, l, acc) ==
    IF h = <<>> THEN acc
    ELSE LET ln == Alpha[Head(h)] IN
         FoldAccepted(Tail(h), [k |-> KindOf(ln.ty), spin |-> Bit2(ln.ty, 8)], Append(acc, Obj(ln, l, <<>>)))
RejectedHaveNoEffect == objs = FoldAccepted(AcceptedIdx(hist), Last0, <<>>)

PrevLast(j) == IF j = 1 THEN Last0 ELSE [k |-> objs[j - 1].k, spin |-> objs[j - 1].k = "spinner"]
LineCodec ==
    \A j \in 1..Len(objs) : LET o == objs[j]  e == EncLine(o) IN
        /\ Accepts(e)
        /\ NoNodeFiles(o) => [Core(Obj(e, PrevLast(j), <<>>)) EXCEPT !.haslen = TRUE] = [Core(o) EXCEPT !.haslen = TRUE]

\* C14 structural facts of every accepted object
ObjShape ==
    \A j \in 1..Len(objs) : LET o == objs[j] IN
        /\ o.k \in {"circle", "slider", "spinner", "hold"}
        /\ Len(o.smp) >= 1
        /\ (o.k = "slider" => /\ (WellFormed(o.cps) \/ ~ClearOnEntry)
                              /\ Len(o.nodes) = o.rep + 2 /\ o.rep >= 0 /\ o.rep <= 8999
                              /\ (o.len = -1 \/ o.len >= 0))       \* 0 = the class of tiny positive lengths
        /\ (o.k \in {"spinner", "hold"} => o.dur >= 0)
        /\ (o.k = "hold" => ~o.nc)
        /\ (o.co # 0 => o.nc)
        /\ (j = 1 /\ o.k \in {"circle", "slider"} => o.nc)
        /\ (j > 1 /\ o.k \in {"circle", "slider"} /\ objs[j - 1].k = "spinner" /\ LastByKind => o.nc)

=============================================================================
