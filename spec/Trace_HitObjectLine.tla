------------------------- MODULE Trace_HitObjectLine -------------------------
(***************************************************************************)
(* Trace validation for C14 / C06: long random sequences of hit-object      *)
(* lines (valid and hostile, all kinds mixed) fed one by one to the real    *)
(* `parse_hit_objects` on its public state.  The harness logs the abstract  *)
(* line it spelled, whether the parser returned Ok, and - if so - the       *)
(* object that was appended.                                                *)
(*   {"ev":"Reset"}                                                         *)
(*   {"ev":"Line","ln":<line>,"ok":b,"obj":<object>}                        *)
(* Every event must be explained by HitObjectLine's Accepts / Obj with the  *)
(* state (last object kind) carried along; a rejected line is a stutter.    *)
(***************************************************************************)
EXTENDS HitObjectLine, IOUtils

Rec == ndJsonDeserialize(IOEnv.TRACE)
VARIABLE l
tvars == <<vars, l>>
Ev_ == Rec[l]
More == l <= Len(Rec)

TrInit == hist = <<>> /\ last = Last0 /\ residue = <<>> /\ objs = <<>> /\ done = FALSE /\ l = 1

TrReset == /\ More /\ Ev_.ev = "Reset"
           /\ last' = Last0 /\ objs' = <<>> /\ residue' = <<>>
           /\ UNCHANGED <<hist, done>>
           /\ l' = l + 1

TrLine ==
    /\ More /\ Ev_.ev = "Line"
    /\ LET ln == Ev_.ln IN
       /\ Ev_.ok = Accepts(ln)
       /\ IF Ev_.ok
          THEN /\ Ev_.obj = Obj(ln, last, <<>>)
               /\ last' = [k |-> KindOf(ln.ty), spin |-> Bit2(ln.ty, 8)]
               \* only the newest object is kept: the trace may be long
               /\ objs' = <<Ev_.obj>>
          ELSE UNCHANGED <<last, objs>>
    /\ UNCHANGED <<hist, residue, done>>
    /\ l' = l + 1

TrNext == TrReset \/ TrLine
TrSpec == TrInit /\ [][TrNext]_tvars

TrShape == \A j \in 1..Len(objs) : objs[j].k \in {"circle", "slider", "spinner", "hold"} /\ Len(objs[j].smp) >= 1

Accepted ==
    LET d == TLCGet("stats").diameter IN
    IF d = Len(Rec) + 1 THEN TRUE
    ELSE /\ PrintT(<<"TRACE-REJECTED at event", d, Rec[d]>>)
         /\ FALSE
=============================================================================
