----------------------------- MODULE TimingEncode -----------------------------
(***************************************************************************)
(* C02 / C04 for the [TimingPoints] section: `encode_timing_points`         *)
(* (src/encode.rs) transcribed and composed with the decoder of             *)
(* TimingLines.  For a map without hit objects the encoder                  *)
(*   - builds one group per distinct time of any of the four lists,         *)
(*   - computes the legacy properties active at the group's time            *)
(*     (ControlPointProperties::new, with `last_props`),                    *)
(*   - writes the timing line of the group (if any) and then an inherited   *)
(*     line unless the properties repeat the previous ones.                 *)
(* Encoded lines are TimingLines line records, so `Dec(Enc(cp))` is a term. *)
(*   ScrollAsVelocity  TRUE: in taiko / mania the velocity written is the   *)
(*                     effect point's scroll speed (intended, as lazer);    *)
(*                     FALSE: always the difficulty point's velocity        *)
(***************************************************************************)
EXTENDS TimingLines

CONSTANTS ScrollAsVelocity, EmitEnc

GroupTimes(cp) == {cp.tim[i].t : i \in 1..Len(cp.tim)} \cup {cp.dif[i].t : i \in 1..Len(cp.dif)}
                  \cup {cp.eff[i].t : i \in 1..Len(cp.eff)} \cup {cp.smp[i].t : i \in 1..Len(cp.smp)}
RECURSIVE SortSet(_)
SortSet(S) == IF S = {} THEN <<>> ELSE LET m == CHOOSE x \in S : \A y \in S : x <= y IN <<m>> \o SortSet(S \ {m})

Props0 == [sv |-> 0, sig |-> 0, bank |-> 0, custom |-> 0, vol |-> 0, flags |-> 0]
HasTiming(cp, g) == \E i \in 1..Len(cp.tim) : cp.tim[i].t = g
TimingAt(cp, g) == cp.tim[LookupIdx(cp, "tim", g)]

PropsAt(cp, g, last, upd, gn) ==
    LET ti == LookupIdx(cp, "tim", g)
        sm == SmpAt(cp, g)
        velocity == IF ScrollAsVelocity /\ Scrolling(gn) THEN ScrollAt(cp, g) ELSE SvAt(cp, g)
    IN [sv |-> velocity,
        sig |-> IF ti > 0 THEN cp.tim[ti].sig ELSE 4,
        bank |-> IF upd THEN sm.bank ELSE last.bank,
        custom |-> IF sm.custom >= 0 THEN sm.custom ELSE last.custom,
        vol |-> Clamp(sm.vol, 0, 100),
        flags |-> (IF KiaiAt(cp, g) THEN 1 ELSE 0) + (IF ti > 0 /\ cp.tim[ti].omit THEN 8 ELSE 0)]

EncLine(tau, unin, bl, props) ==
    [Base(tau) EXCEPT !.bl = bl, !.unin = unin, !.sig = props.sig, !.bank = props.bank, !.custom = props.custom,
                      !.vol = props.vol, !.flags = props.flags,
                      !.sigc = "num", !.nf = 8]

RECURSIVE EncGroups(_, _, _, _)
EncGroups(cp, gs, last, gn) ==
    IF gs = <<>> THEN <<>> ELSE
    LET g     == Head(gs)
        ht    == HasTiming(cp, g)
        props == PropsAt(cp, g, last, ht, gn)
        tline == IF ht THEN <<EncLine(g, TRUE, TimingAt(cp, g).bl, props)>> ELSE <<>>
        last1 == IF ht THEN [props EXCEPT !.sv = 1000] ELSE last
        red   == props = last1
        \* -100 / velocity, exact on the alphabets used (velocities divide 100000)
        iline == IF red THEN <<>> ELSE <<EncLine(g, FALSE, -(100000 \div props.sv), props)>>
        last2 == IF red THEN last1 ELSE props
    IN tline \o iline \o EncGroups(cp, Tail(gs), last2, gn)

Encode(cp, gn) == EncGroups(cp, SortSet(GroupTimes(cp)), Props0, gn)

\* decode a sequence of line RECORDS with the TimingLines operators
RECURSIVE DecRecs(_, _, _)
DecRecs(s, ls, gn) == IF ls = <<>> THEN Flush(s).cp
                      ELSE DecRecs(IF Accepts(Head(ls)) THEN DecLine(s, Head(ls), gn) ELSE s, Tail(ls), gn)

Chronological(h) == \A j \in 1..(Len(h) - 1) : Alpha[h[j]].tau <= Alpha[h[j + 1]].tau

Cp1 == Result
Enc == Encode(Cp1, gen)
\* the re-decoded map: the encoder writes `SampleSet` from the first sample point and no SampleVolume
Gen2 == [gen EXCEPT !.bank = IF Len(Cp1.smp) > 0 THEN Cp1.smp[1].bank ELSE 1, !.vol = 100]
Cp2 == DecRecs(EmptySt, Enc, Gen2)

\* C04: every encoded timing line is accepted by the decoder
EncAccepted == done => \A j \in 1..Len(Enc) : Accepts(Enc[j])

\* C02: identical timing points, identical effective velocity / kiai / scroll timelines
SameTimelines(a, b, g) ==
    /\ a.tim = b.tim
    /\ \A t \in GroupTimes(a) \cup GroupTimes(b) :
          /\ SvAt(a, t) = SvAt(b, t)
          /\ KiaiAt(a, t) = KiaiAt(b, t)
          /\ ScrollAt(a, t) = ScrollAt(b, t)
\* Known shape outside the claim (DESIGN 7): two DIFFERENT times closer than f64::EPSILON (0 and 0+).
\* The encoder writes one group per distinct time, the decoder merges close times into one group.
SubEpsilon(h) == \E j \in 1..Len(h) : Alpha[h[j]].tau % 2 = 1
RoundTrip == (done /\ Chronological(hist) /\ ~SubEpsilon(hist)) => SameTimelines(Cp1, Cp2, gen)

EmitEncCase == (done /\ EmitEnc) =>
    PrintT("CASE " \o ToJson([g |-> gen, h |-> hist, chrono |-> Chronological(hist), enc |-> Enc,
                              same |-> SameTimelines(Cp1, Cp2, gen), subeps |-> SubEpsilon(hist)]))
=============================================================================
