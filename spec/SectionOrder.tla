----------------------------- MODULE SectionOrder -----------------------------
(***************************************************************************)
(* Sections may repeat and appear in any order (C05), and several parsers   *)
(* read [General] values AT THE MOMENT a line is parsed: a timing line uses *)
(* the mode (scroll speed only in taiko/mania), the default sample bank and *)
(* the default volume that are in effect when it is read.  This module      *)
(* lets [General] records arrive BETWEEN timing lines: SetGen changes the   *)
(* general values in the middle of the history, every later line is decoded *)
(* with the new ones, earlier lines keep what they were decoded with.       *)
(* Bound to the code by spelling the history as a file that switches        *)
(* between [General] and [TimingPoints] and comparing the four lists.       *)
(***************************************************************************)
EXTENDS TimingLines

CONSTANTS MaxSwitches, EmitOrder

VARIABLES g0, gh
ovars == <<vars, g0, gh>>

OInit == Init /\ g0 = gen /\ gh = <<>>

\* a [General] block in the middle of the file
SetGen(g) ==
    /\ ~done /\ Len(gh) < MaxSwitches /\ g # gen
    /\ gen' = g
    /\ gh' = Append(gh, [at |-> Len(hist), g |-> g])
    /\ UNCHANGED <<hist, st, done, g0>>

ONext == (\E g \in Gens : SetGen(g)) \/ (Next /\ UNCHANGED <<g0, gh>>)
OSpec == OInit /\ [][ONext]_ovars

\* the general values line j (1-based) was decoded with
GenAt(j) == LET before == {k \in 1..Len(gh) : gh[k].at < j} IN
            IF before = {} THEN g0 ELSE gh[CHOOSE k \in before : \A m \in before : m <= k].g

\* declaratively: fold the accepted lines, each with the general values in effect when it was read
RECURSIVE FoldLines(_, _)
FoldLines(s, j) == IF j > Len(hist) THEN Flush(s).cp
                   ELSE LET ln == Alpha[hist[j]] IN
                        FoldLines(IF Accepts(ln) THEN DecLine(s, ln, GenAt(j)) ELSE s, j + 1)
OrderRefines == done => st.cp = FoldLines(EmptySt, 1)

\* lists stay sorted whatever the interleaving
OrderShape == StrictlySorted(st.cp) /\ StrictlySorted(Result)

EmitOrderCase == (done /\ EmitOrder) =>
    PrintT("CASE " \o ToJson([g0 |-> g0, gh |-> gh, h |-> hist, cp |-> st.cp]))
=============================================================================
