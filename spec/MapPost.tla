------------------------------- MODULE MapPost -------------------------------
(***************************************************************************)
(* C15 - map-level processing of hit objects (`From<HitObjectsState> for    *)
(* HitObjects`, src/section/hit_objects/decode.rs): stable ordering by      *)
(* start time, new combos after breaks, slider velocity / duration, and the *)
(* sample defaults taken from the sample point active 5 ms after an         *)
(* object's end (slider nodes: 5 ms after each node).                       *)
(*                                                                          *)
(* The control points come from timing LINES through the TimingLines        *)
(* operators, so the model is the composition the decoder performs.         *)
(* Exactness rule: beat lengths 200/400/800, slider multipliers 0.5/1/2,    *)
(* velocities 0.5/1/2 and path lengths 100/200 make every velocity and      *)
(* duration a dyadic number, so durations are whole milliseconds and the    *)
(* `time + 5` lookups are decided exactly by the code's float arithmetic.   *)
(*                                                                          *)
(* An object is [id, k, t, nc, len, spans, dur, hs, bank, abank, vol, cu,   *)
(* file]:                                                                   *)
(*   id    position in the file (its x coordinate identifies it afterwards) *)
(*   k     "circle" | "slider" | "spinner" | "hold";  t start time          *)
(*   nc    new-combo flag as parsed from the line                           *)
(*   len/spans  slider: path length (a straight line) and span count        *)
(*   dur   spinner / hold duration                                          *)
(*   hs    the hit-sound byte (2 whistle, 4 finish, 8 clap: one sample each *)
(*         besides the normal one, in the order normal, finish, whistle,    *)
(*         clap)                                                            *)
(*   bank/abank  normal / addition bank of the bank info (0 = unspecified;  *)
(*         an unspecified addition bank falls back to the normal one)       *)
(*   vol, cu   volume (0 = take the point's), custom index (0 = the point's)*)
(*   file  the bank info names a sample FILE: one file sample replaces the  *)
(*         normal one and takes only its volume from the point              *)
(*                                                                          *)
(* Profile "base": up to MaxObjs objects over the full product alphabet.    *)
(* Profile "wide": exactly MaxObjs objects over kinds x times with one      *)
(* sample shape per case, sliders with three spans, all four modes, sample  *)
(* points with custom indices 1 and 2.                                      *)
(***************************************************************************)
EXTENDS TimingLines

CONSTANTS MaxObjs, TimesSet, EmitPost, Profile, SortedBreakEnds

\* ---- inputs ---------------------------------------------------------------------
TL(tau, unin, bl, bank, vol, cu) ==
    [Base(tau) EXCEPT !.unin = unin, !.bl = bl, !.bank = bank, !.vol = vol, !.custom = cu]

\* timing sections (sequences of lines; taus are 2 * milliseconds)
TimingSeq ==
    << <<TL(0, TRUE, 400, 1, 100, 0)>>,
       <<TL(0, TRUE, 400, 2, 60, 0), TL(2000, FALSE, -50, 2, 60, 0), TL(2810, FALSE, -50, 3, 30, 2)>>,
       <<TL(2000, TRUE, 800, 1, 100, 0), TL(2410, FALSE, -200, 3, 50, 0), TL(2010, FALSE, -200, 2, 70, 0)>>,
       <<TL(0, TRUE, 200, 3, 40, 5), TL(2010, TRUE, 400, 1, 80, 0), TL(4010, FALSE, -100, 2, 0, 0)>>,
       <<>>,
       <<TL(0, TRUE, 400, 1, 100, 1), TL(2000, FALSE, -400, 2, 45, 2), TL(2410, FALSE, -25, 3, 5, 1), TL(3200, FALSE, -100, 1, 100, 7)>>,
       \* velocity multipliers beyond their clamp [0.1, 10]: -2000 asks for 0.05, -5 for 20
       \* (and volumes beyond [0, 100]: 130 is read as 100, -20 as 0)
       <<TL(0, TRUE, 400, 1, 100, 0), TL(2000, FALSE, -2000, 2, 130, 0), TL(2010, FALSE, -5, 3, -20, 0)>> >>
\* (TimesSet = "tiny" is the every-change budget of the wide profile: fewer sections, breaks, modes and shapes)
TimingChoices == IF TimesSet = "tiny" THEN {2, 4, 6, 7} ELSE 1..Len(TimingSeq)

Obj(id, k, t, nc, len, spans, dur, s) ==
    [id |-> id, k |-> k, t |-> t, nc |-> nc, len |-> len, spans |-> spans, dur |-> dur,
     hs |-> s.hs, bank |-> s.bank, abank |-> s.abank, vol |-> s.vol, cu |-> s.cu, file |-> s.file]
\* the object alphabet, without the id
ObjKinds ==
    IF Profile = "wide"
    THEN { [k |-> "circle", len |-> 0, spans |-> 1, dur |-> 0], [k |-> "slider", len |-> 100, spans |-> 3, dur |-> 0],
           [k |-> "spinner", len |-> 0, spans |-> 1, dur |-> 1000], [k |-> "hold", len |-> 0, spans |-> 1, dur |-> 400] }
    ELSE { [k |-> "circle", len |-> 0, spans |-> 1, dur |-> 0], [k |-> "slider", len |-> 100, spans |-> 1, dur |-> 0],
           [k |-> "slider", len |-> 200, spans |-> 2, dur |-> 0], [k |-> "spinner", len |-> 0, spans |-> 1, dur |-> 1000],
           [k |-> "hold", len |-> 0, spans |-> 1, dur |-> 400] }
ObjTimes == IF TimesSet \in {"small", "tiny"} THEN {0, 1000, 1005} ELSE {0, 1000, 1005, -500, 2000}
Smp(hs, bank, abank, vol, cu, file) == [hs |-> hs, bank |-> bank, abank |-> abank, vol |-> vol, cu |-> cu, file |-> file]
ObjSamples ==
    IF Profile = "wide"
    THEN { Smp(2, 0, 3, 0, 0, FALSE), Smp(14, 2, 0, 0, 1, FALSE), Smp(5, 3, 1, 150, 2, FALSE), Smp(8, 2, 3, 0, 4, TRUE) }
         \cup (IF TimesSet = "tiny" THEN {} ELSE { Smp(0, 0, 0, 0, 0, FALSE), Smp(0, 0, 0, 35, 0, TRUE) })
    ELSE { Smp(0, 0, 0, 0, 0, FALSE), Smp(0, 3, 0, 25, 1, FALSE) }

RECURSIVE ObjSeqs(_)
ObjSeqs(n) == IF n = 0 THEN {<<>>}
              ELSE LET Q == ObjSeqs(n - 1) IN
                   Q \cup {Append(q, Obj(Len(q) + 1, o.k, t, nc, o.len, o.spans, o.dur, s)) :
                               q \in {x \in Q : Len(x) = n - 1}, o \in ObjKinds, t \in ObjTimes, nc \in BOOLEAN, s \in ObjSamples}
\* wide: exactly n objects, one sample shape for the whole case, combo flag only on the second object
RECURSIVE WideSeqs(_, _)
WideSeqs(n, s) == IF n = 0 THEN {<<>>}
                  ELSE {Append(q, Obj(Len(q) + 1, o.k, t, Len(q) = 1, o.len, o.spans, o.dur, s)) :
                            q \in WideSeqs(n - 1, s), o \in ObjKinds, t \in ObjTimes}
ObjChoices == IF Profile = "wide" THEN UNION {WideSeqs(MaxObjs, s) : s \in ObjSamples} ELSE ObjSeqs(MaxObjs)

\* (the last list of each set is NOT in chronological order: the statement does not ask the file for that)
BreakChoices == IF TimesSet = "tiny" THEN { <<>>, <<<<100, 999>>, <<1200, 1999>>>>, <<<<1000, 1000>>>>, <<<<1001, 1003>>, <<100, 999>>>> }
                ELSE { <<>>, <<<<500, 900>>>>, <<<<100, 999>>, <<1200, 1999>>>>, <<<<1000, 1000>>>>, <<<<-800, -501>>>>,
                       <<<<1001, 1003>>, <<100, 999>>>> }
SMChoices == IF Profile = "wide" THEN {1000} ELSE {500, 2000}      \* slider multiplier in thousandths
ModeChoices == IF Profile = "wide" THEN (IF TimesSet = "tiny" THEN {"taiko", "catch"} ELSE {"osu", "taiko", "catch", "mania"})
               ELSE {"osu", "mania"}

VARIABLES inp, out, pdone
pvars == <<inp, out, pdone>>

\* ---- the processing -----------------------------------------------------------------
Gen0(m) == [mode |-> m, bank |-> 0, vol |-> 100]
CpOfRaw(timing, mode, shift) ==
    LET RECURSIVE D(_, _)
        D(s, ls) == IF ls = <<>> THEN Flush(s).cp ELSE D(DecLine(s, Head(ls), Gen0(mode)), Tail(ls))
    IN D(EmptySt, IF shift = 0 THEN TimingSeq[timing]
                  ELSE [j \in 1..Len(TimingSeq[timing]) |-> [TimingSeq[timing][j] EXCEPT !.tau = @ + 2 * shift]])
\* the unshifted decodes, computed once (TLC evaluates a constant definition a single time)
CpTab == [tm \in (1..Len(TimingSeq)) \X {"osu", "taiko", "catch", "mania"} |-> CpOfRaw(tm[1], tm[2], 0)]
CpOf(i) == IF i.shift = 0 THEN CpTab[<<i.timing, i.mode>>] ELSE CpOfRaw(i.timing, i.mode, i.shift)

\* stable sort by start time (insertion of each object after all objects with time <= its own)
RECURSIVE InsertSorted(_, _)
InsertSorted(l, o) == IF l = <<>> THEN <<o>>
                      ELSE IF Head(l).t <= o.t THEN <<Head(l)>> \o InsertSorted(Tail(l), o) ELSE <<o>> \o l
RECURSIVE SortStable(_, _)
SortStable(l, acc) == IF l = <<>> THEN acc ELSE SortStable(Tail(l), InsertSorted(acc, Head(l)))

\* post_process_breaks: a break whose end lies before the object forces a new combo on it.  The sweep walks the
\* break END TIMES in ascending order (SortedBreakEnds = TRUE, the code since its repair); with FALSE it walks the
\* breaks in file order, as the pinned code did - which misses a break listed after a later one.
InsertEnd(l, e) == LET RECURSIVE I(_) I(r) == IF r = <<>> THEN <<e>> ELSE IF Head(r) <= e THEN <<Head(r)>> \o I(Tail(r)) ELSE <<e>> \o r IN I(l)
RECURSIVE SortEnds(_, _)
SortEnds(brks, acc) == IF brks = <<>> THEN acc ELSE SortEnds(Tail(brks), InsertEnd(acc, Head(brks)[2]))
BreakEnds(brks) == IF SortedBreakEnds THEN SortEnds(brks, <<>>) ELSE [j \in 1..Len(brks) |-> brks[j][2]]
\* holdsCarry = TRUE is the statement ("the first object after each break starts a new combo" - whatever its kind);
\* FALSE is the code: a hold note has no combo flag to set, yet it uses the break up, so that neither it nor the
\* object after it starts a combo (known finding, C15).
RECURSIVE SweepEndsX(_, _, _, _, _)
SweepEndsX(objs, ends, cur, acc, holdsCarry) ==
    IF objs = <<>> THEN acc ELSE
    LET h == Head(objs)
        RECURSIVE Adv(_)
        Adv(c) == IF c <= Len(ends) /\ ends[c] < h.t THEN Adv(c + 1) ELSE c
        c2 == Adv(cur)
        force == c2 > cur
    IN SweepEndsX(Tail(objs), ends, c2, Append(acc, IF h.k = "hold" /\ ~holdsCarry THEN h ELSE [h EXCEPT !.nc = @ \/ force]), holdsCarry)
SweepEnds(objs, ends, cur, acc) == SweepEndsX(objs, ends, cur, acc, FALSE)
Sweep(objs, brks, cur, acc) == SweepEnds(objs, BreakEnds(brks), cur, acc)

\* the samples of an object as PARSED (SampleBankInfo::convert_sound_type): the normal sample (or
\* the file sample), then one addition per hit-sound bit in the order finish, whistle, clap
HasBit(hs, b) == (hs \div b) % 2 = 1
OneSmp(name, b, vol, cu, layered) ==
    [name |-> name, bank |-> IF b = 0 THEN 1 ELSE b, spec |-> b # 0, vol |-> IF vol < 0 THEN 0 ELSE vol, cu |-> cu,      \* a negative volume is read as 0
     suffix |-> IF cu >= 2 THEN cu ELSE 0, layered |-> layered]
ParsedSamples(o) ==
    LET ab == IF o.abank # 0 THEN o.abank ELSE o.bank
        first == IF o.file THEN OneSmp("file", 0, o.vol, 1, FALSE)
                 ELSE OneSmp("normal", o.bank, o.vol, o.cu, o.hs # 0 /\ ~HasBit(o.hs, 1))
        add(b, name) == IF HasBit(o.hs, b) THEN <<OneSmp(name, ab, o.vol, o.cu, FALSE)>> ELSE <<>>
    IN <<first>> \o add(4, "finish") \o add(2, "whistle") \o add(8, "clap")

\* SamplePoint::apply on one abstract sample
ApplyOne(s, sp) ==
    IF s.name # "file"
    THEN [s EXCEPT !.cu = IF @ = 0 THEN sp.custom ELSE @,
                   !.suffix = IF s.cu = 0 /\ sp.custom >= 2 THEN sp.custom ELSE @,
                   !.vol = IF @ = 0 THEN Clamp(sp.vol, 0, 100) ELSE @,
                   !.bank = IF s.spec THEN @ ELSE sp.bank,
                   !.spec = TRUE]
    ELSE [s EXCEPT !.bank = 1, !.suffix = 0, !.vol = IF @ = 0 THEN Clamp(sp.vol, 0, 100) ELSE @,
                   !.cu = 1, !.spec = FALSE, !.layered = FALSE]
ApplyPt(o, sp) == LET ps == ParsedSamples(o) IN [j \in 1..Len(ps) |-> ApplyOne(ps[j], sp)]
\* sample_point_at(time) with times in milliseconds (control points carry tau = 2 ms)
SmpAtMs(cp, ms) == SmpAt(cp, 2 * ms)

PostOne(o0, cp, sm, mode) ==
    LET \* a slider's own bank info is read "banks only": its samples never carry a volume, custom index or file
        o   == IF o0.k = "slider" THEN [o0 EXCEPT !.vol = 0, !.cu = 0, !.file = FALSE] ELSE o0
        bl  == BeatLenAt(cp, 2 * o.t)
        svm == SvAt(cp, 2 * o.t)
        \* get_precision_adjusted_beat_len: -100 / velocity as a beat length, clamped per mode, over 100;
        \* in thousandths: 1000000 / svm clamped to [100, 100000] (osu, catch) or [100, 10000] (taiko, mania)
        mult == Clamp(1000000 \div svm, 100, IF mode \in {"osu", "catch"} THEN 100000 ELSE 10000)
        \* velocity = 100 * multiplier / (beat length * mult), in MILLIONTHS of px/ms
        \* (written so that every intermediate value fits TLC's 32-bit integers)
        vel == (100 * sm * 1000) \div ((bl * mult) \div 1000)
        dur == IF o.k = "slider" THEN (o.spans * o.len * 1000000) \div vel ELSE o.dur
        end == o.t + dur
    IN [id |-> o.id, k |-> o.k, t |-> o.t, nc |-> o.nc,
        vel |-> IF o.k = "slider" THEN vel ELSE 0,
        dur |-> dur,
        smp |-> ApplyPt(o, SmpAtMs(cp, end + 5)),
        nodes |-> IF o.k = "slider"
                  THEN [n \in 1..(o.spans + 1) |-> ApplyPt(o, SmpAtMs(cp, o.t + ((n - 1) * dur) \div o.spans + 5))]
                  ELSE <<>>]

\* the combo flags as PARSED, in file order (HitObjectLine: a circle or slider that is the first
\* object or follows a spinner starts a new combo; holds have none)
ParsedNc(objs) ==
    [j \in 1..Len(objs) |->
        [objs[j] EXCEPT !.nc = IF objs[j].k \in {"circle", "slider"} THEN (@ \/ j = 1 \/ objs[j - 1].k = "spinner")
                               ELSE IF objs[j].k = "spinner" THEN @ ELSE FALSE]]

\* the processing for given control points (SectionFlow.tla supplies its own)
PostWithX(objs, breaks, sm, mode, cp, holdsCarry) ==
    LET s1 == SweepEndsX(SortStable(ParsedNc(objs), <<>>), BreakEnds(breaks), 1, <<>>, holdsCarry)
    IN [j \in 1..Len(s1) |-> PostOne(s1[j], cp, sm, mode)]
\* (SectionFlow.tla, which is about the dependence between sections, keeps the code's reading)
PostWith(objs, breaks, sm, mode, cp) == PostWithX(objs, breaks, sm, mode, cp, FALSE)
Post(i) == PostWithX(i.objs, i.breaks, i.sm, i.mode, CpOf(i), TRUE)
PostW(i) == PostWithX(i.objs, i.breaks, i.sm, i.mode, CpOf(i), FALSE)

\* ---- shifting every time of the input by k milliseconds -----------------------------
ShiftIn(i, k) ==
    [i EXCEPT !.shift = @ + k,
              !.objs = [j \in 1..Len(@) |-> [@[j] EXCEPT !.t = @ + k]],
              !.breaks = [j \in 1..Len(@) |-> <<@[j][1] + k, @[j][2] + k>>]]
ShiftOut(o, k) == [j \in 1..Len(o) |-> [o[j] EXCEPT !.t = @ + k]]

Init_ == /\ inp \in [timing : TimingChoices, objs : ObjChoices, breaks : BreakChoices, sm : SMChoices, mode : ModeChoices, shift : {0}]
         /\ out = <<>> /\ pdone = FALSE
         \* the variables of the extended TimingLines module are not used here
         /\ gen = Gen0("osu") /\ hist = <<>> /\ st = EmptySt /\ done = FALSE
Compute == /\ ~pdone /\ pdone' = TRUE /\ out' = Post(inp) /\ UNCHANGED <<inp, vars>>
           /\ (EmitPost => PrintT("CASE " \o ToJson([inp |-> inp, out |-> out', outw |-> PostW(inp)])))
ASSUME EmitPost => PrintT("ALPHA " \o ToJson(TimingSeq))

PSpec == Init_ /\ [][Compute]_<<pvars, vars>>

----------------------------------------------------------------------------
\* C15
SortedStable == pdone =>
    /\ \A j \in 1..(Len(out) - 1) : out[j].t <= out[j + 1].t
    /\ \A j \in 1..(Len(out) - 1) : out[j].t = out[j + 1].t => out[j].id < out[j + 1].id
    /\ Len(out) = Len(inp.objs)

\* the first object after each break that ends before it starts a new combo - of whatever kind
ComboAfterBreak == pdone =>
    \A b \in 1..Len(inp.breaks) : \A j \in 1..Len(out) :
        (/\ inp.breaks[b][2] < out[j].t
         /\ \A m \in 1..(j - 1) : ~(inp.breaks[b][2] < out[m].t)) => out[j].nc

\* closed forms (velocity in thousandths, durations in ms) restated from the statement
ClosedForms == pdone =>
    \A j \in 1..Len(out) : out[j].k = "slider" =>
        LET o == out[j]
            src == CHOOSE x \in {inp.objs[n] : n \in 1..Len(inp.objs)} : x.id = o.id
            cp == CpOf(inp)
        IN /\ (Profile # "wide") => o.vel * BeatLenAt(cp, 2 * o.t) = 100 * inp.sm * SvAt(cp, 2 * o.t)
           /\ o.dur * o.vel = src.spans * src.len * 1000000

\* shifting all times by a whole number of milliseconds shifts the result and changes nothing else
ShiftInvariant == pdone =>
    \A k \in (IF Profile = "wide" THEN {-7, 1000000} ELSE {-1000000, -7, 1, 1000000}) : Post(ShiftIn(inp, k)) = ShiftOut(out, k)
=============================================================================
