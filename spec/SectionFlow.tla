----------------------------- MODULE SectionFlow -----------------------------
(***************************************************************************)
(* How the sections of a file feed each other (Beatmap / HitObjects /       *)
(* TimingPoints decoders; src/beatmap.rs, src/section/hit_objects/decode.rs,*)
(* src/section/timing_points/decode.rs).                                    *)
(*                                                                          *)
(* Sections may come in any order and more than once, so a file is a        *)
(* sequence of ITEMS, each one record of some section:                      *)
(*   mode / bank / vol   [General]   Mode, SampleSet, SampleVolume          *)
(*   sm                  [Difficulty] SliderMultiplier                      *)
(*   brk                 [Events]    a break                                *)
(*   tl                  [TimingPoints] a line (TimingLines record)         *)
(*   obj                 [HitObjects] an object (MapPost record)            *)
(* The decoder state is what the nested state structs hold.  The data flow: *)
(*   * a timing line takes its default sample bank / volume and the         *)
(*     scrolling-mode test from [General] AS READ SO FAR (TimingLines!Gen); *)
(*   * everything else is combined when the file ends: the objects see the  *)
(*     FINAL control points, slider multiplier, breaks and mode.            *)
(* So the result depends only on: the subsequence of [General] and timing   *)
(* items, the subsequence of objects, the subsequence of breaks, and the    *)
(* last slider multiplier - the invariant FlowOnly below.                   *)
(***************************************************************************)
EXTENDS MapPost

CONSTANTS MaxItems, MinItems, EmitFlow     \* MinItems: finish only after this many items (0 for model checking; = MaxItems for `tlc -simulate`)

It(kind, v) == [kind |-> kind, v |-> v]
FlowLines ==
    << [Base(0) EXCEPT !.bl = 400, !.nf = 2],                                   \* timing, bank and volume from [General]
       [Base(2000) EXCEPT !.bl = 200, !.nf = 5, !.bank = 3, !.custom = 2],      \* timing, bank given, volume from [General]
       [Base(2000) EXCEPT !.bl = -50, !.unin = FALSE, !.bank = 2, !.vol = 30],  \* inherited: twice the velocity; scroll speed in taiko
       [Base(2810) EXCEPT !.bl = 400, !.nf = 2] >>
FlowObjs ==
    << [k |-> "circle", t |-> 1000, nc |-> FALSE, len |-> 0, spans |-> 1, dur |-> 0, hs |-> 0, bank |-> 0, abank |-> 0, vol |-> 0, cu |-> 0, file |-> FALSE],
       [k |-> "slider", t |-> 1000, nc |-> FALSE, len |-> 100, spans |-> 1, dur |-> 0, hs |-> 2, bank |-> 0, abank |-> 0, vol |-> 0, cu |-> 0, file |-> FALSE],
       [k |-> "circle", t |-> 0, nc |-> FALSE, len |-> 0, spans |-> 1, dur |-> 0, hs |-> 0, bank |-> 3, abank |-> 0, vol |-> 25, cu |-> 0, file |-> FALSE] >>
Items ==
    << It("mode", "taiko"), It("mode", "osu"), It("bank", 2), It("vol", 60), It("sm", 2000), It("brk", <<100, 999>>),
       It("tl", 1), It("tl", 2), It("tl", 3), It("tl", 4), It("obj", 1), It("obj", 2), It("obj", 3) >>

\* ---- the decoder state and one item -------------------------------------------------
FState0 == [g |-> [mode |-> "osu", bank |-> 0, vol |-> 100], sm |-> 1000, breaks |-> <<>>, ts |-> EmptySt, objs |-> <<>>]

Apply(fs, it) ==
    CASE it.kind = "mode" -> [fs EXCEPT !.g.mode = it.v]
      [] it.kind = "bank" -> [fs EXCEPT !.g.bank = it.v]
      [] it.kind = "vol"  -> [fs EXCEPT !.g.vol = it.v]
      [] it.kind = "sm"   -> [fs EXCEPT !.sm = it.v]
      [] it.kind = "brk"  -> [fs EXCEPT !.breaks = Append(@, it.v)]
      [] it.kind = "tl"   -> [fs EXCEPT !.ts = DecLine(@, FlowLines[it.v], fs.g)]
      [] it.kind = "obj"  -> [fs EXCEPT !.objs = Append(@, [FlowObjs[it.v] EXCEPT !.t = @] @@ [id |-> Len(fs.objs) + 1])]

RECURSIVE Fold(_, _)
Fold(fs, h) == IF h = <<>> THEN fs ELSE Fold(Apply(fs, Items[Head(h)]), Tail(h))

\* what the decoders return when the file ends
Outcome(fs) ==
    LET cp == Flush(fs.ts).cp IN
    [mode |-> fs.g.mode, bank |-> fs.g.bank, vol |-> fs.g.vol, sm |-> fs.sm, breaks |-> fs.breaks, cp |-> cp,
     objs |-> PostWith(fs.objs, fs.breaks, fs.sm, fs.g.mode, cp)]

VARIABLES fh, fdone
fvars == <<fh, fdone>>

FInit == /\ fh = <<>> /\ fdone = FALSE
         \* the variables of the extended modules are not used here
         /\ inp = [timing |-> 1, objs |-> <<>>, breaks |-> <<>>, sm |-> 1000, mode |-> "osu", shift |-> 0] /\ out = <<>> /\ pdone = FALSE
         /\ gen = Gen0("osu") /\ hist = <<>> /\ st = EmptySt /\ done = FALSE
FStep == /\ ~fdone /\ Len(fh) < MaxItems
         /\ \E k \in 1..Len(Items) : fh' = Append(fh, k)
         /\ UNCHANGED <<fdone, pvars, vars>>
FFinish == /\ ~fdone /\ Len(fh) >= MinItems /\ fdone' = TRUE
           /\ (EmitFlow => PrintT("CASE " \o ToJson([h |-> fh, out |-> Outcome(Fold(FState0, fh))])))
           /\ UNCHANGED <<fh, pvars, vars>>
FSpec == FInit /\ [][FStep \/ FFinish]_<<fvars, pvars, vars>>

ASSUME EmitFlow => PrintT("ALPHA " \o ToJson([items |-> Items, lines |-> FlowLines, objs |-> FlowObjs]))

----------------------------------------------------------------------------
Sel(h, kinds) == SelectSeq(h, LAMBDA k : Items[k].kind \in kinds)
LastOf(h, kind) == LET s == Sel(h, {kind}) IN IF s = <<>> THEN <<>> ELSE <<s[Len(s)]>>

\* the data flow: only the order between [General] items and timing lines matters
Canon(h) == LastOf(h, "sm") \o Sel(h, {"brk"}) \o Sel(h, {"mode", "bank", "vol", "tl"}) \o Sel(h, {"obj"})
FlowOnly == Outcome(Fold(FState0, fh)) = Outcome(Fold(FState0, Canon(fh)))

\* a timing line's defaults are those of [General] when the line is read: putting every [General] item first
\* gives the same control points only if no [General] item followed a timing line that used a default
GeneralFirst(h) == Sel(h, {"mode", "bank", "vol"}) \o Sel(h, {"tl"})
\* (a bank field outside 0..3 falls back to the [General] bank as well - found by the randomised values)
UsesDefault(k) == Items[k].kind = "tl" /\ (FlowLines[Items[k].v].nf < 6 \/ FlowLines[Items[k].v].bank \notin 0..3)
LateGeneral(h) == \E i, j \in 1..Len(h) : i < j /\ UsesDefault(h[i]) /\ Items[h[j]].kind \in {"bank", "vol"}
EarlyGeneralIsEnough ==
    (~LateGeneral(fh) /\ ~\E i, j \in 1..Len(fh) : i < j /\ Items[fh[i]].kind = "tl" /\ Items[fh[j]].kind = "mode")
        => Outcome(Fold(FState0, fh)).cp = Outcome(Fold(FState0, GeneralFirst(fh))).cp

\* negative control: the FINAL [General] values are NOT what timing lines see
NegFinalGeneralIsUsed == Outcome(Fold(FState0, fh)).cp = Outcome(Fold(FState0, GeneralFirst(fh))).cp
=============================================================================
