----------------------------- MODULE TimingLines -----------------------------
(***************************************************************************)
(* C12 (and the timing part of C06) - `TimingPoints::parse_timing_points`   *)
(* (src/section/timing_points/decode.rs): how a sequence of [TimingPoints]  *)
(* lines becomes the four control-point lists.                              *)
(*                                                                          *)
(* Times.  An abstract time tau is an integer; tau \div 2 is the time in    *)
(* milliseconds and tau % 2 = 1 marks a time that exceeds it by less than   *)
(* f64::EPSILON ("0+", concretised as 1e-17).  tau order = real order, and  *)
(* two times are CLOSE (the code's |a - b| < EPSILON) iff tau \div 2 agree. *)
(*                                                                          *)
(* A line is a record of field CLASSES + values (the harness spells them):  *)
(*   tc/tau      time: "ok" | "bad"                                         *)
(*   blc/bl      beat length: "num" | "nan" | "bad" (garbage or > 2^31-1)   *)
(*   nf          number of comma separated fields present, 2..8             *)
(*   sigc/sig    meter: "zero" (text starts with '0': kept 4/4) | "num" |   *)
(*               "bad"                                                      *)
(*   bankc/bank, custc/custom, volc/vol, flagc/flags: "num" | "bad"         *)
(*   unin        field 7 starts with '1' (absent field = timing change)     *)
(* The decoder state mirrors the code: the pending group (time + one        *)
(* optional point per kind) and the collection.                             *)
(***************************************************************************)
EXTENDS ControlPointOps, TLC, Json, SequencesExt

CONSTANTS
    Alpha,      \* the line alphabet: a SEQUENCE of line records
    Gens,       \* set of [mode, bank, vol] records ([General] defaults)
    MaxLines,   \* bound on the number of lines
    MinLines,   \* Finish is enabled only after this many lines (0 for model checking; = MaxLines for `tlc -simulate`)
    Emit        \* print one CASE json line per finished behaviour

Clamp(x, lo, hi) == IF x < lo THEN lo ELSE IF x > hi THEN hi ELSE x
Close(a, b) == (a \div 2) = (b \div 2)

\* ---- one line ------------------------------------------------------------
Has(ln, k) == ln.nf >= k
TimingChange(ln) == IF Has(ln, 7) THEN ln.unin ELSE TRUE

Accepts(ln) ==
    /\ ln.tc = "ok"
    /\ ln.blc # "bad"
    /\ Has(ln, 3) => (ln.sigc = "zero" \/ (ln.sigc = "num" /\ ln.sig > 0))
    /\ Has(ln, 4) => ln.bankc = "num"
    /\ Has(ln, 5) => ln.custc = "num"
    /\ Has(ln, 6) => ln.volc = "num"
    /\ Has(ln, 8) => ln.flagc = "num"
    /\ ~(TimingChange(ln) /\ ln.blc = "nan")      \* NaN only on inherited lines

Scrolling(g) == g.mode \in {"taiko", "mania"}

\* speed multiplier in thousandths: 100 / -bl for negative beat lengths
SvRaw(ln) == IF ln.blc = "num" /\ ln.bl < 0 THEN 100000 \div (-ln.bl) ELSE 1000

Sig(ln)    == IF Has(ln, 3) /\ ln.sigc = "num" THEN ln.sig ELSE 4
\* bank: 1..3 as given; 0 ("None") becomes Normal; anything else falls back to
\* the [General] default, whose None also becomes Normal
Bank(ln, g) ==
    LET b0 == IF Has(ln, 4) /\ ln.bank \in 0..3 THEN ln.bank ELSE g.bank
    IN IF b0 = 0 THEN 1 ELSE b0
Custom(ln) == IF Has(ln, 5) THEN ln.custom ELSE 0
Vol(ln, g) == IF Has(ln, 6) THEN ln.vol ELSE g.vol
Kiai(ln)   == Has(ln, 8) /\ ln.flags % 2 = 1
Omit(ln)   == Has(ln, 8) /\ (ln.flags \div 8) % 2 = 1

TimPoint(ln)    == [t |-> ln.tau, bl |-> Clamp(ln.bl, 6, 60000), omit |-> Omit(ln), sig |-> Sig(ln)]
DifPoint(ln)    == [t |-> ln.tau, sv |-> Clamp(SvRaw(ln), 100, 10000), ticks |-> ln.blc # "nan"]
EffPoint(ln, g) == [t |-> ln.tau, kiai |-> Kiai(ln),
                    scroll |-> IF Scrolling(g) THEN Clamp(SvRaw(ln), 10, 10000) ELSE 1000]
SmpPoint(ln, g) == [t |-> ln.tau, bank |-> Bank(ln, g), vol |-> Clamp(Vol(ln, g), 0, 100), custom |-> Custom(ln)]

\* ---- decoder state -------------------------------------------------------
None == [some |-> FALSE]
Some(p) == [some |-> TRUE, p |-> p]
EmptySt == [pt |-> 0, ptim |-> None, pdif |-> None, peff |-> None, psmp |-> None, cp |-> EmptyCP]

\* flush_pending_points
Flush(s) ==
    LET c1 == IF s.ptim.some THEN AddTim(s.cp, s.ptim.p) ELSE s.cp
        c2 == IF s.pdif.some THEN AddDif(c1, s.pdif.p) ELSE c1
        c3 == IF s.peff.some THEN AddEff(c2, s.peff.p) ELSE c2
        c4 == IF s.psmp.some THEN AddSmp(c3, s.psmp.p) ELSE c3
    IN [s EXCEPT !.ptim = None, !.pdif = None, !.peff = None, !.psmp = None, !.cp = c4]

\* push_front keeps an existing pending point, push_back overwrites it
Push(old, new, front) == IF front /\ old.some THEN old ELSE Some(new)

\* an accepted line
DecLine(s0, ln, g) ==
    LET s  == IF ~Close(ln.tau, s0.pt) THEN Flush(s0) ELSE s0
        tc == TimingChange(ln)
    IN [s EXCEPT !.pt = ln.tau,
                 !.ptim = IF tc THEN Push(@, TimPoint(ln), TRUE) ELSE @,
                 !.pdif = Push(@, DifPoint(ln), tc),
                 !.peff = Push(@, EffPoint(ln, g), tc),
                 !.psmp = Push(@, SmpPoint(ln, g), tc)]

\* ---- state machine -------------------------------------------------------
VARIABLES gen, hist, st, done
vars == <<gen, hist, st, done>>

Init == gen \in Gens /\ hist = <<>> /\ st = EmptySt /\ done = FALSE

Accept(k) ==
    /\ ~done /\ Len(hist) < MaxLines /\ Accepts(Alpha[k])
    /\ st' = DecLine(st, Alpha[k], gen)
    /\ hist' = Append(hist, k)
    /\ UNCHANGED <<gen, done>>

\* a rejected line leaves the decoder state untouched (every parse precedes
\* every mutation) - C06 for this section
Reject(k) ==
    /\ ~done /\ Len(hist) < MaxLines /\ ~Accepts(Alpha[k])
    /\ hist' = Append(hist, k)
    /\ UNCHANGED <<gen, st, done>>

Result == Flush(st).cp

Finish ==
    /\ ~done /\ Len(hist) >= MinLines
    /\ done' = TRUE
    /\ st' = Flush(st)
    /\ (Emit => PrintT("CASE " \o ToJson([g |-> gen, h |-> hist, cp |-> Flush(st).cp,
                                              acc |-> [j \in 1..Len(hist) |-> Accepts(Alpha[hist[j]])]])))
    /\ UNCHANGED <<gen, hist>>

\* (the bound is tested once, outside the quantifier: TLC would otherwise
\* evaluate it |Alpha| times in every state)
Next == (~done /\ Len(hist) < MaxLines /\ \E k \in 1..Len(Alpha) : Accept(k) \/ Reject(k)) \/ Finish

Spec == Init /\ [][Next]_vars

----------------------------------------------------------------------------
\* The legacy rule, written declaratively from the property statement.
AcceptedLines(h) == SelectSeq([j \in 1..Len(h) |-> Alpha[h[j]]], Accepts)

\* maximal runs of consecutive lines whose time is close to the previous line's
\* (the very first line is compared with time 0, as the decoder does)
RECURSIVE Runs(_, _, _)
Runs(ls, prev, cur) ==
    IF ls = <<>> THEN (IF cur = <<>> THEN <<>> ELSE <<cur>>)
    ELSE LET x == Head(ls) IN
         IF Close(x.tau, prev) \/ cur = <<>>
         THEN Runs(Tail(ls), x.tau, Append(cur, x))
         ELSE <<cur>> \o Runs(Tail(ls), x.tau, <<x>>)

LastIdx(run, P(_)) == IF \E j \in 1..Len(run) : P(run[j])
                      THEN CHOOSE j \in 1..Len(run) : P(run[j]) /\ \A m \in (j + 1)..Len(run) : ~P(run[m]) ELSE 0
FirstIdx(run, P(_)) == IF \E j \in 1..Len(run) : P(run[j])
                       THEN CHOOSE j \in 1..Len(run) : P(run[j]) /\ \A m \in 1..(j - 1) : ~P(run[m]) ELSE 0
Inherited(ln) == ~TimingChange(ln)

\* per kind: the last inherited line wins, else the first timing-change line
Winner(run) == LET a == LastIdx(run, Inherited) IN IF a > 0 THEN a ELSE FirstIdx(run, TimingChange)

ApplyRun(cp, run, g) ==
    LET w  == Winner(run)
        ft == FirstIdx(run, TimingChange)
        c1 == IF ft > 0 THEN AddTim(cp, TimPoint(run[ft])) ELSE cp
        c2 == AddDif(c1, DifPoint(run[w]))
        c3 == AddEff(c2, EffPoint(run[w], g))
    IN AddSmp(c3, SmpPoint(run[w], g))

RECURSIVE ApplyRuns(_, _, _)
ApplyRuns(cp, rs, g) == IF rs = <<>> THEN cp ELSE ApplyRuns(ApplyRun(cp, Head(rs), g), Tail(rs), g)

Legacy(h, g) == ApplyRuns(EmptyCP, Runs(AcceptedLines(h), 0, <<>>), g)

\* (i) refinement: the pending-group machinery computes the legacy rule
Refines == done => st.cp = Legacy(hist, gen)

\* (ii) shape of every reachable collection
Clamped(cp, g) ==
    /\ \A j \in 1..Len(cp.tim) : cp.tim[j].bl >= 6 /\ cp.tim[j].bl <= 60000 /\ cp.tim[j].sig > 0
    /\ \A j \in 1..Len(cp.dif) : cp.dif[j].sv >= 100 /\ cp.dif[j].sv <= 10000
                                 /\ (~cp.dif[j].ticks => cp.dif[j].sv = 1000)
    /\ \A j \in 1..Len(cp.eff) : cp.eff[j].scroll >= 10 /\ cp.eff[j].scroll <= 10000
                                 /\ (~Scrolling(g) => cp.eff[j].scroll = 1000)
    /\ \A j \in 1..Len(cp.smp) : cp.smp[j].vol >= 0 /\ cp.smp[j].vol <= 100 /\ cp.smp[j].bank \in 1..3
Shape == StrictlySorted(st.cp) /\ StrictlySorted(Result) /\ Clamped(Result, gen)

\* pending points all carry a time close to the pending time
PendingClose ==
    /\ st.ptim.some => Close(st.ptim.p.t, st.pt)
    /\ st.pdif.some => Close(st.pdif.p.t, st.pt)
    /\ st.peff.some => Close(st.peff.p.t, st.pt)
    /\ st.psmp.some => Close(st.psmp.p.t, st.pt)

\* the timing list only ever holds points of timing-change lines, never a NaN one
NoNaNTiming == \A j \in 1..Len(hist) :
    LET ln == Alpha[hist[j]] IN (ln.blc = "nan" /\ TimingChange(ln)) => ~Accepts(ln)

----------------------------------------------------------------------------
\* alphabets (sequences so that histories can be printed as index lists)
Base(tau) == [tc |-> "ok", tau |-> tau, blc |-> "num", bl |-> 500, nf |-> 8,
              sigc |-> "num", sig |-> 4, bankc |-> "num", bank |-> 1, custc |-> "num", custom |-> 0,
              volc |-> "num", vol |-> 100, unin |-> TRUE, flagc |-> "num", flags |-> 0]

\* SetToSeq is the (Java-overridden, non-recursive) operator of SequencesExt
\* the property's time alphabet {0, 0+, 10, 10, 20, -5}
Taus == {0, 1, 20, 40, -10}

\* velocity / ticks / scroll concern
AlphaVelSet ==
    {[Base(t) EXCEPT !.bl = b, !.unin = (b > 0)] : t \in Taus, b \in {500, 250, -100, -50, -200, -5, -100000}}
    \cup {[Base(t) EXCEPT !.blc = "nan", !.bl = 0, !.unin = u] : t \in Taus, u \in BOOLEAN}
    \cup {[Base(t) EXCEPT !.bl = -50, !.unin = TRUE] : t \in Taus}
\* effect flags / meter / omit concern
AlphaEffSet ==
    {[Base(t) EXCEPT !.flags = f, !.unin = u, !.bl = IF u THEN 500 ELSE -100, !.sig = s] :
        t \in Taus, f \in {0, 1, 8, 9}, u \in BOOLEAN, s \in {4, 3}}
\* sample concern
AlphaSmpSet ==
    {[Base(t) EXCEPT !.bank = b, !.vol = v, !.custom = c, !.unin = u, !.bl = IF u THEN 500 ELSE -100] :
        t \in Taus, b \in {0, 2, 7}, v \in {100, 50, 150, -5}, c \in {0, 2}, u \in BOOLEAN}
\* field presence and rejection classes
AlphaShapeSet ==
    {[Base(t) EXCEPT !.nf = n, !.bl = b, !.vol = 30, !.bank = 3, !.flags = 1, !.unin = FALSE] :
        t \in {0, 20}, n \in 2..8, b \in {500, -50}}
    \cup {[Base(t) EXCEPT !.tc = "bad"] : t \in {0}}
    \cup {[Base(t) EXCEPT !.blc = "bad"] : t \in {0}}
    \cup {[Base(t) EXCEPT !.sigc = c, !.sig = s] : t \in {0, 20}, c \in {"num", "bad"}, s \in {-1, 7, 3}}
    \cup {[Base(t) EXCEPT !.sigc = "zero", !.sig = 0] : t \in {0, 20}}
    \cup {[Base(t) EXCEPT !.bankc = "bad"] : t \in {20}}
    \cup {[Base(t) EXCEPT !.custc = "bad"] : t \in {20}}
    \cup {[Base(t) EXCEPT !.volc = "bad"] : t \in {20}}
    \cup {[Base(t) EXCEPT !.flagc = "bad"] : t \in {20}}
    \cup {[Base(t) EXCEPT !.bl = b, !.unin = (b > 0)] : t \in {0, 20}, b \in {1, 0, 1000000, -10}}

AlphaVel   == SetToSeq(AlphaVelSet)
AlphaEff   == SetToSeq(AlphaEffSet)
AlphaSmp   == SetToSeq(AlphaSmpSet)
AlphaShape == SetToSeq(AlphaShapeSet)
AlphaAll   == AlphaVel \o AlphaEff \o AlphaSmp \o AlphaShape

GensAll == {[mode |-> m, bank |-> b, vol |-> v] : m \in {"osu", "taiko", "catch", "mania"}, b \in {0, 2}, v \in {100, 60}}
GensTwo == {[mode |-> "osu", bank |-> 0, vol |-> 100], [mode |-> "mania", bank |-> 2, vol |-> 60]}
GensFour == {[mode |-> "osu", bank |-> 0, vol |-> 100], [mode |-> "mania", bank |-> 2, vol |-> 60],
             [mode |-> "taiko", bank |-> 0, vol |-> 60], [mode |-> "osu", bank |-> 2, vol |-> 100]}
GensModes == {[mode |-> m, bank |-> 0, vol |-> 100] : m \in {"osu", "taiko", "catch", "mania"}}

\* printed once so that the harness can resolve history indices
ASSUME Emit => PrintT("ALPHA " \o ToJson(Alpha))
=============================================================================
