---------------------------- MODULE ControlPoints ----------------------------
(***************************************************************************)
(* C13 - the public `ControlPoints` collection as a state machine.          *)
(*                                                                          *)
(* State: the four lists.  One action: Add(kind, point), the public         *)
(* `ControlPoints::add`.  Lookups are operators of the state                *)
(* (ControlPointOps!LookupIdx) because they do not change it.               *)
(*                                                                          *)
(* Constants                                                                *)
(*   Times     - the time alphabet (the property's {-1,0,1,2})              *)
(*   KindSet   - which kinds may be added in this configuration             *)
(*   MaxOps    - bound on the number of adds (0 = unbounded: complete       *)
(*               reachable graph, which is finite because the lists are     *)
(*               sets of (time,value) over finite alphabets)                *)
(*   Emit      - print one TRANS json line per generated transition         *)
(***************************************************************************)
EXTENDS ControlPointOps, TLC, Json

CONSTANTS Times, KindSet, MaxOps, Emit

VARIABLES cp, n
vars == <<cp, n>>

\* two values per kind: one equal to the default point, one different
PointsOf(k) ==
    CASE k = "tim" -> {[t |-> t, bl |-> b, omit |-> FALSE, sig |-> 4] : t \in Times, b \in {500, 250}}
      [] k = "dif" -> {[t |-> t, sv |-> s, ticks |-> TRUE] : t \in Times, s \in {1000, 2000}}
      [] k = "eff" -> {[t |-> t, kiai |-> b, scroll |-> 1000] : t \in Times, b \in BOOLEAN}
      [] k = "smp" -> {[t |-> t, bank |-> 1, vol |-> v, custom |-> 0] : t \in Times, v \in {100, 50}}

MinT == CHOOSE t \in Times : \A u \in Times : t <= u
MaxT == CHOOSE t \in Times : \A u \in Times : t >= u
Probes == (MinT - 1)..(MaxT + 1)

Lookups(c) == [k \in Kinds |-> [t \in Probes |-> LookupIdx(c, k, t)]]

\* constant sets that a .cfg file cannot spell (negative numbers)
TimesC13 == {-1, 0, 1, 2}

Init == cp = EmptyCP /\ n = 0

Add(k, p) ==
    /\ MaxOps = 0 \/ n < MaxOps
    /\ cp' = AddPoint(cp, k, p)
    /\ n' = IF MaxOps = 0 THEN 0 ELSE n + 1
    /\ (Emit => PrintT("TRANS " \o ToJson(
            [pre |-> cp, k |-> k, p |-> p, post |-> cp', postw |-> AddPointW(cp, k, p),
             red |-> Redundant(cp, k, p),
             look |-> [k2 \in Kinds |-> [i \in 1..(MaxT - MinT + 3) |-> LookupIdx(cp', k2, MinT - 2 + i)]],
             probe0 |-> MinT - 1])))

Next == \E k \in KindSet : \E p \in PointsOf(k) : Add(k, p)

Spec == Init /\ [][Next]_vars

----------------------------------------------------------------------------
\* Properties (C13)

Sorted == StrictlySorted(cp)          \* strictly increasing => one point per time

\* every lookup returns the latest point not after t, with the documented
\* behaviour before the first point
LookupSound ==
    \A k \in Kinds : \A t \in Probes :
        LET l == cp[k]  i == LookupIdx(cp, k, t) IN
        /\ i \in 0..Len(l)
        /\ (i > 0 /\ l[i].t <= t) => (\A j \in 1..Len(l) : l[j].t <= t => l[j].t <= l[i].t)
        /\ (i > 0 /\ l[i].t > t) => (k \in {"tim", "smp"} /\ i = 1 /\ \A j \in 1..Len(l) : l[j].t > t)
        /\ (i = 0) => (\A j \in 1..Len(l) : l[j].t > t) /\ (Len(l) > 0 => k \in {"dif", "eff"})

\* action properties
AddProps ==
    [][\A k \in Kinds : \A p \in PointsOf(k) :
        (cp' = AddPoint(cp, k, p)) =>
            /\ \A k2 \in Kinds \ {k} : cp'[k2] = cp[k2] \/ cp' = cp          \* cross-kind independence
            /\ (Redundant(cp, k, p) => cp' = cp)                            \* redundant add is a no-op
            /\ (~Redundant(cp, k, p) =>                                     \* otherwise the point is active at its time
                    LET i == LookupIdx(cp', k, p.t) IN i > 0 /\ cp'[k][i] = p)
            /\ Len(cp'[k]) \in {Len(cp[k]), Len(cp[k]) + 1}
      ]_vars

\* Negative control (kept on record, DESIGN 3): as a STATE invariant
\* "no adjacent repeat" is false in the legacy model.
NegNoAdjacentRepeat == NoAdjacentRepeat(cp)
=============================================================================
