------------------------------ MODULE PathCodec ------------------------------
(***************************************************************************)
(* C02 / C04 for slider paths: decode -> encode -> decode on control-point  *)
(* lists, using the decoder and encoder transcriptions of PathString.       *)
(* For every decodable token string s (up to a bound):                      *)
(*    cps = DecPath(s);  out = EncPath(cps);  re = Reparse(out)             *)
(*  C04: the encoded path is accepted again            (Accepted)           *)
(*  C02: and yields the same control points            (RoundTrip)          *)
(* RoundTrip is claimed only outside the SHAPES listed in Unencodable       *)
(* (control-point lists the legacy text format cannot carry, see DESIGN 7); *)
(* TLC checks that every failure lies inside a listed shape.                *)
(***************************************************************************)
EXTENDS PathString, TLC, Json, SequencesExt

CONSTANTS MaxToks, TokSet, FixedSep, ForceLast, Emit

Toks == IF TokSet = "full" THEN {"B", "L", "P", "C", "O", "A", "Bc", "Cn"}
        ELSE IF TokSet = "degree" THEN {"B", "B3", "L", "O", "A", "Cn"}
        ELSE {"B", "L", "P", "O", "A", "Cn"}

RECURSIVE TokSeqs(_, _)
TokSeqs(S, n) == IF n = 0 THEN {<<>>} ELSE LET R == TokSeqs(S, n - 1) IN R \cup {Append(q, x) : q \in R, x \in S}

VARIABLES s, done
vars == <<s, done>>

Init == s \in {t \in TokSeqs(Toks, MaxToks) : t # <<>> /\ DecPath(t).ok} /\ done = FALSE

Cps == DecPath(s).v
Out == EncPathWith(Cps, FixedSep, ForceLast)
Re == Reparse(Out)

\* the C02 generator only produces grammatical path strings: a type letter first,
\* never two letters in a row, never a letter last
Grammatical(t) ==
    /\ IsLetterTok(t[1])
    /\ \A i \in 1..(Len(t) - 1) : ~(IsLetterTok(t[i]) /\ IsLetterTok(t[i + 1]))
    /\ ~IsLetterTok(t[Len(t)]) \/ Len(t) = 1

\* control-point lists the text format cannot carry
\*  (a) an untyped point repeating its predecessor where the decoder would split
\*      (only reachable through the no-split rules: Catmull runs, last point of a segment)
HasUntypedDup(c) == \E i \in 2..Len(c) : c[i].ty = "none" /\ c[i].p = c[i - 1].p
\*  (b) consecutive explicit Catmull segments (listed in the property's exclusions)
HasCatmullJoin(c) == \E i \in 2..Len(c) : c[i].ty = "C"
\*  (c) a typed point at index 2 sitting on the slider origin
TypedSecondOnOrigin(c) == Len(c) >= 2 /\ c[2].ty # "none" /\ c[2].p = "O"
\*  (d) a typed point sitting on its predecessor (an explicit letter followed by a repeated point):
\*      written by duplication, which the decoder reads as a split one point earlier
HasTypedDup(c) == \E i \in 2..Len(c) : c[i].ty # "none" /\ c[i].p = c[i - 1].p
\*  (e) two typed points in a row after the first point (a one-point segment in the middle of the path)
AdjacentTyped(c) == \E i \in 2..(Len(c) - 1) : c[i].ty # "none" /\ c[i + 1].ty # "none"
Unencodable(c) == HasUntypedDup(c) \/ HasCatmullJoin(c) \/ TypedSecondOnOrigin(c) \/ HasTypedDup(c) \/ AdjacentTyped(c)
ShapeOf(c) == IF HasUntypedDup(c) THEN "untyped-duplicate" ELSE IF HasCatmullJoin(c) THEN "catmull-join"
              ELSE IF TypedSecondOnOrigin(c) THEN "typed-second-on-origin" ELSE IF HasTypedDup(c) THEN "typed-duplicate" ELSE IF AdjacentTyped(c) THEN "adjacent-typed" ELSE "none"

Step == ~done /\ done' = TRUE /\ UNCHANGED s
        /\ (Emit => PrintT("CASE " \o ToJson([s |-> s, cps |-> Cps, out |-> Out, ok |-> Re.ok,
                                              same |-> (Re.ok /\ Re.v = Cps), gram |-> Grammatical(s),
                                              re |-> Re.v, shape |-> ShapeOf(Cps)])))
Spec == Init /\ [][Step]_vars

\* C04: every path the encoder writes for a decoded list is accepted by the decoder
Accepted == Re.ok
\* C02: and gives the same list, outside the listed shapes
RoundTrip == (Grammatical(s) /\ ~Unencodable(Cps)) => (Re.ok /\ Re.v = Cps)
\* for exploration: every failure at all
RoundTripAll == Re.ok /\ Re.v = Cps
=============================================================================
