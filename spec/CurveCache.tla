------------------------------ MODULE CurveCache ------------------------------
(***************************************************************************)
(* C18 - purity of curve computation across APIs, shared scratch buffers    *)
(* and the cache inside SliderPath (slider/curve.rs, slider/path.rs).       *)
(*                                                                          *)
(* Inputs are drawn from a pool: an input is <<i, l>> = (control-point list *)
(* number i of the pool, requested-length choice l).  F(<<i, l>>) - "the    *)
(* curve of that input" - is uninterpreted here; the harness realises it as *)
(* Curve::new on FRESH buffers, so purity means exactly "equals F(input)".  *)
(*                                                                          *)
(* State                                                                    *)
(*   buf    what the shared CurveBuffers' path currently holds: "empty" or  *)
(*          the input whose path was left there by a borrowed computation   *)
(*   sp     the SliderPath: its control points i, its length l, its cache   *)
(*   res    what the last computing call returned: F(<<i,l>>), or - in the  *)
(*          deviating model - the stale path of another input               *)
(* Constants                                                                *)
(*   EmptyClears  TRUE: computing the curve of an EMPTY control-point list  *)
(*                starts from an empty path (intended); FALSE: the early    *)
(*                return of calculate_path leaves the previous path in place*)
(*   MutClears    TRUE: control_points_mut / expected_dist_mut drop the     *)
(*                cached curve                                              *)
(***************************************************************************)
EXTENDS Integers, Sequences, TLC, Json

CONSTANTS NPool, NLen, MaxOps, EmptyClears, MutClears, Emit

EmptyIdx == 0                      \* pool[0] is the empty control-point list
Inputs == (0..NPool) \X (0..NLen)
NoInput == <<-1, -1>>

VARIABLES buf, sp, res, ops
vars == <<buf, sp, res, ops>>

F(inp) == [kind |-> "F", inp |-> inp]
Stale(inp, l) == [kind |-> "stale", inp |-> inp, l |-> l]
NoRes == [kind |-> "none", inp |-> NoInput]

\* calculate_path + calculate_length on the shared buffers
ComputeOn(b, inp) ==
    IF inp[1] = EmptyIdx /\ ~EmptyClears /\ b # NoInput
    THEN Stale(b, inp[2])            \* previous path, lengths recomputed for the new request
    ELSE F(inp)

Init == /\ buf = NoInput
        /\ sp = [i |-> 1, l |-> 0, cache |-> NoInput]
        /\ res = NoRes /\ ops = <<>>

Log(op) == ops' = Append(ops, op)

\* Curve::new: computes on the shared buffers, then takes the vectors out of them
Owned(inp) ==
    /\ res' = ComputeOn(buf, inp)
    /\ buf' = NoInput
    /\ Log([op |-> "owned", i |-> inp[1], l |-> inp[2], res |-> res'])
    /\ UNCHANGED sp

\* BorrowedCurve::new: the result lives in the shared buffers
Borrowed(inp) ==
    /\ res' = ComputeOn(buf, inp)
    /\ buf' = IF res'.kind = "F" THEN inp ELSE buf
    /\ Log([op |-> "borrowed", i |-> inp[1], l |-> inp[2], res |-> res'])
    /\ UNCHANGED sp

SpInput == <<sp.i, sp.l>>

\* SliderPath::curve(): fresh private buffers on a miss
PathCurve ==
    /\ res' = IF sp.cache # NoInput THEN F(sp.cache) ELSE F(SpInput)
    /\ sp' = IF sp.cache # NoInput THEN sp ELSE [sp EXCEPT !.cache = SpInput]
    /\ Log([op |-> "path_curve", i |-> sp.i, l |-> sp.l, res |-> res'])
    /\ UNCHANGED buf

\* SliderPath::curve_with_bufs(bufs): the shared buffers on a miss (Curve::new takes them)
PathCurveBufs ==
    /\ res' = IF sp.cache # NoInput THEN F(sp.cache) ELSE ComputeOn(buf, SpInput)
    /\ sp' = IF sp.cache # NoInput THEN sp ELSE [sp EXCEPT !.cache = SpInput]
    /\ buf' = IF sp.cache # NoInput THEN buf ELSE NoInput
    /\ Log([op |-> "path_curve_bufs", i |-> sp.i, l |-> sp.l, res |-> res'])

\* SliderPath::borrowed_curve(bufs): the cache, or a borrowed computation (not stored)
PathBorrowed ==
    /\ res' = IF sp.cache # NoInput THEN F(sp.cache) ELSE ComputeOn(buf, SpInput)
    /\ buf' = IF sp.cache # NoInput THEN buf ELSE (IF res'.kind = "F" THEN SpInput ELSE buf)
    /\ Log([op |-> "path_borrowed", i |-> sp.i, l |-> sp.l, res |-> res'])
    /\ UNCHANGED sp

MutPoints(j) ==
    /\ sp' = [sp EXCEPT !.i = j, !.cache = IF MutClears THEN NoInput ELSE @]
    /\ Log([op |-> "mut_points", i |-> j, l |-> sp.l, res |-> NoRes])
    /\ UNCHANGED <<buf, res>>

MutLen(l) ==
    /\ sp' = [sp EXCEPT !.l = l, !.cache = IF MutClears THEN NoInput ELSE @]
    /\ Log([op |-> "mut_len", i |-> sp.i, l |-> l, res |-> NoRes])
    /\ UNCHANGED <<buf, res>>

ClearCache ==
    /\ sp' = [sp EXCEPT !.cache = NoInput]
    /\ Log([op |-> "clear", i |-> sp.i, l |-> sp.l, res |-> NoRes])
    /\ UNCHANGED <<buf, res>>

\* SliderPath::clone_from(&source): the path takes over the source's control points, length AND cache;
\* the source is a path of input `inp` whose curve has (cached) or has not been computed yet
CloneFrom(inp, cached) ==
    /\ sp' = [i |-> inp[1], l |-> inp[2], cache |-> IF cached THEN inp ELSE (IF MutClears THEN NoInput ELSE sp.cache)]
    /\ Log([op |-> IF cached THEN "clone_from_cached" ELSE "clone_from", i |-> inp[1], l |-> inp[2], res |-> NoRes])
    /\ UNCHANGED <<buf, res>>
CloneSources == (0..(IF NPool < 2 THEN NPool ELSE 2)) \X (0..(IF NLen < 1 THEN NLen ELSE 1))

Step == \/ \E inp \in Inputs : Owned(inp) \/ Borrowed(inp)
        \/ \E inp \in CloneSources : \E c \in BOOLEAN : CloneFrom(inp, c)
        \/ PathCurve \/ PathCurveBufs \/ PathBorrowed
        \/ \E j \in 0..NPool : MutPoints(j)
        \/ \E l \in 0..NLen : MutLen(l)
        \/ ClearCache

Next == (Len(ops) < MaxOps /\ Step)
Spec == Init /\ [][Next]_vars

\* the abstract state without the operation log (quick tier: one representative
\* history per abstract state, every transition still generated)
View == <<buf, sp, res>>

----------------------------------------------------------------------------
\* C18
\* every computing call returns the curve of the input it was asked for
Pure == \A k \in 1..Len(ops) : LET o == ops[k] IN
            o.res.kind # "none" => o.res = F(<<o.i, o.l>>)
\* a cached curve always belongs to the path's current control points and length
CacheCoherent == sp.cache # NoInput => sp.cache = SpInput

EmitCase == (Emit /\ Len(ops) = MaxOps) => PrintT("CASE " \o ToJson([ops |-> ops]))
=============================================================================
